package main

// Replay of solver counterexamples against the real code (routes R1/R2 of DESIGN.md 2.8).

import (
	"encoding/json"
	"fmt"
	"os"
	"regexp"
	"sort"
	"strconv"
	"strings"
)

type replayer func(w *World, v violation) map[string]any

var replayers = map[string]replayer{}

func runReplayer(w *World, name string, v violation) (res map[string]any) {
	defer func() {
		if r := recover(); r != nil {
			res = map[string]any{"confirmed": false, "reason": fmt.Sprintf("replayer %s failed: %v", name, r)}
		}
	}()
	f, ok := replayers[name]
	if !ok {
		return map[string]any{"confirmed": false, "reason": "unknown replayer " + name}
	}
	return f(w, v)
}

// modelValue extracts the value of a constant from a z3/cvc5 model.
func modelValue(model, name string) (string, bool) {
	re := regexp.MustCompile(`\(define-fun \|?` + regexp.QuoteMeta(strings.Trim(name, "|")) + `\|? \(\) [^\n]*?(?:\n\s*)?((?:"(?:[^"]|"")*")|\(- [0-9.]+\)|[0-9.]+|true|false)\)`)
	m := re.FindStringSubmatch(model)
	if m == nil {
		return "", false
	}
	return m[1], true
}

func modelString(model, name string) (string, bool) {
	v, ok := modelValue(model, name)
	if !ok {
		return "", false
	}
	s, ok := smtStringLiteral(v)
	return s, ok
}

func modelBool(model, name string) (bool, bool) {
	v, ok := modelValue(model, name)
	if !ok {
		return false, false
	}
	return v == "true", true
}

func modelInt(model, name string) (int64, bool) {
	v, ok := modelValue(model, name)
	if !ok {
		return 0, false
	}
	neg := false
	if strings.HasPrefix(v, "(- ") {
		neg = true
		v = strings.TrimSuffix(strings.TrimPrefix(v, "(- "), ")")
	}
	n, err := strconv.ParseInt(strings.TrimSuffix(v, ".0"), 10, 64)
	if err != nil {
		return 0, false
	}
	if neg {
		n = -n
	}
	return n, true
}

// sanitizePath keeps the characters that survive every emitter unescaped; others become 'x'.
func sanitizePath(s string) string {
	var b strings.Builder
	for i := 0; i < len(s); i++ {
		ch := s[i]
		switch {
		case ch >= 'a' && ch <= 'z', ch >= 'A' && ch <= 'Z', ch >= '0' && ch <= '9', ch == '/', ch == '_', ch == '-', ch == '.':
			b.WriteByte(ch)
		default:
			b.WriteByte('x')
		}
	}
	return b.String()
}

type routeInfo struct {
	Verb string `json:"verb"`
	Path string `json:"path"`
}

// routeSchema builds a one-RPC schema for the given annotation content.
func routeSchema(base string, hasCfg bool, cfgPath string, verb int64, methodName string) *Schema {
	f := protoFile("t/v1/t.proto", "t.v1", "example.com/t/v1;tv1")
	addMessage(f, message("Req"))
	addMessage(f, message("Resp", field("ok", "bool")))
	m := method(methodName, ".t.v1.Req", ".t.v1.Resp")
	if hasCfg {
		verbs := map[int64]string{0: "HTTP_METHOD_UNSPECIFIED", 1: "HTTP_METHOD_GET", 2: "HTTP_METHOD_POST", 3: "HTTP_METHOD_PUT", 4: "HTTP_METHOD_DELETE", 5: "HTTP_METHOD_PATCH"}
		vn, ok := verbs[verb]
		if !ok {
			vn = "HTTP_METHOD_UNSPECIFIED"
		}
		withOpt(m, "sebuf.http.config", M{"path": cfgPath, "method": vn})
	}
	svc := service("Users", m)
	if base != "" {
		withOpt(svc, "sebuf.http.service_config", M{"base_path": base})
	}
	addService(f, svc)
	return &Schema{Files: []map[string]any{f}}
}

var (
	reGoServerRoute = regexp.MustCompile(`config\.mux\.Handle\("([A-Z]+) ([^"]*)"`)
	reGoClientPath  = regexp.MustCompile(`path := "([^"]*)"`)
	reGoClientVerb  = regexp.MustCompile(`http\.NewRequestWithContext\(ctx, "([A-Z]+)"`)
	reTSClientPath  = regexp.MustCompile(`let path = "([^"]*)"`)
	reTSMethod      = regexp.MustCompile(`method: "([A-Z]+)"`)
	reTSServerPath  = regexp.MustCompile(`path: "([^"]*)"`)
)

// extractRoutes runs the five plugins of the working tree and reads the route each one publishes.
func extractRoutes(s *Schema) (map[string]routeInfo, map[string]string, error) {
	t, err := GetTools()
	if err != nil {
		return nil, nil, err
	}
	req, err := t.MakeRequest(s)
	if err != nil {
		return nil, nil, fmt.Errorf("schema rejected: %w", err)
	}
	routes := map[string]routeInfo{}
	problems := map[string]string{}
	run := func(plugin string) *GenOutput {
		o, err := t.RunPlugin(plugin, req)
		if err != nil {
			problems[plugin] = err.Error()
			return nil
		}
		if o.Crash != "" {
			problems[plugin] = "crash: " + o.Crash
			return nil
		}
		if o.Error != "" {
			problems[plugin] = "refused: " + o.Error
			return nil
		}
		return o
	}
	if o := run("protoc-gen-go-http"); o != nil {
		if f := o.File("_http.pb.go"); f != nil {
			if m := reGoServerRoute.FindStringSubmatch(f.Content); m != nil {
				routes["go-server"] = routeInfo{m[1], m[2]}
			}
		}
	}
	if o := run("protoc-gen-go-client"); o != nil {
		if f := o.File("_client.pb.go"); f != nil {
			r := routeInfo{}
			if m := reGoClientPath.FindStringSubmatch(f.Content); m != nil {
				r.Path = m[1]
			}
			if m := reGoClientVerb.FindStringSubmatch(f.Content); m != nil {
				r.Verb = m[1]
			}
			routes["go-client"] = r
		}
	}
	if o := run("protoc-gen-ts-client"); o != nil && len(o.Files) > 0 {
		c := o.Files[0].Content
		r := routeInfo{}
		if m := reTSClientPath.FindStringSubmatch(c); m != nil {
			r.Path = m[1]
		}
		if m := reTSMethod.FindStringSubmatch(c); m != nil {
			r.Verb = m[1]
		}
		routes["ts-client"] = r
	}
	if o := run("protoc-gen-ts-server"); o != nil && len(o.Files) > 0 {
		c := o.Files[0].Content
		r := routeInfo{}
		if m := reTSServerPath.FindStringSubmatch(c); m != nil {
			r.Path = m[1]
		}
		if m := reTSMethod.FindStringSubmatch(c); m != nil {
			r.Verb = m[1]
		}
		routes["ts-server"] = r
	}
	if o := run("protoc-gen-openapiv3"); o != nil && len(o.Files) > 0 {
		c := o.Files[0].Content
		// YAML: "paths:\n    /x:\n        post:"
		lines := strings.Split(c, "\n")
		for i, l := range lines {
			if strings.TrimSpace(l) == "paths:" && i+2 < len(lines) {
				p := strings.TrimSuffix(strings.TrimSpace(lines[i+1]), ":")
				p = strings.Trim(p, `"'`)
				v := strings.TrimSuffix(strings.TrimSpace(lines[i+2]), ":")
				routes["openapi"] = routeInfo{strings.ToUpper(v), p}
			}
		}
	}
	return routes, problems, nil
}

func init() {
	replayers["routes"] = func(w *World, v violation) map[string]any {
		base, _ := modelString(v.Model, "w:base")
		hasCfg, _ := modelBool(v.Model, "w:hascfg")
		cfgPath, _ := modelString(v.Model, "w:cfgpath")
		verb, _ := modelInt(v.Model, "w:verb")
		base, cfgPath = sanitizePath(base), sanitizePath(cfgPath)
		s := routeSchema(base, hasCfg, cfgPath, verb, "ListUsers")
		routes, problems, err := extractRoutes(s)
		res := map[string]any{"input": map[string]any{"service_base_path": base, "has_http_config": hasCfg, "config_path": cfgPath, "config_verb_enum": verb, "method": "ListUsers", "go_package": "example.com/t/v1;tv1"},
			"routes": routes, "plugin_problems": problems}
		if err != nil {
			res["confirmed"] = false
			res["reason"] = "spurious model (needs contract): " + err.Error()
			return res
		}
		pairs := [][2]string{}
		switch {
		case strings.Contains(v.Obligation, "goserver"):
			pairs = append(pairs, [2]string{"go-server", "go-client"})
		case strings.Contains(v.Obligation, "openapi"):
			pairs = append(pairs, [2]string{"openapi", "go-client"})
		default:
			names := []string{"go-server", "go-client", "ts-client", "ts-server", "openapi"}
			for i := range names {
				for j := i + 1; j < len(names); j++ {
					pairs = append(pairs, [2]string{names[i], names[j]})
				}
			}
		}
		var diffs []string
		for _, pr := range pairs {
			a, oka := routes[pr[0]]
			b, okb := routes[pr[1]]
			if !oka || !okb {
				continue
			}
			if a.Path != b.Path {
				diffs = append(diffs, fmt.Sprintf("%s path %q != %s path %q", pr[0], a.Path, pr[1], b.Path))
			}
			if a.Verb != b.Verb {
				diffs = append(diffs, fmt.Sprintf("%s verb %q != %s verb %q", pr[0], a.Verb, pr[1], b.Verb))
			}
		}
		sort.Strings(diffs)
		res["observed_disagreements"] = diffs
		res["confirmed"] = len(diffs) > 0
		if len(diffs) == 0 {
			res["reason"] = "the real generators agree on this input: the counterexample does not replay"
		}
		return res
	}
}

func cmdReplay(args []string) int {
	if len(args) < 1 {
		fmt.Println("usage: govc replay <file>")
		return 2
	}
	data, err := os.ReadFile(args[0])
	if err != nil {
		fmt.Println(err)
		return 2
	}
	var rec map[string]any
	if err := json.Unmarshal(data, &rec); err != nil {
		fmt.Println(err)
		return 2
	}
	prop, _ := rec["property"].(string)
	obl, _ := rec["obligation"].(string)
	fmt.Printf("replaying property=%s obligation=%s\n", prop, obl)
	// re-run the property's check restricted to this obligation's unit
	inv, err := loadInventory()
	if err != nil {
		fmt.Println(err)
		return 3
	}
	spec := inv[prop]
	if spec == nil {
		fmt.Println("unknown property", prop)
		return 3
	}
	out, _ := rec["verifier_output"].(string)
	v := violation{Obligation: obl, Model: out}
	run := &checkRun{spec: spec}
	if rp := run.replayerFor(obl); rp != "" {
		w, err := LoadWorld()
		if err != nil {
			fmt.Println(err)
			return 3
		}
		res := runReplayer(w, rp, v)
		b, _ := json.MarshalIndent(res, "", " ")
		fmt.Println(string(b))
		if c, _ := res["confirmed"].(bool); c {
			fmt.Printf("VIOLATION property=%s replay=%s\n", prop, args[0])
			return 1
		}
		return 0
	}
	fmt.Println("no concrete replayer for this obligation; recorded verifier output:")
	fmt.Println(out)
	return 0
}

func cmdGen(args []string) int {
	// govc gen <plugin> <schema.json> : run a plugin of the working tree on a schema (debug aid)
	if len(args) < 2 {
		fmt.Println("usage: govc gen <plugin> <schema.json> [parameter]")
		return 2
	}
	data, err := os.ReadFile(args[1])
	if err != nil {
		fmt.Println(err)
		return 2
	}
	var s Schema
	if err := json.Unmarshal(data, &s); err != nil {
		fmt.Println(err)
		return 2
	}
	if len(args) > 2 {
		s.Parameter = args[2]
	}
	t, err := GetTools()
	if err != nil {
		fmt.Println(err)
		return 3
	}
	o, err := t.Generate(args[0], &s)
	if err != nil {
		fmt.Println(err)
		return 1
	}
	b, _ := json.MarshalIndent(o, "", " ")
	fmt.Println(string(b))
	return 0
}
