package main

// Running the real plugins of the working tree on synthesised schemas (replay route R2 and
// extraction of emitted code). Nothing is written into the repository.

import (
	"bytes"
	"encoding/json"
	"fmt"
	"os"
	"os/exec"
	"path/filepath"
	"strings"
	"sync"
)

type Tools struct {
	Dir   string // scratch directory holding the built binaries
	Repo  string
	mkreq string
	bins  map[string]string
	mu    sync.Mutex
}

var toolsOnce sync.Once
var theTools *Tools
var toolsErr error

func goEnv() []string {
	env := os.Environ()
	var out []string
	for _, e := range env {
		if strings.HasPrefix(e, "GOFLAGS=") || strings.HasPrefix(e, "GOPROXY=") || strings.HasPrefix(e, "GOSUMDB=") || strings.HasPrefix(e, "GOTOOLCHAIN=") {
			continue
		}
		out = append(out, e)
	}
	return append(out, "GOFLAGS=-mod=mod", "GOPROXY=off")
}

func runCmd(dir string, stdin []byte, name string, args ...string) ([]byte, error) {
	cmd := exec.Command(name, args...)
	cmd.Dir = dir
	cmd.Env = goEnv()
	if stdin != nil {
		cmd.Stdin = bytes.NewReader(stdin)
	}
	var out, errb bytes.Buffer
	cmd.Stdout = &out
	cmd.Stderr = &errb
	if err := cmd.Run(); err != nil {
		return out.Bytes(), fmt.Errorf("%s %s: %v: %s", name, strings.Join(args, " "), err, firstLines(errb.String(), 12))
	}
	return out.Bytes(), nil
}

// GetTools builds mkreq and the five plugins (plus protoc-gen-go) from the repository working tree, once per process.
func GetTools() (*Tools, error) {
	toolsOnce.Do(func() {
		repo := repoDir()
		dir := filepath.Join(scratch(), "tools")
		t := &Tools{Dir: dir, Repo: repo, bins: map[string]string{}}
		if err := os.MkdirAll(filepath.Join(dir, "mkreq"), 0o755); err != nil {
			toolsErr = err
			return
		}
		src := filepath.Join(verifDir(), "harness", "mkreq")
		main, err := os.ReadFile(filepath.Join(src, "main.go"))
		if err != nil {
			toolsErr = err
			return
		}
		tmpl, err := os.ReadFile(filepath.Join(src, "go.mod.tmpl"))
		if err != nil {
			toolsErr = err
			return
		}
		sum, _ := os.ReadFile(filepath.Join(repo, "go.sum"))
		os.WriteFile(filepath.Join(dir, "mkreq", "main.go"), main, 0o644)
		os.WriteFile(filepath.Join(dir, "mkreq", "go.mod"), []byte(strings.ReplaceAll(string(tmpl), "REPO", repo)), 0o644)
		os.WriteFile(filepath.Join(dir, "mkreq", "go.sum"), sum, 0o644)
		var wg sync.WaitGroup
		var errs []string
		var emu sync.Mutex
		fail := func(e error) {
			emu.Lock()
			errs = append(errs, e.Error())
			emu.Unlock()
		}
		wg.Add(1)
		go func() {
			defer wg.Done()
			if _, err := runCmd(filepath.Join(dir, "mkreq"), nil, "go", "build", "-o", filepath.Join(dir, "mkreq.bin"), "."); err != nil {
				fail(err)
			}
		}()
		t.mkreq = filepath.Join(dir, "mkreq.bin")
		for _, p := range []string{"protoc-gen-go-http", "protoc-gen-go-client", "protoc-gen-ts-client", "protoc-gen-ts-server", "protoc-gen-openapiv3"} {
			p := p
			t.bins[p] = filepath.Join(dir, p)
			wg.Add(1)
			go func() {
				defer wg.Done()
				if _, err := runCmd(repo, nil, "go", "build", "-o", filepath.Join(dir, p), "./cmd/"+p); err != nil {
					fail(err)
				}
			}()
		}
		t.bins["protoc-gen-go"] = filepath.Join(dir, "protoc-gen-go")
		wg.Add(1)
		go func() {
			defer wg.Done()
			if _, err := runCmd(repo, nil, "go", "build", "-o", filepath.Join(dir, "protoc-gen-go"), "google.golang.org/protobuf/cmd/protoc-gen-go"); err != nil {
				fail(err)
			}
		}()
		wg.Wait()
		if len(errs) > 0 {
			toolsErr = fmt.Errorf("building tools: %s", strings.Join(errs, "; "))
			return
		}
		theTools = t
	})
	return theTools, toolsErr
}

type GenFile struct {
	Name    string `json:"name"`
	Content string `json:"content"`
}

type GenOutput struct {
	Plugin string    `json:"plugin"`
	Error  string    `json:"error,omitempty"`
	Crash  string    `json:"crash,omitempty"`
	Files  []GenFile `json:"files"`
}

func (o *GenOutput) File(suffix string) *GenFile {
	for i := range o.Files {
		if strings.HasSuffix(o.Files[i].Name, suffix) {
			return &o.Files[i]
		}
	}
	return nil
}

// Schema is the mkreq input: protojson FileDescriptorProtos.
type Schema struct {
	Files     []map[string]any `json:"files"`
	Generate  []string         `json:"generate,omitempty"`
	Parameter string           `json:"parameter,omitempty"`
}

// MakeRequest serialises a CodeGeneratorRequest for the schema; an error means the schema is not a
// well-formed definition (protodesc refuses it) -- a spurious model, never a violation.
func (t *Tools) MakeRequest(s *Schema) ([]byte, error) {
	in, err := json.Marshal(s)
	if err != nil {
		return nil, err
	}
	return runCmd(t.Dir, in, t.mkreq, "req")
}

func (t *Tools) RunPlugin(plugin string, req []byte) (*GenOutput, error) {
	bin, ok := t.bins[plugin]
	if !ok {
		return nil, fmt.Errorf("unknown plugin %s", plugin)
	}
	cmd := exec.Command(bin)
	cmd.Stdin = bytes.NewReader(req)
	var out, errb bytes.Buffer
	cmd.Stdout = &out
	cmd.Stderr = &errb
	cmd.Env = append(os.Environ(), "GOMEMLIMIT=2GiB")
	err := runLimited(cmd)
	res := &GenOutput{Plugin: plugin}
	if err != nil {
		res.Crash = fmt.Sprintf("%v: %s", err, firstLines(errb.String(), 6))
		return res, nil
	}
	dec, err := runCmd(t.Dir, out.Bytes(), t.mkreq, "resp")
	if err != nil {
		return nil, err
	}
	var o GenOutput
	if err := json.Unmarshal(dec, &o); err != nil {
		return nil, err
	}
	o.Plugin = plugin
	return &o, nil
}

// Generate runs one plugin on a schema.
func (t *Tools) Generate(plugin string, s *Schema) (*GenOutput, error) {
	req, err := t.MakeRequest(s)
	if err != nil {
		return nil, fmt.Errorf("schema rejected: %w", err)
	}
	return t.RunPlugin(plugin, req)
}

// ---------------------------------------------------------------------------------------
// schema builders (protojson of descriptorpb)

type M = map[string]any

func protoFile(name, pkg, goPkg string) M {
	return M{"name": name, "package": pkg, "syntax": "proto3", "options": M{"go_package": goPkg}}
}

func addMessage(file M, msg M) {
	l, _ := file["message_type"].([]any)
	file["message_type"] = append(l, msg)
}

func addService(file M, svc M) {
	l, _ := file["service"].([]any)
	file["service"] = append(l, svc)
}

func addEnum(file M, e M) {
	l, _ := file["enum_type"].([]any)
	file["enum_type"] = append(l, e)
}

func message(name string, fields ...M) M {
	fs := make([]any, len(fields))
	for i, f := range fields {
		if _, ok := f["number"]; !ok {
			f["number"] = i + 1
		}
		fs[i] = f
	}
	return M{"name": name, "field": fs}
}

// field kinds: string int32 int64 uint32 uint64 sint32 sint64 fixed32 fixed64 sfixed32 sfixed64 bool float double bytes
func field(name, kind string) M {
	return M{"name": name, "type": "TYPE_" + strings.ToUpper(kind), "label": "LABEL_OPTIONAL", "json_name": jsonName(name)}
}

func msgField(name, typeName string) M {
	return M{"name": name, "type": "TYPE_MESSAGE", "type_name": typeName, "label": "LABEL_OPTIONAL", "json_name": jsonName(name)}
}

func enumField(name, typeName string) M {
	return M{"name": name, "type": "TYPE_ENUM", "type_name": typeName, "label": "LABEL_OPTIONAL", "json_name": jsonName(name)}
}

func repeated(f M) M {
	f["label"] = "LABEL_REPEATED"
	return f
}

func withOpt(f M, ext string, v any) M {
	o, _ := f["options"].(M)
	if o == nil {
		o = M{}
		f["options"] = o
	}
	o["["+ext+"]"] = v
	return f
}

func jsonName(name string) string {
	// protoc's lowerCamel derivation
	var b strings.Builder
	up := false
	for _, r := range name {
		if r == '_' {
			up = true
			continue
		}
		if up && r >= 'a' && r <= 'z' {
			r = r - 'a' + 'A'
		}
		up = false
		b.WriteRune(r)
	}
	return b.String()
}

func service(name string, methods ...M) M {
	ms := make([]any, len(methods))
	for i, m := range methods {
		ms[i] = m
	}
	return M{"name": name, "method": ms}
}

func method(name, in, out string) M {
	return M{"name": name, "input_type": in, "output_type": out}
}
