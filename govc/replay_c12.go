package main

// C12 replay family: offending and valid definitions for every documented rule, in several placements,
// run through the real plugins of the working tree.

import (
	"fmt"
	"sort"
	"strings"
)

type ruleCase struct {
	Rule     string
	Offender string // name that the refusal message has to mention
	Build    func(place string) *Schema
	Plugins  []string // plugins that must refuse
	Valid    bool     // a valid definition: every plugin must accept
}

// placeMessage puts msg (and helper messages) at the requested placement.
func placeMessage(place string, msgs []M, withService bool, svc M) *Schema {
	f := protoFile("t/v1/t.proto", "t.v1", "example.com/t/v1;tv1")
	addMessage(f, message("Req"))
	addMessage(f, message("Resp", field("ok", "bool")))
	switch place {
	case "nested":
		outer := message("Outer", field("x", "string"))
		inner := message("Mid", field("y", "string"))
		var nn []any
		for _, m := range msgs {
			nn = append(nn, m)
		}
		inner["nested_type"] = nn
		outer["nested_type"] = []any{inner}
		addMessage(f, outer)
	default:
		for _, m := range msgs {
			addMessage(f, m)
		}
	}
	if place == "imported" {
		// the offending message lives in lib.proto, which is imported but not in file_to_generate
		lib := protoFile("t/v1/lib.proto", "t.v1", "example.com/t/v1;tv1")
		lib["message_type"] = f["message_type"]
		main := protoFile("t/v1/t.proto", "t.v1", "example.com/t/v1;tv1")
		main["dependency"] = []any{"t/v1/lib.proto"}
		addMessage(main, message("Uses", msgField("w", ".t.v1.W")))
		if svc == nil {
			svc = service("Svc", method("Do", ".t.v1.Req", ".t.v1.Resp"))
		}
		addService(main, svc)
		return &Schema{Files: []map[string]any{lib, main}, Generate: []string{"t/v1/t.proto"}}
	}
	if withService && place != "no-services" {
		if svc == nil {
			svc = service("Svc", method("Do", ".t.v1.Req", ".t.v1.Resp"))
		}
		addService(f, svc)
	}
	return &Schema{Files: []map[string]any{f}}
}

func typeRef(place, name string) string {
	if place == "nested" {
		return ".t.v1.Outer.Mid." + name
	}
	return ".t.v1." + name
}

func optionalField(f M, idx int) M {
	f["proto3_optional"] = true
	f["oneof_index"] = idx
	return f
}

func c12Cases() []ruleCase {
	both := []string{"protoc-gen-go-http", "protoc-gen-go-client"}
	httpOnly := []string{"protoc-gen-go-http"}
	simple := func(rule, offender string, plugins []string, mk func(place string) []M) ruleCase {
		return ruleCase{Rule: rule, Offender: offender, Plugins: plugins, Build: func(place string) *Schema {
			return placeMessage(place, mk(place), true, nil)
		}}
	}
	cases := []ruleCase{
		simple("unwrap on a non-repeated field", "bad", httpOnly, func(string) []M {
			return []M{message("W", withOpt(field("bad", "string"), "sebuf.http.unwrap", true))}
		}),
		simple("unwrap twice in a message", "W", httpOnly, func(string) []M {
			return []M{message("W", withOpt(repeated(field("a", "string")), "sebuf.http.unwrap", true), withOpt(repeated(field("bad", "string")), "sebuf.http.unwrap", true))}
		}),
		simple("nullable on a non-optional field", "bad", both, func(string) []M {
			return []M{message("W", withOpt(field("bad", "string"), "sebuf.http.nullable", true))}
		}),
		simple("nullable on a message field", "bad", both, func(place string) []M {
			m := message("W", optionalField(withOpt(msgField("bad", ".t.v1.Resp"), "sebuf.http.nullable", true), 0))
			m["oneof_decl"] = []any{M{"name": "_bad"}}
			return []M{m}
		}),
		simple("empty_behavior on a scalar field", "bad", both, func(string) []M {
			return []M{message("W", withOpt(field("bad", "string"), "sebuf.http.empty_behavior", "EMPTY_BEHAVIOR_NULL"))}
		}),
		simple("empty_behavior on a repeated field", "bad", both, func(string) []M {
			return []M{message("W", withOpt(repeated(msgField("bad", ".t.v1.Resp")), "sebuf.http.empty_behavior", "EMPTY_BEHAVIOR_OMIT"))}
		}),
		simple("timestamp_format on a non-Timestamp field", "bad", both, func(string) []M {
			return []M{message("W", withOpt(field("bad", "int64"), "sebuf.http.timestamp_format", "TIMESTAMP_FORMAT_UNIX_SECONDS"))}
		}),
		simple("bytes_encoding on a non-bytes field", "bad", both, func(string) []M {
			return []M{message("W", withOpt(field("bad", "string"), "sebuf.http.bytes_encoding", "BYTES_ENCODING_HEX"))}
		}),
		simple("flatten on a repeated field", "bad", both, func(string) []M {
			return []M{message("W", withOpt(repeated(msgField("bad", ".t.v1.Resp")), "sebuf.http.flatten", true))}
		}),
		simple("flatten on a scalar field", "bad", both, func(string) []M {
			return []M{message("W", withOpt(field("bad", "string"), "sebuf.http.flatten", true))}
		}),
		simple("flatten_prefix without flatten", "bad", both, func(string) []M {
			return []M{message("W", withOpt(msgField("bad", ".t.v1.Resp"), "sebuf.http.flatten_prefix", "p_"))}
		}),
		simple("flatten with colliding names", "bad", both, func(string) []M {
			return []M{message("W", field("ok", "string"), withOpt(msgField("bad", ".t.v1.Resp"), "sebuf.http.flatten", true))}
		}),
		simple("numeric enum encoding with custom values", "bad", both, func(place string) []M {
			e := M{"name": "E", "value": []any{M{"name": "E_A", "number": 0, "options": M{"[sebuf.http.enum_value]": "a"}}}}
			m := message("W", withOpt(enumField("bad", typeRef(place, "W")+".E"), "sebuf.http.enum_encoding", "ENUM_ENCODING_NUMBER"))
			m["enum_type"] = []any{e}
			return []M{m}
		}),
		simple("discriminator colliding with a field", "kind", both, func(place string) []M {
			m := message("W", field("kind", "string"), M{"name": "a", "type": "TYPE_STRING", "label": "LABEL_OPTIONAL", "json_name": "a", "oneof_index": 0},
				M{"name": "b", "type": "TYPE_STRING", "label": "LABEL_OPTIONAL", "json_name": "b", "oneof_index": 0})
			m["oneof_decl"] = []any{M{"name": "choice", "options": M{"[sebuf.http.oneof_config]": M{"discriminator": "kind"}}}}
			return []M{m}
		}),
		simple("discriminator colliding with an optional field", "kind", both, func(place string) []M {
			m := message("W", optionalField(field("kind", "string"), 1), M{"name": "a", "type": "TYPE_STRING", "label": "LABEL_OPTIONAL", "json_name": "a", "oneof_index": 0},
				M{"name": "b", "type": "TYPE_STRING", "label": "LABEL_OPTIONAL", "json_name": "b", "oneof_index": 0})
			m["oneof_decl"] = []any{M{"name": "choice", "options": M{"[sebuf.http.oneof_config]": M{"discriminator": "kind"}}}, M{"name": "_kind"}}
			return []M{m}
		}),
		simple("discriminator colliding with a member of another oneof", "kind", both, func(place string) []M {
			m := message("W", M{"name": "a", "type": "TYPE_STRING", "label": "LABEL_OPTIONAL", "json_name": "a", "oneof_index": 0},
				M{"name": "b", "type": "TYPE_STRING", "label": "LABEL_OPTIONAL", "json_name": "b", "oneof_index": 0},
				M{"name": "kind", "type": "TYPE_STRING", "label": "LABEL_OPTIONAL", "json_name": "kind", "oneof_index": 1},
				M{"name": "other", "type": "TYPE_STRING", "label": "LABEL_OPTIONAL", "json_name": "other", "oneof_index": 1})
			m["oneof_decl"] = []any{M{"name": "choice", "options": M{"[sebuf.http.oneof_config]": M{"discriminator": "kind"}}}, M{"name": "second"}}
			return []M{m}
		}),
		simple("flattened oneof with colliding children", "ok", both, func(place string) []M {
			m := message("W", field("ok", "string"), M{"name": "a", "type": "TYPE_MESSAGE", "type_name": ".t.v1.Resp", "label": "LABEL_OPTIONAL", "json_name": "a", "oneof_index": 0},
				M{"name": "b", "type": "TYPE_MESSAGE", "type_name": ".t.v1.Req", "label": "LABEL_OPTIONAL", "json_name": "b", "oneof_index": 0})
			m["oneof_decl"] = []any{M{"name": "choice", "options": M{"[sebuf.http.oneof_config]": M{"discriminator": "type", "flatten": true}}}}
			return []M{m}
		}),
		simple("flattened oneof with scalar variants", "a", both, func(place string) []M {
			m := message("W", M{"name": "a", "type": "TYPE_STRING", "label": "LABEL_OPTIONAL", "json_name": "a", "oneof_index": 0},
				M{"name": "b", "type": "TYPE_MESSAGE", "type_name": ".t.v1.Resp", "label": "LABEL_OPTIONAL", "json_name": "b", "oneof_index": 0})
			m["oneof_decl"] = []any{M{"name": "choice", "options": M{"[sebuf.http.oneof_config]": M{"discriminator": "type", "flatten": true}}}}
			return []M{m}
		}),
	}
	// HTTP binding rules live on services: only the top-level placement applies
	httpCase := func(rule, offender string, fields []M, path, verb string) ruleCase {
		return ruleCase{Rule: rule, Offender: offender, Plugins: httpOnly, Build: func(place string) *Schema {
			if place != "top" {
				return nil
			}
			f := protoFile("t/v1/t.proto", "t.v1", "example.com/t/v1;tv1")
			addMessage(f, message("Req", fields...))
			addMessage(f, message("Resp", field("ok", "bool")))
			m := withOpt(method("Do", ".t.v1.Req", ".t.v1.Resp"), "sebuf.http.config", M{"path": path, "method": verb})
			addService(f, service("Svc", m))
			return &Schema{Files: []map[string]any{f}}
		}}
	}
	cases = append(cases,
		httpCase("path variable with no matching field", "missing", []M{field("id", "string")}, "/x/{missing}", "HTTP_METHOD_POST"),
		httpCase("path variable bound to a message field", "bad", []M{msgField("bad", ".t.v1.Resp")}, "/x/{bad}", "HTTP_METHOD_POST"),
		httpCase("path variable bound to a repeated field", "bad", []M{repeated(field("bad", "string"))}, "/x/{bad}", "HTTP_METHOD_POST"),
		httpCase("field bound to both path and query", "bad", []M{withOpt(field("bad", "string"), "sebuf.http.query", M{"name": "bad"})}, "/x/{bad}", "HTTP_METHOD_GET"),
		httpCase("bodiless verb with unbound fields", "bad", []M{field("id", "string"), field("bad", "string")}, "/x/{id}", "HTTP_METHOD_GET"),
	)
	// valid definitions: each annotation used as documented
	valid := func(rule string, mk func(place string) []M) ruleCase {
		return ruleCase{Rule: rule, Valid: true, Build: func(place string) *Schema { return placeMessage(place, mk(place), true, nil) }}
	}
	cases = append(cases,
		valid("valid: unwrap on a repeated field", func(string) []M {
			return []M{message("W", withOpt(repeated(field("items", "string")), "sebuf.http.unwrap", true))}
		}),
		valid("valid: nullable on an optional scalar", func(string) []M {
			m := message("W", optionalField(withOpt(field("nick", "string"), "sebuf.http.nullable", true), 0))
			m["oneof_decl"] = []any{M{"name": "_nick"}}
			return []M{m}
		}),
		valid("valid: empty_behavior on a message field", func(string) []M {
			return []M{message("W", withOpt(msgField("meta", ".t.v1.Resp"), "sebuf.http.empty_behavior", "EMPTY_BEHAVIOR_NULL"))}
		}),
		valid("valid: bytes_encoding on bytes", func(string) []M {
			return []M{message("W", withOpt(field("blob", "bytes"), "sebuf.http.bytes_encoding", "BYTES_ENCODING_HEX"))}
		}),
		valid("valid: timestamp_format on Timestamp", func(string) []M {
			return []M{message("W", withOpt(msgField("at", ".google.protobuf.Timestamp"), "sebuf.http.timestamp_format", "TIMESTAMP_FORMAT_UNIX_SECONDS"))}
		}),
		valid("valid: flatten with prefix", func(string) []M {
			return []M{message("W", field("id", "string"), withOpt(withOpt(msgField("inner", ".t.v1.Resp"), "sebuf.http.flatten", true), "sebuf.http.flatten_prefix", "in_"))}
		}),
		valid("valid: int64 NUMBER with enum STRING", func(place string) []M {
			e := M{"name": "E", "value": []any{M{"name": "E_A", "number": 0, "options": M{"[sebuf.http.enum_value]": "a"}}}}
			m := message("W", withOpt(field("n", "int64"), "sebuf.http.int64_encoding", "INT64_ENCODING_NUMBER"), enumField("e", typeRef(place, "W")+".E"))
			m["enum_type"] = []any{e}
			return []M{m}
		}),
	)
	return cases
}

type c12Deviation struct {
	Rule      string `json:"rule"`
	Placement string `json:"placement"`
	Plugin    string `json:"plugin"`
	Observed  string `json:"observed"`
	Expected  string `json:"expected"`
}

// runC12Family runs the family and returns the deviations from the property.
func runC12Family(filter func(rule string) bool) (runs int, devs []c12Deviation, err error) {
	t, err := GetTools()
	if err != nil {
		return 0, nil, err
	}
	all := []string{"protoc-gen-go-http", "protoc-gen-go-client", "protoc-gen-ts-client", "protoc-gen-ts-server", "protoc-gen-openapiv3"}
	for _, c := range c12Cases() {
		if filter != nil && !filter(c.Rule) {
			continue
		}
		for _, place := range []string{"top", "nested", "no-services", "imported"} {
			s := c.Build(place)
			if s == nil {
				continue
			}
			req, rerr := t.MakeRequest(s)
			if rerr != nil {
				devs = append(devs, c12Deviation{c.Rule, place, "-", "schema rejected by protodesc: " + firstLines(rerr.Error(), 2), "well-formed schema (check family definition)"})
				continue
			}
			plugins := c.Plugins
			if c.Valid {
				plugins = all
			}
			for _, pl := range plugins {
				o, perr := t.RunPlugin(pl, req)
				runs++
				if perr != nil {
					return runs, devs, perr
				}
				switch {
				case o.Crash != "":
					devs = append(devs, c12Deviation{c.Rule, place, pl, "crash: " + o.Crash, "an answer"})
				case c.Valid && o.Error != "":
					devs = append(devs, c12Deviation{c.Rule, place, pl, "refused: " + o.Error, "accepted"})
				case !c.Valid && o.Error == "":
					devs = append(devs, c12Deviation{c.Rule, place, pl, fmt.Sprintf("accepted (%d files emitted)", len(o.Files)), "refused with a message naming " + c.Offender})
				case !c.Valid && !strings.Contains(o.Error, c.Offender):
					devs = append(devs, c12Deviation{c.Rule, place, pl, "refused without naming the offender: " + o.Error, "message naming " + c.Offender})
				case !c.Valid && len(o.Files) > 0:
					devs = append(devs, c12Deviation{c.Rule, place, pl, "refused but emitted files", "no files"})
				}
			}
		}
	}
	sort.Slice(devs, func(i, j int) bool { return devs[i].Rule+devs[i].Placement+devs[i].Plugin < devs[j].Rule+devs[j].Placement+devs[j].Plugin })
	return runs, devs, nil
}

// knownC12Deviations: deviations that are already recorded as known findings (by rule/placement class).
func c12DeviationKey(d c12Deviation) string { return d.Rule + " @ " + d.Placement + " @ " + d.Plugin }

func init() {
	replayers["rules-family"] = func(w *World, v violation) map[string]any {
		runs, devs, err := runC12Family(nil)
		res := map[string]any{"family_runs": runs}
		if err != nil {
			res["confirmed"] = false
			res["reason"] = err.Error()
			return res
		}
		kf, _ := loadKnownFindings()
		known := map[string]bool{}
		for _, k := range kf {
			if k.Property == "C12" && k.Status == "known" && k.FamilyClass != "" {
				known[k.FamilyClass] = true
			}
		}
		var fresh []c12Deviation
		for _, d := range devs {
			if !known["placement:"+d.Placement] && !known[c12DeviationKey(d)] {
				fresh = append(fresh, d)
			}
		}
		res["deviations_not_listed_as_known"] = fresh
		res["confirmed"] = len(fresh) > 0
		if len(fresh) == 0 {
			res["reason"] = "no member of the rule family (every rule x {top-level, nested, file without services}) behaves differently from the property on the real plugins"
		}
		return res
	}
	boundedChecks["c12-family"] = func(w *World, seed int64) map[string]any {
		runs, devs, err := runC12Family(nil)
		out := map[string]any{"name": "c12-family", "bounded": true, "bound": "one offending and one valid definition per documented rule x placements {top-level, nested two deep, file without services, imported file not being generated} x plugins that implement the rule", "plugin_runs": runs}
		if err != nil {
			out["status"] = "error: " + err.Error()
			return out
		}
		var list []string
		for _, d := range devs {
			list = append(list, c12DeviationKey(d)+": "+d.Observed)
		}
		out["deviations"] = list
		out["status"] = "ran"
		return out
	}
}
