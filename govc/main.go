package main

import (
	"fmt"
	"golang.org/x/tools/go/packages"
)

func main() {
	cfg := &packages.Config{Mode: packages.NeedName | packages.NeedSyntax | packages.NeedTypes | packages.NeedTypesInfo | packages.NeedImports | packages.NeedDeps | packages.NeedFiles, Dir: "/repo", BuildFlags: []string{"-tags=verif"}}
	pkgs, err := packages.Load(cfg, "./internal/...", "./http", "./cmd/...")
	fmt.Println(len(pkgs), err)
	for _, p := range pkgs { fmt.Println(p.PkgPath, len(p.Syntax), p.Errors) }
}
