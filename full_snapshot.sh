#!/bin/sh
# usage: full_snapshot.sh <outdir> [checks...]  -- runs the quick checks from a scratch copy of /verif and /repo (evidence and
# replays go to the copy), so that both trees can be edited meanwhile. Developer tool; registered checks run in /verif itself.
out=$1; shift
checks="$@"; [ -z "$checks" ] && checks="C01 C02 C03 C04 C05 C06 C07 C09 C10 C11 C12 C13 C14 C15 C16 C17 C18 C19 C20"
S=$(mktemp -d /tmp/vfull.XXXXXX)
rsync -a --exclude .git --exclude evidence --exclude replays /verif/ "$S/verif/"
rsync -a --exclude .git /repo/ "$S/repo/"
mkdir -p "$out"; rm -f "$out"/*.log "$out/summary"
( cd "$S/verif" && for c in $checks; do
    GOVC_EVIDENCE_DIR="$S/evidence" GOVC_REPLAY_DIR="$S/replays" VERIF_REPO="$S/repo" bin/govc check $c --tier quick > "$out/$c.log" 2>&1
    echo "$c exit=$?" >> "$out/summary"
  done; echo finished >> "$out/summary"; rm -rf "$S" ) &
echo "snapshot in $S, results in $out"
