#!/bin/sh
# usage: tools_mut.sh <patchfile|-e sedexpr file> -- <govc args...>   : run govc against a mutated scratch copy of /repo
set -e
S=$(mktemp -d /tmp/mut.XXXXXX)
trap 'rm -rf "$S"' EXIT
rsync -a --exclude .git /repo/ "$S/repo/"
if [ "$1" = "-e" ]; then
  sed -i "$2" "$S/repo/$3"; shift 3
else
  (cd "$S/repo" && patch -p1 -s < "$1"); shift 1
fi
[ "$1" = "--" ] && shift
GOVC_EVIDENCE_DIR="$S/evidence" GOVC_REPLAY_DIR="$S/replays" VERIF_REPO="$S/repo" /verif/bin/govc "$@"
