import json,glob,re,os
desc={
"C01":("claimed","agreement lemmas over verified contracts (C03 route / verb / path-variable lemmas restricted to the Go pair, `hasBody`, per-kind scalar round-trip lemmas over `convertStringToFieldValue`, URL placement, codec dispatch tables); the emitted client's per-RPC text is proved to carry the decided path, substitutions and query blocks, each client method to use one content type for header, body and decoding; the C04 codec contracts and inverse lemmas are part of this check; bounded client↔server end-to-end family as replayer"),
"C02":("claimed","event obligations on the extracted `BindingMiddleware` closure, the emitted URL binders (which request value reaches which field setter; one element per occurrence for repeated query fields; a rejection names the proto field), `convertStringToFieldValue` per-kind contract, body binder dispatch; `ExtractPathParams` verified + bounded stand-in for its pattern"),
"C03":("claimed","contracts of the route-deciding functions of the five generators + pairwise lemmas; **dataflow to the emitted text**: route registration / request line / route entry printed by the four code generators carry the decided verb and path, and every RPC gets its operation / route / client method; `ExtractPathParams` verified + bounded stand-in"),
"C04":("claimed (partial)","encoder/decoder contracts of the emitted codec pairs of the extraction schema against spec functions (whole-map equality), inverse lemmas `Dec(Enc(P,v)) = P`, two-children flatten decoder stops at the first failure, C14 congruence; bounded round-trip family (quick tier)"),
"C05":("claimed (partial)","annotation getters vs `spec/wire.spec`; emitted encoders of one message per codec kind verified for all values; encoder-choice template and the JSON binder (its verdict is the decoder's); lists are never written as `null` (structural rule); C14 congruence; bounded depth family (quick tier)"),
"C06":("claimed (partial)","OpenAPI scalar / timestamp / enum / container schema tables vs `wire.spec`; C18 parameter and registration contracts (incl. variant schema keys); C19 translators; every reported violation names a field; lists-are-arrays rule; bounded jsonschema validation of real responses (quick tier)"),
"C07":("claimed (partial, type-level)","TypeScript scalar / timestamp / enum type tables and presence markers of plain and flattened properties, declaration closure of `AddMessage`, TS server query expression table, combined-unwrap decision; lists-are-arrays rule on the Go codecs; the emitted int64 / timestamp / unwrap encoders; one bounded member (unwrap map inside a flattened oneof variant)"),
"C09":("claimed","`validateHeaders` (map-building loops, arbitrary map order), type/format validators, pipeline order, merge lemmas, header tables of the extraction schema, `CombineHeaders`, `convertHeadersToParameters` (published = declared, none dropped); no generator function rewrites a parameter list it was handed (in-place rule); httptest replay"),
"C10":("claimed","decision-table / event contracts on the emitted error path, the client's error mapping and codec helpers; header violations carry the declared name, URL-binding rejections the proto field name, protovalidate violations always a field"),
"C11":("claimed","safety VCs (index, slice, `make`, nil, assertion, nil-map) on **every** emitted unit of the check (binders, decoders, client methods, error writers), decode-or-400 obligations (the decoder gets the body as received), decoder contracts"),
"C12":("claimed","iff-contracts of every annotation validator against the rule list — `ValidateFlattenCollisions` included, verified against the documented collision rule — wiring contracts (every message at every depth), `ValidateMethodConfig`; `ExtractPathParams` stand-in in the quick tier; rules family replay"),
"C13":("claimed (partial)","import/usage agreement of the emitted Go client and of four codec files (`time`, `strconv`, `proto` used whenever imported; `encoding/base64` / `encoding/hex` imported iff used), format strings carry identifiers only and cross-package type names are printed as `GoIdent` (structural), C14 congruence, zero-literal table; bounded build-and-vet family of 72 definitions × 3 plugin subsets in the quick tier"),
"C14":("claimed","structural congruence rule over the duplicated codec emitters + file-set rule + generators keep no state between emitters; family replay"),
"C15":("claimed","`CombineHeaders` and `OrderedEnums` for arbitrary map order; unwrap-table independence; purity / no-state (incl. element stores) / map-range rules; OpenAPI isolation (constructors *and* setters); in-place mutators only on own slices, descriptors never assigned"),
"C16":("claimed","`decreases` measures for all functions on static call cycles, recursion and loop inventory rules, zero-annotation bounds sweep (index, slice, `make`, assertion, panic) of the generator packages and plugin mains; `ExtractPathParams` stand-in under a time limit; bounded plugin-run family (thorough, and as replayer)"),
"C17":("claimed","ownership / frame rules on the extracted emitted server and client: globals, client frame, **container ownership** (no append to / store into a borrowed slice or map), **request read-only** (taint rule), encoders never assign their receiver, per-route configuration event obligations, own-message clauses"),
"C18":("claimed","path-parameter builder vs template variables, one operation per RPC and every RPC processed, opid uniqueness, collector closure + termination, registered schema built here, variant schema keys agree between registration / `$ref` / mapping, isolation of per-service generators, `Render`, plugin main; `ExtractPathParams` verified + stand-in; bounded document family"),
"C19":("claimed","translator contracts, ∀-value rule/schema equivalence lemmas, `required` list contracts of the three object-schema builders; jsonschema family replay"),
"C20":("claimed","emitted example-selector templates; the example table lists every field that declares examples for every message of the file; termination of the mock emitters; bounded build/vet and runtime families (quick tier)"),
}
fixes={"C02":1,"C04":1,"C05":1,"C09":1,"C11":1,"C12":1,"C13":3,"C14":1,"C16":2,"C18":2,"C19":1,"C20":3}
seeds={}
for d in glob.glob('/verif/seeded/C*'):
    pid=os.path.basename(d)[:3]; seeds[pid]=seeds.get(pid,0)+1
rows=[]
for pid in ["C01","C02","C03","C04","C05","C06","C07","C08","C09","C10","C11","C12","C13","C14","C15","C16","C17","C18","C19","C20"]:
    if pid=="C08":
        rows.append("| C08 | n/a | see §5 | | | | |"); continue
    e=json.load(open(f'/verif/evidence/{pid}.json'))
    cov=e['coverage']
    kf=len(cov.get('known_findings',[]))
    st,d=desc[pid]
    rows.append(f"| {pid} | {st} | {d} | {cov['obligations']} | {kf} | {fixes.get(pid,'–')} | {seeds.get(pid,0)} |")
hdr='''| id | status | what decides it (deciding step = solver accepts every obligation) | obl. | KF | fix | seeds |
|----|--------|------------------------------------------------------------------|-----:|---:|----:|------:|
'''
p='/verif/DESIGN.md'
s=open(p).read()
i=s.index('| id | status | what decides it')
j=s.index('### 0a.2 What changed relative to the plan')
s=s[:i]+hdr+"\n".join(rows)+"\n\n"+s[j:]
import re
s=re.sub(r'independent seeded changes of the \w+ rounds kept','independent seeded changes of the ten rounds kept',s)
open(p,'w').write(s)
print("\n".join(r[:90] for r in rows))
