package main

// C06 replay family (bounded): the JSON bodies the emitted Go server really sends for the C05 family's service
// are validated (JSON Schema 2020-12, python jsonschema) against the component schema that the working-tree
// OpenAPI plugin publishes for the response type of the same RPC; properties on the wire that the schema does
// not describe are reported too.

import (
	"encoding/json"
	"fmt"
	"path/filepath"
	"regexp"
	"sort"
	"strings"
)

type c06Problem struct{ RPC, Schema, Class, Detail string }

func runC06Family() (probs []c06Problem, bodies int, err error) {
	_, text, err := runC05Family()
	if err != nil {
		return nil, 0, err
	}
	t, err := GetTools()
	if err != nil {
		return nil, 0, err
	}
	s := c05Schema()
	s.Parameter = "format=json"
	o, err := t.Generate("protoc-gen-openapiv3", s)
	if err != nil {
		return nil, 0, err
	}
	if o.Crash != "" || len(o.Files) != 1 {
		return nil, 0, fmt.Errorf("openapiv3 plugin: %s (%d files)", firstLines(o.Crash+o.Error, 3), len(o.Files))
	}
	re := regexp.MustCompile(`(?m)^WIRE rpc=(\S+) status=(\d+) json=(.*)$`)
	type body struct {
		Schema string `json:"schema"`
		Label  string `json:"label"`
		JSON   string `json:"json"`
	}
	var bs []body
	for _, m := range re.FindAllStringSubmatch(text, -1) {
		// rpc names: top_counter -> Counter, wrapped_counter -> WrapCounter
		name := m[1]
		schema := ""
		if strings.HasPrefix(name, "top_") {
			schema = strings.ToUpper(name[4:5]) + name[5:]
		} else if strings.HasPrefix(name, "wrapped_") {
			schema = "Wrap" + strings.ToUpper(name[8:9]) + name[9:]
		}
		if m[2] != "200" {
			schema = "Error"
		}
		bs = append(bs, body{Schema: schema, Label: name, JSON: m[3]})
	}
	bodies = len(bs)
	if bodies == 0 {
		return nil, 0, fmt.Errorf("no wire bodies captured")
	}
	in, _ := json.Marshal(map[string]any{"openapi": o.Files[0].Content, "bodies": bs})
	out, perr := runCmd(verifDir(), in, "python3-vt", filepath.Join(verifDir(), "harness", "py", "oasvalidate.py"))
	if perr != nil {
		return nil, bodies, fmt.Errorf("oasvalidate.py: %v", perr)
	}
	var res struct {
		Results []struct {
			Label, Schema   string
			Valid           bool
			Errors          []string
			ExtraProperties []string `json:"extra_properties"`
		}
	}
	if uerr := json.Unmarshal(out, &res); uerr != nil {
		return nil, bodies, uerr
	}
	for _, r := range res.Results {
		for _, e := range r.Errors {
			probs = append(probs, c06Problem{r.Label, r.Schema, "invalid", e})
		}
		for _, e := range r.ExtraProperties {
			probs = append(probs, c06Problem{r.Label, r.Schema, "undescribed-property", e})
		}
	}
	sort.Slice(probs, func(i, j int) bool { return probs[i].RPC+probs[i].Detail < probs[j].RPC+probs[j].Detail })
	return probs, bodies, nil
}

func init() {
	debugCmds["c06family"] = func(args []string) int {
		probs, n, err := runC06Family()
		fmt.Println("bodies:", n, "err:", err)
		for _, p := range probs {
			fmt.Printf("%-22s %-12s %-22s %s\n", p.RPC, p.Schema, p.Class, p.Detail)
		}
		return 0
	}
}

func init() {
	boundedChecks["c06-validate"] = func(w *World, seed int64) map[string]any {
		probs, n, err := runC06Family()
		out := map[string]any{"name": "c06-validate", "bounded": true, "bound": "the 10 response bodies of the C05 family's service, validated with python jsonschema (2020-12) against the published component schema of the response type", "bodies": n}
		if err != nil {
			out["status"] = "error: " + err.Error()
			return out
		}
		by := map[string][]string{}
		for _, p := range probs {
			k := p.Class + "@" + p.Schema
			if len(by[k]) < 4 {
				by[k] = append(by[k], p.Detail)
			}
		}
		var ks []string
		for k := range by {
			ks = append(ks, k)
		}
		sort.Strings(ks)
		var fl []map[string]any
		for _, k := range ks {
			fl = append(fl, map[string]any{"name": "C06.family." + k, "case": k, "observed": strings.Join(by[k], " | "), "parameter": ""})
		}
		out["failures"] = fl
		out["status"] = "ran"
		return out
	}
	replayers["c06-validate"] = func(w *World, v violation) map[string]any {
		probs, n, err := runC06Family()
		res := map[string]any{"bodies": n}
		if err != nil {
			res["confirmed"] = true
			res["reason"] = err.Error()
			return res
		}
		kf, _ := loadKnownFindings()
		known := map[string]bool{}
		for _, k := range kf {
			if k.Property == "C06" && k.Status == "known" {
				known[strings.TrimPrefix(k.Obligation, "C06.family.")] = true
			}
		}
		var fresh []c06Problem
		for _, p := range probs {
			if !known[p.Class+"@"+p.Schema] {
				fresh = append(fresh, p)
			}
		}
		res["confirmed"] = len(fresh) > 0
		if len(fresh) > 8 {
			fresh = fresh[:8]
		}
		res["problems_not_listed_as_known"] = fresh
		if len(fresh) == 0 {
			res["reason"] = "apart from the recorded known findings every wire body validates against its published schema"
		}
		return res
	}
}
