package main

import (
	"flag"
	"fmt"
	"os"
	"path/filepath"
	"strings"
	"time"
)

func usage() {
	fmt.Fprintln(os.Stderr, `usage:
  govc verify [-safety] [-v] <pkg.Func|pkg.Type.Method> ...   verify functions against their contracts
  govc lemma [-v] <name-prefix> ...                           prove lemmas from /verif/spec
  govc check <Cxx> [--tier quick|thorough]                     run the registered check of a property
  govc replay <file>                                           re-run a recorded violation
  govc selftest                                                must-fail / must-pass corpus`)
	os.Exit(2)
}

func loadAll() *World {
	w, err := LoadWorld()
	if err != nil {
		fmt.Fprintln(os.Stderr, "load:", err)
		os.Exit(3)
	}
	if err := w.LoadRepoContracts(); err != nil {
		fmt.Fprintln(os.Stderr, "contracts:", err)
		os.Exit(3)
	}
	if err := w.LoadSpecDir(filepath.Join(verifDir(), "spec")); err != nil {
		fmt.Fprintln(os.Stderr, "spec:", err)
		os.Exit(3)
	}
	return w
}

func printUnit(r *UnitResult, verbose bool) bool {
	ok := r.Status == "ok"
	fmt.Printf("== %s [%s] status=%s paths=%d %dms %s\n", r.Unit, r.Kind, r.Status, r.Paths, r.ElapsedMs, r.Reason)
	for _, o := range r.Obls {
		good := o.Status == "proved"
		if o.Expect == "refuted" {
			good = o.Status == "refuted" || o.Status == "refuted-weak"
		}
		mark := "ok  "
		if !good {
			mark = "FAIL"
			ok = false
		}
		fmt.Printf("  %s %-9s %-8s %5dms %-14s %s   -- %s\n", mark, o.Kind, o.Status, o.SolverMs, o.Backend, o.Name, o.Text)
		if !good && o.Model != "" && verbose {
			fmt.Println(indent(o.Model, "      "))
		}
		if !good && o.Kind == "frame" && o.Where != "" {
			fmt.Println("      where: " + o.Where)
		}
		if !good && o.Raw != "" && o.Kind != "frame" {
			fmt.Println("      " + o.Raw)
		}
	}
	if verbose {
		for _, n := range r.Notes {
			fmt.Println("  note:", n)
		}
		fmt.Println("  contracts:", strings.Join(r.Contracts, ", "))
		fmt.Println("  inlined:", strings.Join(r.Inlined, ", "))
		fmt.Println("  havocked:", strings.Join(r.Havocked, ", "))
		fmt.Println("  trusted:", strings.Join(r.Trusted, "; "))
	}
	return ok
}

func indent(s, pre string) string {
	return pre + strings.ReplaceAll(strings.TrimRight(s, "\n"), "\n", "\n"+pre)
}

func main() {
	if len(os.Args) < 2 {
		usage()
	}
	defer cleanupScratch()
	switch os.Args[1] {
	case "verify":
		fs := flag.NewFlagSet("verify", flag.ExitOnError)
		safety := fs.Bool("safety", false, "record no-panic obligations")
		bounds := fs.Bool("bounds", false, "record no-panic obligations except nil dereferences")
		verbose := fs.Bool("v", false, "verbose")
		dump := fs.String("dump", "", "write the first failing query to this file")
		fs.Parse(os.Args[2:])
		w := loadAll()
		allOK := true
		for _, k := range fs.Args() {
			closure := 0
			fkey := k
			if i := strings.Index(fkey, "#"); i >= 0 {
				fmt.Sscan(fkey[i+1:], &closure)
				fkey = fkey[:i]
			}
			var fi *FuncInfo
			events := false
			if !strings.HasPrefix(fkey, "emitted.") {
				fi = w.LookupFunc(fkey)
			}
			if fi == nil && strings.HasPrefix(fkey, "emitted.") {
				if err := w.LoadEmitted(); err != nil {
					fmt.Println("emitted:", err)
					allOK = false
					continue
				}
				fi = w.LookupEmitted(strings.TrimPrefix(fkey, "emitted."))
				events = true
			}
			if fi == nil {
				fmt.Println("unknown function", k)
				allOK = false
				continue
			}
			c := w.contractFor(fi)
			if closure > 0 {
				c = w.Contracts[fmt.Sprintf("emitted.%s_closure%d", strings.ReplaceAll(strings.TrimPrefix(fkey, "emitted."), ".", "_"), closure)]
			}
			r := w.VerifyFunc(fi, c, VerifyOpts{Safety: *safety, Bounds: *bounds, Events: events, Closure: closure, Timeout: 10 * time.Second})
			if os.Getenv("GOVC_DUMP_ALL") != "" && *dump != "" {
				for _, o := range r.Obls {
					if strings.Contains(o.Name, os.Getenv("GOVC_DUMP_MATCH")) {
						os.WriteFile(*dump, []byte(o.Script), 0o644)
						break
					}
				}
			}
			if !printUnit(r, *verbose) {
				allOK = false
				if *dump != "" {
					for _, o := range r.Obls {
						if o.Status != "proved" && o.Expect == "" && strings.Contains(o.Name, os.Getenv("GOVC_DUMP_MATCH")) {
							os.WriteFile(*dump, []byte(o.Script), 0o644)
							break
						}
					}
				}
			}
		}
		if !allOK {
			cleanupScratch()
			os.Exit(1)
		}
	case "lemma":
		fs := flag.NewFlagSet("lemma", flag.ExitOnError)
		verbose := fs.Bool("v", false, "verbose")
		dump := fs.String("dump", "", "write the first failing query to this file")
		fs.Parse(os.Args[2:])
		w := loadAll()
		allOK := true
		for _, name := range w.LemmaOrd {
			for _, a := range fs.Args() {
				if strings.HasPrefix(name, a) {
					if strings.HasPrefix(name, "C04.") && w.Emitted == nil {
						if err := w.LoadEmitted(); err != nil {
							fmt.Println("emitted:", err)
						}
					}
					for _, st := range w.Lemmas[name].Steps {
						if strings.Contains(st.Text, "emitted.") && w.Emitted == nil {
							if err := w.LoadEmitted(); err != nil {
								fmt.Println("emitted:", err)
							}
						}
					}
				}
			}
		}
		for _, name := range w.LemmaOrd {
			match := len(fs.Args()) == 0
			for _, a := range fs.Args() {
				if strings.HasPrefix(name, a) {
					match = true
				}
			}
			if !match {
				continue
			}
			r := w.VerifyLemma(w.Lemmas[name], VerifyOpts{Timeout: 10 * time.Second})
			if !printUnit(r, *verbose) {
				allOK = false
				if *dump != "" {
					for _, o := range r.Obls {
						if o.Status != "proved" && o.Expect == "" {
							os.WriteFile(*dump, []byte(o.Script), 0o644)
							break
						}
					}
				}
			}
		}
		if !allOK {
			cleanupScratch()
			os.Exit(1)
		}
	default:
		if !dispatchExtra(os.Args[1], os.Args[2:]) {
			usage()
		}
	}
}
