package main

// R2 replay: drive the emitted server/client of the working tree with net/http/httptest.

import (
	"fmt"
	"os"
	"path/filepath"
	"strings"
)

// RunEmittedTest generates the extraction schema's server package, drops a test file into it and runs it.
// It returns whether the test passed and its output.
func RunEmittedTest(testName, testSrc string) (passed bool, output string, err error) {
	pkgDir, _, err := EmitPackage(extractionSchema(false), "replay-"+testName, []string{"protoc-gen-go-http"}, nil)
	if err != nil {
		return false, "", err
	}
	if err := os.WriteFile(filepath.Join(pkgDir, "zz_replay_test.go"), []byte(testSrc), 0o644); err != nil {
		return false, "", err
	}
	out, rerr := runCmd(pkgDir, nil, "go", "test", "-vet=off", "-count=1", "-timeout", "60s", "-run", testName, ".")
	text := string(out)
	if rerr != nil {
		text += "\n" + rerr.Error()
	}
	return rerr == nil, text, nil
}

const replayServerPrelude = `package extv1

import (
	"context"
	"net/http"
	"net/http/httptest"
	"strings"
	"testing"
)

type recServer struct {
	get    *GetNoteRequest
	update *UpdateNoteRequest
	list   *ListNotesRequest
	calls  int
}

func (s *recServer) GetNote(_ context.Context, r *GetNoteRequest) (*Note, error) {
	s.get = r
	s.calls++
	return &Note{Id: r.GetId()}, nil
}
func (s *recServer) UpdateNote(_ context.Context, r *UpdateNoteRequest) (*Note, error) {
	s.update = r
	s.calls++
	return &Note{Id: r.GetId(), Title: r.GetTitle()}, nil
}
func (s *recServer) ListNotes(_ context.Context, r *ListNotesRequest) (*Note, error) {
	s.list = r
	s.calls++
	return &Note{}, nil
}

func newRec(t *testing.T) (*recServer, *http.ServeMux) {
	t.Helper()
	s := &recServer{}
	mux := http.NewServeMux()
	if err := RegisterNoteServiceServer(s, WithMux(mux)); err != nil {
		t.Fatal(err)
	}
	return s, mux
}

func do(mux *http.ServeMux, method, url, ctype, body string, hdr map[string]string) *httptest.ResponseRecorder {
	req := httptest.NewRequest(method, url, strings.NewReader(body))
	if ctype != "" {
		req.Header.Set("Content-Type", ctype)
	}
	for k, v := range hdr {
		req.Header.Set(k, v)
	}
	rec := httptest.NewRecorder()
	mux.ServeHTTP(rec, req)
	return rec
}

var updHeaders = map[string]string{"X-API-Key": "5", "X-Request-ID": "123e4567-e89b-12d3-a456-426614174000"}
`

func init() {
	replayers["urlbody"] = func(w *World, v violation) map[string]any {
		src := replayServerPrelude + `
func TestURLSurvivesBody(t *testing.T) {
	for _, body := range []string{"", "{}", "{\"title\":\"x\"}"} {
		s, mux := newRec(t)
		rec := do(mux, "PUT", "/api/v1/notes/42", "application/json", body, updHeaders)
		if rec.Code != 200 {
			t.Fatalf("body %q: status %d: %s", body, rec.Code, rec.Body.String())
		}
		if s.update == nil || s.update.GetId() != "42" {
			t.Errorf("PUT /api/v1/notes/42 with body %q: handler saw id=%q, want \"42\"", body, s.update.GetId())
		}
	}
}
`
		passed, out, err := RunEmittedTest("TestURLSurvivesBody", src)
		res := map[string]any{"request": "PUT /api/v1/notes/42 with JSON bodies \"\", {}, {\"title\":\"x\"} against the emitted server of the extraction schema", "test_output": tail(out, 1500)}
		if err != nil {
			res["confirmed"] = false
			res["reason"] = err.Error()
			return res
		}
		res["confirmed"] = !passed
		if passed {
			res["reason"] = "the emitted server delivers the URL value for every body: the obligation's failure does not replay"
		}
		return res
	}
}

func init() {
	replayers["hdr-merge"] = func(w *World, v violation) map[string]any {
		src := replayServerPrelude + `
func TestMethodDeclarationReplacesServiceDeclaration(t *testing.T) {
	// service: X-API-Key required; method ListNotes re-declares X-API-Key as NOT required
	s, mux := newRec(t)
	rec := do(mux, "POST", "/api/v1/notes/list", "application/json", "{}", nil)
	if rec.Code != 200 || s.calls != 1 {
		t.Errorf("POST /api/v1/notes/list without X-API-Key: status %d, handler calls %d, body %s; the method-level declaration says the header is optional", rec.Code, s.calls, rec.Body.String())
	}
}
`
		passed, out, err := RunEmittedTest("TestMethodDeclarationReplacesServiceDeclaration", src)
		res := map[string]any{"request": "POST /api/v1/notes/list without X-API-Key (service: required, method: same name, not required)", "test_output": tail(out, 1200)}
		if err != nil {
			res["confirmed"] = false
			res["reason"] = err.Error()
			return res
		}
		res["confirmed"] = !passed
		if passed {
			res["reason"] = "the emitted server lets the method-level declaration replace the service-level one: does not replay"
		}
		return res
	}
	debugCmds["replayer"] = func(args []string) int {
		w, err := LoadWorld()
		if err != nil {
			fmt.Println(err)
			return 1
		}
		res := runReplayer(w, args[0], violation{Obligation: strings.Join(args[1:], " ")})
		for k, v := range res {
			fmt.Printf("%s: %v\n", k, v)
		}
		return 0
	}
}
