package main

// C18 replay family: OpenAPI documents emitted by the working-tree plugin for a family of services, checked
// by an independent validator (harness/py/oascheck.py: references resolve, template variables vs path
// parameters, parameter uniqueness, operation ids, YAML == JSON) plus checks made here (one file per service
// with distinct names, one operation per RPC, one schema per reachable message).

import (
	"encoding/json"
	"fmt"
	"os"
	"path/filepath"
	"sort"
	"strings"
	"sync"
)

type oasCase struct {
	Name  string
	Build func() *Schema
}

func cfgMethod(name, in, out, verb, path string) M {
	m := method(name, in, out)
	c := M{}
	if path != "" {
		c["path"] = path
	}
	if verb != "" {
		c["method"] = "HTTP_METHOD_" + verb
	}
	if len(c) > 0 {
		m["options"] = M{"[sebuf.http.config]": c}
	}
	return m
}

func c18Cases() []oasCase {
	var cases []oasCase
	// every accepted shape of the C16 family is also a C18 member
	for _, sc := range c16Shapes() {
		if strings.Contains(sc.Name, "go_package") {
			continue
		}
		sc := sc
		cases = append(cases, oasCase{Name: "shape: " + sc.Name, Build: sc.Build})
	}
	one := func(name string, build func(f M)) oasCase {
		return oasCase{Name: name, Build: func() *Schema {
			f := protoFile("t/v1/t.proto", "t.v1", "example.com/t/v1;tv1")
			build(f)
			return &Schema{Files: []map[string]any{f}, Generate: []string{"t/v1/t.proto"}}
		}}
	}
	rr := func(f M) {
		addMessage(f, message("Req", field("id", "string"), field("tenant", "string"), field("page", "int32")))
		addMessage(f, message("Resp", field("ok", "bool")))
	}
	cases = append(cases,
		one("path variables first, last and adjacent", func(f M) {
			rr(f)
			addService(f, service("S",
				cfgMethod("A", ".t.v1.Req", ".t.v1.Resp", "GET", "/{id}/x/{tenant}"),
				cfgMethod("B", ".t.v1.Req", ".t.v1.Resp", "DELETE", "/x/{id}/{tenant}"),
				cfgMethod("C", ".t.v1.Req", ".t.v1.Resp", "PUT", "/x/{id}"),
				cfgMethod("D", ".t.v1.Req", ".t.v1.Resp", "PATCH", "/x/{id}"),
				cfgMethod("E", ".t.v1.Req", ".t.v1.Resp", "", "")))
		}),
		one("variable in the service base path", func(f M) {
			rr(f)
			s := service("S", cfgMethod("Get", ".t.v1.Req", ".t.v1.Resp", "GET", "/x/{id}"))
			s["options"] = M{"[sebuf.http.service_config]": M{"base_path": "/t/{tenant}"}}
			addService(f, s)
		}),
		one("query parameters and headers", func(f M) {
			addMessage(f, message("Req", field("id", "string"),
				withOpt(field("page", "int32"), "sebuf.http.query", M{"name": "page"}),
				withOpt(field("q", "string"), "sebuf.http.query", M{"name": "q", "required": true})))
			addMessage(f, message("Resp", field("ok", "bool")))
			s := service("S", cfgMethod("Get", ".t.v1.Req", ".t.v1.Resp", "GET", "/x/{id}"))
			s["options"] = M{"[sebuf.http.service_headers]": M{"required_headers": []any{M{"name": "X-API-Key", "type": "string", "required": true}}}}
			addService(f, s)
		}),
		one("two services in one file", func(f M) {
			rr(f)
			addMessage(f, message("Other", field("z", "string")))
			addService(f, service("Alpha", cfgMethod("Get", ".t.v1.Req", ".t.v1.Resp", "GET", "/a/{id}")))
			addService(f, service("Beta", cfgMethod("Get", ".t.v1.Req", ".t.v1.Other", "GET", "/b/{id}")))
		}),
		oasCase{Name: "message from an imported file", Build: func() *Schema {
			lib := protoFile("lib/v1/lib.proto", "lib.v1", "example.com/lib/v1;libv1")
			addMessage(lib, message("Shared", field("v", "string"), msgField("deep", ".lib.v1.Deep")))
			addMessage(lib, message("Deep", field("d", "string")))
			f := protoFile("t/v1/t.proto", "t.v1", "example.com/t/v1;tv1")
			f["dependency"] = []any{"lib/v1/lib.proto"}
			addMessage(f, message("Req", field("id", "string")))
			addMessage(f, message("Resp", msgField("s", ".lib.v1.Shared")))
			addService(f, service("S", method("Get", ".t.v1.Req", ".t.v1.Resp")))
			return &Schema{Files: []map[string]any{lib, f}, Generate: []string{"t/v1/t.proto"}}
		}},
		one("unused nested type that refers to an otherwise unreachable message", func(f M) {
			addMessage(f, message("Audit", field("who", "string")))
			outer := message("Resp", field("ok", "bool"))
			outer["nested_type"] = []any{message("Legacy", msgField("audit", ".t.v1.Audit"))}
			addMessage(f, outer)
			addMessage(f, message("Req", field("id", "string")))
			addService(f, service("S", method("Get", ".t.v1.Req", ".t.v1.Resp")))
		}),
		// --- members that are known to violate the property (recorded as known findings by class) ---
		one("same path variable twice in a template", func(f M) {
			rr(f)
			addService(f, service("S", cfgMethod("Get", ".t.v1.Req", ".t.v1.Resp", "GET", "/x/{id}/y/{id}")))
		}),
		one("two fields published under one query name", func(f M) {
			addMessage(f, message("Req", withOpt(field("a", "string"), "sebuf.http.query", M{"name": "q"}), withOpt(field("b", "string"), "sebuf.http.query", M{"name": "q"})))
			addMessage(f, message("Resp", field("ok", "bool")))
			addService(f, service("S", cfgMethod("Get", ".t.v1.Req", ".t.v1.Resp", "GET", "/x")))
		}),
		one("same-named nested types", func(f M) {
			a := message("A", msgField("item", ".t.v1.A.Item"))
			a["nested_type"] = []any{message("Item", field("a_only", "string"))}
			b := message("B", msgField("item", ".t.v1.B.Item"))
			b["nested_type"] = []any{message("Item", field("b_only", "int32"))}
			addMessage(f, a)
			addMessage(f, b)
			addMessage(f, message("Req", field("id", "string")))
			addMessage(f, message("Resp", msgField("a", ".t.v1.A"), msgField("b", ".t.v1.B")))
			addService(f, service("S", method("Get", ".t.v1.Req", ".t.v1.Resp")))
		}),
		one("user message named like a built-in error schema", func(f M) {
			addMessage(f, message("Error", field("code", "int32")))
			addMessage(f, message("Req", field("id", "string")))
			addService(f, service("S", method("Get", ".t.v1.Req", ".t.v1.Error")))
		}),
		one("two RPCs on one verb and path", func(f M) {
			rr(f)
			addService(f, service("S", cfgMethod("A", ".t.v1.Req", ".t.v1.Resp", "GET", "/x"), cfgMethod("B", ".t.v1.Req", ".t.v1.Resp", "GET", "/x")))
		}),
		oasCase{Name: "same service name in two generated files", Build: func() *Schema {
			mk := func(name, pkg string) M {
				f := protoFile(name, pkg, "example.com/"+strings.ReplaceAll(pkg, ".", "/")+";x")
				addMessage(f, message("Req", field("id", "string")))
				addMessage(f, message("Resp", field("ok", "bool")))
				addService(f, service("S", method("Get", "."+pkg+".Req", "."+pkg+".Resp")))
				return f
			}
			return &Schema{Files: []map[string]any{mk("a/v1/a.proto", "a.v1"), mk("b/v1/b.proto", "b.v1")}, Generate: []string{"a/v1/a.proto", "b/v1/b.proto"}}
		}},
	)
	return cases
}

// reachableMessages: full names of the messages reachable from the RPCs of the generated files (fields incl.
// map entries, and nested declarations of reachable messages), as the property counts them.
func reachableMessages(s *Schema) (byService map[string][]string, rpcs map[string]int) {
	type msg struct {
		full   string
		fields []string
		nested []string
	}
	all := map[string]*msg{}
	var addMsg func(prefix string, m map[string]any)
	addMsg = func(prefix string, m map[string]any) {
		full := prefix + "." + fmt.Sprint(m["name"])
		mm := &msg{full: full}
		fs, _ := m["field"].([]any)
		for _, f := range fs {
			if fm, ok := f.(map[string]any); ok {
				if tn, ok := fm["type_name"].(string); ok && fmt.Sprint(fm["type"]) == "TYPE_MESSAGE" {
					mm.fields = append(mm.fields, strings.TrimPrefix(tn, "."))
				}
			}
		}
		ns, _ := m["nested_type"].([]any)
		for _, n := range ns {
			if nm, ok := n.(map[string]any); ok {
				mm.nested = append(mm.nested, full+"."+fmt.Sprint(nm["name"]))
				addMsg(full, nm)
			}
		}
		all[full] = mm
	}
	gen := map[string]bool{}
	for _, g := range s.Generate {
		gen[g] = true
	}
	byService = map[string][]string{}
	rpcs = map[string]int{}
	for _, f := range s.Files {
		pkg, _ := f["package"].(string)
		ms, _ := f["message_type"].([]any)
		for _, m := range ms {
			if mm, ok := m.(map[string]any); ok {
				if pkg == "" {
					full := fmt.Sprint(mm["name"])
					tmp := map[string]any{}
					for k, v := range mm {
						tmp[k] = v
					}
					addMsg("", tmp)
					if x, ok := all["."+full]; ok {
						delete(all, "."+full)
						x.full = full
						all[full] = x
					}
				} else {
					addMsg(pkg, mm)
				}
			}
		}
	}
	for _, f := range s.Files {
		if !gen[fmt.Sprint(f["name"])] {
			continue
		}
		svcs, _ := f["service"].([]any)
		for _, sv := range svcs {
			sm, _ := sv.(map[string]any)
			key := fmt.Sprint(f["name"]) + ":" + fmt.Sprint(sm["name"])
			seen := map[string]bool{}
			var visit func(full string)
			visit = func(full string) {
				if seen[full] {
					return
				}
				m := all[full]
				if m == nil {
					return // well-known or external type: not modelled here
				}
				seen[full] = true
				for _, t := range m.fields {
					visit(t)
				}
				for _, t := range m.nested {
					visit(t)
				}
			}
			meths, _ := sm["method"].([]any)
			rpcs[key] = len(meths)
			for _, me := range meths {
				mm, _ := me.(map[string]any)
				visit(strings.TrimPrefix(fmt.Sprint(mm["input_type"]), "."))
				visit(strings.TrimPrefix(fmt.Sprint(mm["output_type"]), "."))
			}
			var names []string
			for n := range seen {
				names = append(names, n)
			}
			sort.Strings(names)
			byService[key] = names
		}
	}
	return byService, rpcs
}

func shortName(full string) string {
	if i := strings.LastIndex(full, "."); i >= 0 {
		return full[i+1:]
	}
	return full
}

type oasProblem struct {
	Case, Class, Detail string
}

func runC18Family() (runs int, problems []oasProblem, err error) {
	t, err := GetTools()
	if err != nil {
		return 0, nil, err
	}
	var mu sync.Mutex
	var wg sync.WaitGroup
	sem := make(chan struct{}, 8)
	add := func(c, class, detail string) {
		mu.Lock()
		problems = append(problems, oasProblem{c, class, detail})
		mu.Unlock()
	}
	for _, c := range c18Cases() {
		c := c
		wg.Add(1)
		go func() {
			defer wg.Done()
			sem <- struct{}{}
			defer func() { <-sem }()
			outs := map[string]*GenOutput{}
			for _, param := range []string{"format=json", "", "format=yaml", "format=yml"} {
				s := c.Build()
				s.Parameter = param
				o, gerr := t.Generate("protoc-gen-openapiv3", s)
				mu.Lock()
				runs++
				mu.Unlock()
				if gerr != nil {
					add(c.Name, "harness-error", gerr.Error())
					return
				}
				if o.Crash != "" || o.Error != "" {
					add(c.Name, "no-document", firstLines(o.Crash+o.Error, 2))
					return
				}
				outs[param] = o
			}
			s := c.Build()
			reach, rpcs := reachableMessages(s)
			nSvc := len(rpcs)
			j := outs["format=json"]
			// one document per service, distinct names, same set in every format
			names := map[string]int{}
			for _, f := range j.Files {
				names[f.Name]++
			}
			for n, k := range names {
				if k > 1 {
					add(c.Name, "file-name-collision", fmt.Sprintf("%d files named %s in one response", k, n))
				}
			}
			if len(j.Files) != nSvc {
				add(c.Name, "document-count", fmt.Sprintf("%d services, %d documents", nSvc, len(j.Files)))
			}
			for _, param := range []string{"", "format=yaml", "format=yml"} {
				if len(outs[param].Files) != len(j.Files) {
					add(c.Name, "document-count", fmt.Sprintf("parameter %q: %d documents, json: %d", param, len(outs[param].Files), len(j.Files)))
				}
				for i, f := range outs[param].Files {
					if i < len(outs[""].Files) && f.Content != outs[""].Files[i].Content {
						add(c.Name, "yaml-variants-differ", fmt.Sprintf("parameter %q renders %s differently from the default", param, f.Name))
					}
				}
			}
			for i, f := range j.Files {
				var ytext any
				if i < len(outs[""].Files) && strings.TrimSuffix(outs[""].Files[i].Name, ".yaml") == strings.TrimSuffix(f.Name, ".json") {
					ytext = outs[""].Files[i].Content
				} else {
					add(c.Name, "file-names-differ", fmt.Sprintf("json %s vs yaml document #%d", f.Name, i))
				}
				in, _ := json.Marshal(map[string]any{"json": f.Content, "yaml": ytext})
				out, perr := runCmd(verifDir(), in, "python3", filepath.Join(verifDir(), "harness", "py", "oascheck.py"))
				if perr != nil {
					add(c.Name, "harness-error", "oascheck.py: "+perr.Error())
					continue
				}
				var res struct {
					Problems []struct{ Class, Detail string }
					Schemas  []string
					Operations []struct{ Path, Verb, OperationId string }
				}
				if uerr := json.Unmarshal(out, &res); uerr != nil {
					add(c.Name, "harness-error", "oascheck.py output: "+uerr.Error())
					continue
				}
				for _, p := range res.Problems {
					add(c.Name, p.Class, f.Name+": "+p.Detail)
				}
				// which service is this document for
				svcName := strings.TrimSuffix(f.Name, ".openapi.json")
				for key, msgs := range reach {
					if !strings.HasSuffix(key, ":"+svcName) || names[f.Name] > 1 {
						continue
					}
					have := map[string]bool{}
					for _, sname := range res.Schemas {
						have[sname] = true
					}
					byShort := map[string]string{}
					for _, full := range msgs {
						sn := shortName(full)
						if !have[sn] {
							add(c.Name, "schema-missing", fmt.Sprintf("%s: reachable message %s has no component schema", f.Name, full))
						}
						if other, dup := byShort[sn]; dup {
							add(c.Name, "schema-name-collision", fmt.Sprintf("%s: %s and %s share the component schema %s", f.Name, other, full, sn))
						}
						byShort[sn] = full
						if sn == "Error" || sn == "ValidationError" || sn == "FieldViolation" {
							add(c.Name, "schema-name-collision", fmt.Sprintf("%s: message %s replaces the built-in %s schema", f.Name, full, sn))
						}
					}
					if len(res.Operations) != rpcs[key] {
						add(c.Name, "operation-lost", fmt.Sprintf("%s: %d RPCs, %d operations", f.Name, rpcs[key], len(res.Operations)))
					}
				}
			}
		}()
	}
	wg.Wait()
	sort.Slice(problems, func(i, j int) bool {
		return problems[i].Case+problems[i].Class+problems[i].Detail < problems[j].Case+problems[j].Class+problems[j].Detail
	})
	return runs, problems, nil
}

func c18KnownClasses() map[string]bool {
	kf, _ := loadKnownFindings()
	known := map[string]bool{}
	for _, k := range kf {
		if k.Property == "C18" && k.Status == "known" && k.FamilyClass != "" {
			for _, c := range strings.Split(k.FamilyClass, ",") {
				known[strings.TrimSpace(c)] = true
			}
		}
	}
	return known
}

func init() {
	replayers["c18-family"] = func(w *World, v violation) map[string]any {
		runs, probs, err := runC18Family()
		res := map[string]any{"family_runs": runs}
		if err != nil {
			res["confirmed"] = false
			res["reason"] = err.Error()
			return res
		}
		known := c18KnownClasses()
		var fresh []oasProblem
		for _, p := range probs {
			if !known[p.Class] {
				fresh = append(fresh, p)
			}
		}
		res["confirmed"] = len(fresh) > 0
		if len(fresh) > 8 {
			fresh = fresh[:8]
		}
		res["problems_not_listed_as_known"] = fresh
		if len(fresh) == 0 {
			res["reason"] = "every document of the family passes the independent validator (apart from classes recorded as known findings)"
		}
		return res
	}
	boundedChecks["c18-family"] = func(w *World, seed int64) map[string]any {
		runs, probs, err := runC18Family()
		out := map[string]any{"name": "c18-family", "bounded": true, "bound": fmt.Sprintf("%d services x {json, default, yaml, yml}", len(c18Cases())), "plugin_runs": runs}
		if err != nil {
			out["status"] = "error: " + err.Error()
			return out
		}
		known := c18KnownClasses()
		var fails []map[string]any
		for _, p := range probs {
			fails = append(fails, map[string]any{"name": "C18.family." + p.Class, "case": p.Case, "observed": p.Detail, "parameter": ""})
		}
		_ = known
		out["failures"] = fails
		out["status"] = "ran"
		return out
	}
	debugCmds["c18family"] = func(args []string) int {
		runs, probs, err := runC18Family()
		fmt.Println("runs:", runs, "err:", err)
		for _, p := range probs {
			fmt.Printf("%-24s %-60s %s\n", p.Class, p.Case, p.Detail)
		}
		return 0
	}
}

func init() {
	debugCmds["c18dump"] = func(args []string) int {
		// govc c18dump <dir>: the JSON rendering of every family member (for differential comparison of two trees)
		t, err := GetTools()
		if err != nil {
			fmt.Println(err)
			return 1
		}
		for i, c := range c18Cases() {
			s := c.Build()
			s.Parameter = "format=json"
			o, gerr := t.Generate("protoc-gen-openapiv3", s)
			if gerr != nil || o.Crash != "" {
				continue
			}
			for k, f := range o.Files {
				os.WriteFile(filepath.Join(args[0], fmt.Sprintf("%02d.%d.json", i, k)), []byte(f.Content), 0o644)
			}
		}
		return 0
	}
}
