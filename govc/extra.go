package main

func dispatchExtra(cmd string, args []string) bool { return false }
