package main

// Per-property check driver: runs the inventory of a property, classifies failed obligations against
// the committed known-findings file, writes evidence and replay files, prints VIOLATION lines.

import (
	"encoding/json"
	"flag"
	"fmt"
	"os"
	"path/filepath"
	"sort"
	"strings"
	"sync"
	"time"
)

type PropertySpec struct {
	ID         string            `json:"id"`
	Functions  []string          `json:"functions"`  // verified against their contracts
	Safety     []string          `json:"safety"`     // additionally verified for panic-freedom
	Lemmas     []string          `json:"lemmas"`     // lemma name prefixes
	Structural []string          `json:"structural"` // S3 rule names
	Emitted    []string          `json:"emitted"`    // emitted template functions verified against `emitted func` contracts
	EmittedSaf []string          `json:"emitted_safety"`
	Replayers  map[string]string `json:"replayers"` // obligation-name prefix -> replayer
	Sweep      []string          `json:"sweep"`      // packages whose every function is checked in bounds mode (index, slice, type assertion, explicit panic), no annotation needed
	Bounded    []string          `json:"bounded"`   // bounded stand-ins (thorough tier)
	BoundedQuick bool            `json:"bounded_in_quick"` // run the bounded stand-ins in the quick tier too (they carry known findings)
	QuickBounded []string        `json:"bounded_quick"`    // bounded stand-ins that run in both tiers (cheap ones standing in for an assumed contract)
	Assumed    []string          `json:"assumed"`   // assumed contracts the property relies on
	Residue    string            `json:"residue"`
	NeedsEmitted bool            `json:"needs_emitted"`
}

type KnownFinding struct {
	Property   string `json:"property"`
	Obligation string `json:"obligation"`
	Status     string `json:"status"` // known | fixed
	WhatFails  string `json:"what_fails"`
	Witness    string `json:"witness,omitempty"`
	Commit     string `json:"commit,omitempty"`
	FamilyClass string `json:"family_class,omitempty"` // members of a replay family covered by this finding
}

func loadInventory() (map[string]*PropertySpec, error) {
	data, err := os.ReadFile(filepath.Join(verifDir(), "spec", "inventory.json"))
	if err != nil {
		return nil, err
	}
	var list []*PropertySpec
	if err := json.Unmarshal(data, &list); err != nil {
		return nil, fmt.Errorf("inventory.json: %v", err)
	}
	m := map[string]*PropertySpec{}
	for _, p := range list {
		m[p.ID] = p
	}
	return m, nil
}

func loadKnownFindings() ([]KnownFinding, error) {
	data, err := os.ReadFile(filepath.Join(verifDir(), "known_findings.json"))
	if err != nil {
		if os.IsNotExist(err) {
			return nil, nil
		}
		return nil, err
	}
	var list []KnownFinding
	if err := json.Unmarshal(data, &list); err != nil {
		return nil, fmt.Errorf("known_findings.json: %v", err)
	}
	return list, nil
}

type checkRun struct {
	spec      *PropertySpec
	tier      string
	seed      int64
	w         *World
	units     []*UnitResult
	extra     []OblResult // structural and bounded results
	bounded   []map[string]any
	known     map[string]KnownFinding
	mu        sync.Mutex
	timeout   time.Duration
	replayDir string
	knownReplays []map[string]any
	swept     int
}

func cmdCheck(args []string) int {
	fs := flag.NewFlagSet("check", flag.ExitOnError)
	tier := fs.String("tier", "", "quick|thorough")
	verbose := fs.Bool("v", false, "verbose")
	var id string
	if len(args) > 0 && !strings.HasPrefix(args[0], "-") {
		id = args[0]
		args = args[1:]
	}
	fs.Parse(args)
	if id == "" && fs.NArg() > 0 {
		id = fs.Arg(0)
	}
	if *tier == "" {
		*tier = os.Getenv("VERIF_TIER")
	}
	if *tier == "" {
		*tier = "quick"
	}
	var seed int64
	fmt.Sscan(os.Getenv("VERIF_SEED"), &seed)
	start := time.Now()
	inv, err := loadInventory()
	if err != nil {
		fmt.Println("check is broken:", err)
		return 3
	}
	spec := inv[id]
	if spec == nil {
		fmt.Println("unknown property", id)
		return 3
	}
	kf, err := loadKnownFindings()
	if err != nil {
		fmt.Println("check is broken:", err)
		return 3
	}
	run := &checkRun{spec: spec, tier: *tier, seed: seed, known: map[string]KnownFinding{}, timeout: 25 * time.Second}
	if *tier == "thorough" {
		run.timeout = 60 * time.Second
	}
	for _, k := range kf {
		if k.Property == id && k.Status == "known" {
			run.known[k.Obligation] = k
		}
	}
	run.replayDir = filepath.Join(verifDir(), "replays", id)
	if d := os.Getenv("GOVC_REPLAY_DIR"); d != "" {
		run.replayDir = filepath.Join(d, id)
	}
	os.RemoveAll(run.replayDir)
	code := run.execute(*verbose)
	run.writeEvidence(start, code)
	return code
}

func (run *checkRun) isKnown(name string) bool {
	_, ok := run.known[name]
	return ok
}

func (run *checkRun) execute(verbose bool) int {
	spec := run.spec
	w, err := LoadWorld()
	if err != nil {
		// the repository no longer loads: every contract is unbound
		return run.brokenTree("repository does not load: " + err.Error())
	}
	run.w = w
	if err := w.LoadRepoContracts(); err != nil {
		return run.brokenTree("contracts do not load: " + err.Error())
	}
	if err := w.LoadSpecDir(filepath.Join(verifDir(), "spec")); err != nil {
		fmt.Println("check is broken:", err)
		return 3
	}
	if len(spec.Emitted) > 0 || len(spec.EmittedSaf) > 0 || needsEmitted(spec) {
		if err := w.LoadEmitted(); err != nil {
			return run.brokenTree("emitted code cannot be extracted: " + err.Error())
		}
	}
	opts := VerifyOpts{Timeout: run.timeout, ExpectFail: run.isKnown}
	var wg sync.WaitGroup
	sem := make(chan struct{}, 8)
	addUnit := func(u *UnitResult) {
		run.mu.Lock()
		run.units = append(run.units, u)
		run.mu.Unlock()
	}
	// functions
	type job struct {
		key     string
		safety  bool
		emitted bool
	}
	var jobs []job
	seenJob := map[string]int{}
	for _, k := range spec.Functions {
		seenJob[k] = len(jobs)
		jobs = append(jobs, job{key: k})
	}
	for _, k := range spec.Safety {
		if i, ok := seenJob[k]; ok {
			jobs[i].safety = true
		} else {
			seenJob[k] = len(jobs)
			jobs = append(jobs, job{key: k, safety: true})
		}
	}
	for _, k := range spec.Emitted {
		seenJob["emitted."+k] = len(jobs)
		jobs = append(jobs, job{key: k, emitted: true})
	}
	for _, k := range spec.EmittedSaf {
		if i, ok := seenJob["emitted."+k]; ok {
			jobs[i].safety = true
		} else {
			jobs = append(jobs, job{key: k, emitted: true, safety: true})
		}
	}
	for _, j := range jobs {
		j := j
		wg.Add(1)
		go func() {
			defer wg.Done()
			sem <- struct{}{}
			defer func() { <-sem }()
			var fi *FuncInfo
			closure := 0
			fkey := j.key
			// "unit~clauseA,clauseB": the named ensures clauses state another property's requirement (they are decided, and may
			// carry that property's known findings, under that property's check); here the unit is verified without them
			var notHere []string
			if i := strings.Index(fkey, "~"); i >= 0 {
				notHere = strings.Split(fkey[i+1:], ",")
				fkey = fkey[:i]
				j.key = fkey
			}
			if i := strings.Index(fkey, "#"); i >= 0 {
				fmt.Sscan(fkey[i+1:], &closure)
				fkey = fkey[:i]
			}
			if j.emitted {
				fi = w.LookupEmitted(fkey)
			} else {
				fi = w.LookupFunc(fkey)
			}
			name := j.key
			if j.emitted {
				name = "emitted." + j.key
			}
			if fi == nil {
				addUnit(&UnitResult{Unit: name, Kind: "func", Status: "unbound", Reason: "function not found in the working tree"})
				return
			}
			c := w.contractFor(fi)
			if closure > 0 {
				c = w.Contracts[fmt.Sprintf("emitted.%s_closure%d", strings.ReplaceAll(fkey, ".", "_"), closure)]
			}
			if c == nil && !j.safety {
				addUnit(&UnitResult{Unit: name, Kind: "func", Status: "unbound", Reason: "no contract found for function"})
				return
			}
			o := opts
			o.Safety = j.safety
			o.Events = j.emitted
			o.Closure = closure
			ur := w.VerifyFunc(fi, c, o)
			if len(notHere) > 0 {
				kept := ur.Obls[:0]
				for _, ob := range ur.Obls {
					drop := false
					for _, cl := range notHere {
						if strings.HasSuffix(ob.Name, "#ensures["+cl+"]") {
							drop = true
						}
					}
					if !drop {
						kept = append(kept, ob)
					}
				}
				ur.Obls = kept
				ur.Notes = append(ur.Notes, "ensures clauses decided under another property's check and not counted here: "+strings.Join(notHere, ", "))
			}
			addUnit(ur)
		}()
	}
	// zero-annotation bounds sweep
	if len(spec.Sweep) > 0 {
		wg.Add(1)
		go func() {
			defer wg.Done()
			for _, u := range w.boundsSweep(spec.Sweep, run.timeout) {
				u.Kind = "sweep"
				run.mu.Lock()
				run.swept++
				run.mu.Unlock()
				if len(u.Obls) > 0 || u.Status != "ok" {
					addUnit(u)
				}
			}
		}()
	}
	// lemmas
	for _, name := range w.LemmaOrd {
		match := false
		for _, pre := range spec.Lemmas {
			if strings.HasPrefix(name, pre) {
				match = true
			}
		}
		if !match {
			continue
		}
		l := w.Lemmas[name]
		wg.Add(1)
		go func() {
			defer wg.Done()
			sem <- struct{}{}
			defer func() { <-sem }()
			addUnit(w.VerifyLemma(l, opts))
		}()
	}
	wg.Wait()
	// structural rules
	for _, rule := range spec.Structural {
		rs := runStructural(w, rule)
		run.extra = append(run.extra, rs...)
	}
	ranBounded := map[string]bool{}
	if run.tier == "thorough" || spec.BoundedQuick {
		for _, b := range spec.Bounded {
			ranBounded[b] = true
			run.bounded = append(run.bounded, runBounded(w, b, run.seed))
		}
	}
	for _, b := range spec.QuickBounded {
		if !ranBounded[b] {
			run.bounded = append(run.bounded, runBounded(w, b, run.seed))
		}
	}
	sortResults(run.units)
	return run.report(verbose)
}

func needsEmitted(spec *PropertySpec) bool {
	if spec.NeedsEmitted {
		return true
	}
	for _, s := range spec.Structural {
		if strings.HasPrefix(s, "emitted.") {
			return true
		}
	}
	return false
}

// brokenTree: the tree under verification cannot be analysed at all. Every obligation is undecided, which
// this family reports as a violation without a failing input (contracts unbound).
func (run *checkRun) brokenTree(reason string) int {
	os.MkdirAll(run.replayDir, 0o755)
	path := filepath.Join(run.replayDir, "unbound.json")
	data, _ := json.MarshalIndent(map[string]any{"property": run.spec.ID, "obligation": "all", "reason": reason, "verifier_output": reason}, "", " ")
	os.WriteFile(path, data, 0o644)
	fmt.Printf("VIOLATION property=%s replay=%s contract-unbound: %s no-failing-input-found\n", run.spec.ID, path, firstLines(reason, 2))
	run.units = append(run.units, &UnitResult{Unit: "load", Kind: "func", Status: "unbound", Reason: reason})
	return 1
}

type violation struct {
	Obligation string
	Unit       string
	Status     string
	Reason     string
	Model      string
	Script     string
	Text       string
	Where      string
}

func (run *checkRun) report(verbose bool) int {
	id := run.spec.ID
	var viols []violation
	knownSeen := map[string]bool{}
	nObl, nProved := 0, 0
	for _, u := range run.units {
		if verbose {
			printUnit(u, false)
		}
		if u.Status != "ok" {
			if run.isKnown(u.Unit) {
				knownSeen[u.Unit] = true
				continue
			}
			viols = append(viols, violation{Obligation: u.Unit, Unit: u.Unit, Status: "contract-unbound", Reason: u.Status + ": " + u.Reason})
			continue
		}
		for _, o := range u.Obls {
			if o.Expect == "refuted" {
				// canaries and covers: must NOT be provable
				if o.Status == "proved" {
					viols = append(viols, violation{Obligation: o.Name, Unit: u.Unit, Status: "vacuous",
						Reason: "a " + o.Kind + " obligation that must be refutable was proved: the hypotheses are contradictory (check broken or code makes the case impossible)", Script: o.Script, Text: o.Text})
				}
				continue
			}
			if run.isKnown(o.Name) {
				if o.Status == "proved" {
					fmt.Printf("NOTE: known finding %s no longer fails on this tree (obligation proved)\n", o.Name)
				} else {
					knownSeen[o.Name] = true
					if run.tier == "thorough" || os.Getenv("VERIF_REPLAY_KNOWN") != "" {
						if rp := run.replayerFor(o.Name); rp != "" && o.Model != "" {
							res := runReplayer(run.w, rp, violation{Obligation: o.Name, Model: o.Model})
							run.knownReplays = append(run.knownReplays, map[string]any{"obligation": o.Name, "replay": res})
						}
					}
				}
				continue
			}
			nObl++
			if o.Status == "proved" {
				nProved++
				continue
			}
			viols = append(viols, violation{Obligation: o.Name, Unit: u.Unit, Status: o.Status, Reason: o.Raw, Model: o.Model, Script: o.Script, Text: o.Text, Where: o.Where})
		}
	}
	for _, o := range run.extra {
		if run.isKnown(o.Name) {
			if o.Status != "proved" {
				knownSeen[o.Name] = true
			}
			continue
		}
		nObl++
		if o.Status == "proved" {
			nProved++
			continue
		}
		viols = append(viols, violation{Obligation: o.Name, Unit: o.Func, Status: o.Status, Reason: o.Raw, Model: o.Model, Text: o.Text, Where: o.Where})
	}
	// bounded families: a member that fails on the real code is a violation with its input attached
	type bfail struct {
		name string
		rec  map[string]any
	}
	var bfails []bfail
	for _, b := range run.bounded {
		if st, _ := b["status"].(string); strings.HasPrefix(st, "error") {
			viols = append(viols, violation{Obligation: fmt.Sprint(b["name"]), Status: "bounded-check-broken", Reason: st})
		}
		fl, _ := b["failures"].([]map[string]any)
		for _, f := range fl {
			name := fmt.Sprint(f["name"])
			if run.isKnown(name) || run.isKnown(name+":"+fmt.Sprint(f["case"])) {
				knownSeen[name] = true
				continue
			}
			// a family deviation of a class that a known finding of this property lists
			covered := false
			if i := strings.Index(name, ".family."); i >= 0 {
				class := name[i+len(".family."):]
				for ob, k := range run.known {
					for _, fc := range strings.Split(k.FamilyClass, ",") {
						if strings.TrimSpace(fc) == class {
							knownSeen[ob] = true
							covered = true
						}
					}
				}
			}
			if covered {
				continue
			}
			bfails = append(bfails, bfail{name, f})
		}
	}
	for _, name := range sortedKeysKF(run.known) {
		if knownSeen[name] {
			k := run.known[name]
			fmt.Printf("KNOWN-FINDING: property=%s obligation=%s %s\n", id, name, k.WhatFails)
		}
	}
	if nObl == 0 {
		fmt.Printf("check is broken: property %s generated zero obligations\n", id)
		return 3
	}
	fmt.Printf("property %s: %d obligations, %d discharged, %d known findings, %d violations\n", id, nObl, nProved, len(knownSeen), len(viols)+len(bfails))
	if len(viols) == 0 && len(bfails) == 0 {
		return 0
	}
	os.MkdirAll(run.replayDir, 0o755)
	for i, bf := range bfails {
		path := filepath.Join(run.replayDir, fmt.Sprintf("%s.%d.json", safeName(bf.name), i))
		rec := map[string]any{"property": id, "obligation": bf.name, "status": "bounded family member fails on the real plugin binary", "failing_input": bf.rec,
			"how_to_replay": "write failing_input.schema to a file and run: /verif/bin/govc gen " + strings.TrimPrefix(bf.name, "C16.family.") + " <file> '" + fmt.Sprint(bf.rec["parameter"]) + "'"}
		data, _ := json.MarshalIndent(rec, "", " ")
		os.WriteFile(path, data, 0o644)
		fmt.Printf("VIOLATION property=%s replay=%s obligation=%s case=%q (bounded family, replayed on the real plugin)\n", id, path, bf.name, fmt.Sprint(bf.rec["case"]))
	}
	for _, v := range viols {
		rp := run.writeReplay(v)
		suffix := ""
		if !rp.Confirmed {
			suffix = " no-failing-input-found"
		}
		fmt.Printf("VIOLATION property=%s replay=%s obligation=%s (%s)%s\n", id, rp.Path, v.Obligation, v.Status, suffix)
	}
	return 1
}

func sortedKeysKF(m map[string]KnownFinding) []string {
	var ks []string
	for k := range m {
		ks = append(ks, k)
	}
	sort.Strings(ks)
	return ks
}

type replayOutcome struct {
	Path      string
	Confirmed bool
}

func safeName(s string) string {
	r := strings.NewReplacer("/", "_", " ", "_", "#", "-", "[", "(", "]", ")", ":", "_", "@", "_at_", "*", "_")
	return r.Replace(s)
}

func (run *checkRun) writeReplay(v violation) replayOutcome {
	path := filepath.Join(run.replayDir, safeName(v.Obligation)+".json")
	rec := map[string]any{
		"property":        run.spec.ID,
		"obligation":      v.Obligation,
		"unit":            v.Unit,
		"status":          v.Status,
		"clause":          v.Text,
		"where":           v.Where,
		"verifier_output": strings.TrimSpace(v.Reason + "\n" + v.Model),
		"repo":            repoDir(),
	}
	confirmed := false
	if v.Script != "" {
		sp := filepath.Join(run.replayDir, safeName(v.Obligation)+".smt2")
		os.WriteFile(sp, []byte("(set-option :produce-models true)\n(set-logic ALL)\n"+v.Script+"(check-sat)\n(get-model)\n"), 0o644)
		rec["query"] = sp
	}
	if v.Model != "" || run.replayerFor(v.Obligation) != "" {
		if rp := run.replayerFor(v.Obligation); rp != "" {
			res := runReplayer(run.w, rp, v)
			rec["replay"] = res
			if c, _ := res["confirmed"].(bool); c {
				confirmed = true
			}
		} else {
			rec["replay"] = map[string]any{"confirmed": false, "reason": "no replayer registered for this obligation: the counterexample is reported as the solver gave it"}
		}
	}
	data, _ := json.MarshalIndent(rec, "", " ")
	os.WriteFile(path, data, 0o644)
	return replayOutcome{Path: path, Confirmed: confirmed}
}

func (run *checkRun) replayerFor(obl string) string {
	best, bestLen := "", -1
	for pre, rp := range run.spec.Replayers {
		if strings.HasPrefix(obl, pre) && len(pre) > bestLen {
			best, bestLen = rp, len(pre)
		}
	}
	return best
}

// ---------------------------------------------------------------------------------------
// evidence

func (run *checkRun) writeEvidence(start time.Time, code int) {
	id := run.spec.ID
	var obls []map[string]any
	var samples []any
	trusted := map[string]bool{}
	fuc, assumed, canaries, knownList, inlined, notes := []string{}, []string{}, []string{}, []string{}, []string{}, []string{}
	observers := map[string]bool{}
	havocked := map[string]bool{}
	nObl, nProved, nViol := 0, 0, 0
	var solverMs int64
	backends := map[string]int{}
	for _, u := range run.units {
		if u.Kind == "func" {
			if u.Assumed {
				assumed = append(assumed, u.Unit+" (assume-contract: body not verified)")
			} else if u.Status == "ok" {
				fuc = append(fuc, u.Unit)
			}
		}
		for _, t := range u.Trusted {
			trusted[t] = true
		}
		for _, t := range u.Observers {
			observers[t] = true
		}
		for _, t := range u.Havocked {
			havocked[u.Unit+" -> "+t] = true
		}
		for _, c := range u.Contracts {
			if cc := run.w.Contracts[c]; cc != nil && cc.Assume {
				trusted["assumed contract: "+c] = true
			}
		}
		inlined = append(inlined, u.Inlined...)
		for _, n := range u.Notes {
			notes = append(notes, u.Unit+": "+n)
		}
		if u.Status != "ok" {
			nObl++
			nViol++
			obls = append(obls, map[string]any{"name": u.Unit, "kind": "binding", "status": u.Status, "reason": firstLines(u.Reason, 3)})
			continue
		}
		for _, o := range u.Obls {
			solverMs += o.SolverMs
			entry := map[string]any{"name": o.Name, "kind": o.Kind, "status": o.Status, "backend": o.Backend, "solver_ms": o.SolverMs, "clause": o.Text}
			if o.Expect == "refuted" {
				canaries = append(canaries, fmt.Sprintf("%s: %s (expected refutable)", o.Name, o.Status))
				if o.Status == "proved" {
					nViol++
				}
				continue
			}
			if run.isKnown(o.Name) {
				knownList = append(knownList, o.Name+": "+o.Status)
				continue
			}
			nObl++
			if o.Status == "proved" {
				nProved++
				backends[strings.SplitN(o.Backend, " ", 2)[0]]++
			} else {
				nViol++
			}
			obls = append(obls, entry)
			if len(samples) < 3 && o.Script != "" {
				samples = append(samples, map[string]any{"obligation": o.Name, "clause": o.Text, "smt2_tail": tail(o.Script, 1200)})
			}
		}
	}
	for _, o := range run.extra {
		if run.isKnown(o.Name) {
			knownList = append(knownList, o.Name+": "+o.Status)
			continue
		}
		nObl++
		if o.Status == "proved" {
			nProved++
			backends["structural"]++
		} else {
			nViol++
		}
		obls = append(obls, map[string]any{"name": o.Name, "kind": o.Kind, "status": o.Status, "backend": o.Backend, "clause": o.Text, "detail": o.Raw})
		if len(samples) < 4 {
			samples = append(samples, map[string]any{"obligation": o.Name, "rule": o.Text, "result": o.Status})
		}
	}
	if len(samples) == 0 {
		samples = append(samples, map[string]any{"note": "no obligation generated"})
	}
	sort.Strings(fuc)
	ev := map[string]any{
		"property_id": id,
		"tier":        run.tier,
		"seed":        run.seed,
		"level":       "proof",
		"coverage": map[string]any{
			"obligations":              nObl,
			"discharged":               nProved,
			"checker_cmd":              "bin/govc check " + id + " --tier " + run.tier,
			"trusted_base":             sortedNames(trusted),
			"functions_under_contract": fuc,
			"assumed_contracts":        assumed,
			"inlined_callees":          uniqSorted(inlined),
			"library_observers":        sortedNames(observers),
			"havocked_calls":           sortedNames(havocked),
			"obligation_list":          obls,
			"backends":                 backends,
			"solver_ms_total":          solverMs,
			"canaries_and_covers":      canaries,
			"known_findings":           knownList,
			"bounds_sweep_functions":   run.swept,
			"known_finding_replays":    nonNilList(run.knownReplays),
			"bounded_checks":           nonNilList(run.bounded),
			"samples":                  samples,
			"notes":                    uniqSorted(notes),
			"explanation":              "every obligation is a verification condition generated from the current source text of the repository and discharged by an SMT solver (unsat of the negation) or by a sound syntactic rule (backend structural); bounded_checks are never counted in discharged",
		},
		"assumptions": append([]string{
			"govc (the VC generator) and the SMT solvers are correct",
			"mathematical integers with the type's range assumed on entry; strings are sequences of bytes",
			"descriptor objects are immutable and their methods are pure observers (protobuf-go)",
			run.spec.Residue,
		}, sortedNames(trusted)...),
		"wall_s":     time.Since(start).Seconds(),
		"violations": nViol,
	}
	evDir := filepath.Join(verifDir(), "evidence")
	if d := os.Getenv("GOVC_EVIDENCE_DIR"); d != "" {
		evDir = d // runs against a mutated scratch copy must not overwrite the evidence of the real tree
	}
	os.MkdirAll(evDir, 0o755)
	data, _ := json.MarshalIndent(ev, "", " ")
	os.WriteFile(filepath.Join(evDir, id+".json"), data, 0o644)
}

func tail(s string, n int) string {
	if len(s) <= n {
		return s
	}
	return "..." + s[len(s)-n:]
}

func uniqSorted(xs []string) []string {
	m := map[string]bool{}
	for _, x := range xs {
		m[x] = true
	}
	return sortedNames(m)
}

func nonNilList(l []map[string]any) []map[string]any {
	if l == nil {
		return []map[string]any{}
	}
	return l
}
