package main

// C20 replay family (bounded): go-http with generate_mock=true; the package is built and vetted, and a test
// calls every mock RPC repeatedly, serialises the answer with the emitted server's own marshaller and checks
// that fields with example lists take one of the examples.

import (
	"fmt"
	"os"
	"path/filepath"
	"regexp"
	"strings"
)

func c20Cases() []buildCase {
	var cases []buildCase
	// definitions whose package does not build even without the mock (C13 known findings) say nothing about the mock
	c13Known := map[string]bool{}
	if kf, err := loadKnownFindings(); err == nil {
		for _, k := range kf {
			if k.Property == "C13" && k.Status == "known" {
				if i := strings.Index(k.Obligation, "@"); i >= 0 {
					c13Known[k.Obligation[i+1:]] = true
				}
			}
		}
	}
	for _, c := range c13Cases() {
		if strings.HasPrefix(c.Name, "codec") || c13Known[c.Name] {
			continue
		}
		cases = append(cases, c)
	}
	one := func(name string, build func(f M)) buildCase {
		return buildCase{Name: name, Build: func() *Schema {
			f := protoFile("t/v1/t.proto", "t.v1", "example.com/t/v1;tv1")
			build(f)
			return &Schema{Files: []map[string]any{f}, Generate: []string{"t/v1/t.proto"}}
		}}
	}
	ex := func(f M, vals ...string) M {
		vs := make([]any, len(vals))
		for i, v := range vals {
			vs[i] = v
		}
		return withOpt(f, "sebuf.http.field_examples", M{"values": vs})
	}
	cases = append(cases,
		one("mock: every scalar kind in the response", func(f M) {
			addMessage(f, message("Req", field("id", "string")))
			addMessage(f, message("Resp", field("s", "string"), field("i32", "int32"), field("i64", "int64"), field("u32", "uint32"), field("u64", "uint64"),
				field("b", "bool"), field("f", "float"), field("d", "double"), field("by", "bytes"), field("si", "sint32"), field("fx", "fixed64")))
			addService(f, service("S", method("Get", ".t.v1.Req", ".t.v1.Resp")))
		}),
		one("mock: int32 response field", func(f M) {
			addMessage(f, message("Req", field("id", "string")))
			addMessage(f, message("Resp", field("count", "int32")))
			addService(f, service("S", method("Get", ".t.v1.Req", ".t.v1.Resp")))
		}),
		one("mock: float response field", func(f M) {
			addMessage(f, message("Req", field("id", "string")))
			addMessage(f, message("Resp", field("ratio", "float")))
			addService(f, service("S", method("Get", ".t.v1.Req", ".t.v1.Resp")))
		}),
		one("mock: int64, double, bool and string response fields with examples", func(f M) {
			addMessage(f, message("Req", field("id", "string")))
			addMessage(f, message("Resp", ex(field("title", "string"), "alpha", "beta"), ex(field("big", "int64"), "9007199254740993", "-5"),
				ex(field("ratio", "double"), "0.25", "1e3"), ex(field("flag", "bool"), "false"), ex(field("odd", "int64"), "not-a-number")))
			addService(f, service("S", method("Get", ".t.v1.Req", ".t.v1.Resp")))
		}),
		one("mock: nested, repeated, map, optional, enum, oneof response", func(f M) {
			addEnum(f, M{"name": "Kind", "value": []any{M{"name": "KIND_UNSPECIFIED", "number": 0}, M{"name": "KIND_A", "number": 1}}})
			addMessage(f, message("Inner", field("note", "string"), field("n", "int64")))
			m := message("Resp", msgField("inner", ".t.v1.Inner"), repeated(field("tags", "string")), repeated(msgField("items", ".t.v1.Inner")),
				optionalField(field("opt", "string"), 0), enumField("kind", ".t.v1.Kind"))
			m["oneof_decl"] = []any{M{"name": "_opt"}}
			addMapField("t.v1", m, "counts", field("value", "int64"), 6)
			addMapField("t.v1", m, "by_name", msgField("value", ".t.v1.Inner"), 7)
			addMessage(f, m)
			addMessage(f, message("Req", field("id", "string")))
			addService(f, service("S", method("Get", ".t.v1.Req", ".t.v1.Resp")))
		}),
		one("mock: one message with a map of messages used by two response fields", func(f M) {
			addEnum(f, M{"name": "Realm", "value": []any{M{"name": "REALM_DEFAULT", "number": 0}}})
			addMessage(f, message("Tag", field("label", "string"), enumField("realm", ".t.v1.Realm")))
			a := message("Address", field("street", "string"))
			addMapField("t.v1", a, "tags", msgField("value", ".t.v1.Tag"), 2)
			addMessage(f, a)
			o := message("Other", field("k", "string"))
			addMapField("t.v1", o, "tags", msgField("value", ".t.v1.Tag"), 2)
			addMessage(f, o)
			addMessage(f, message("Resp", msgField("billing", ".t.v1.Address"), msgField("shipping", ".t.v1.Address"), msgField("other", ".t.v1.Other"), enumField("realm", ".t.v1.Realm")))
			addMessage(f, message("Req", field("id", "string")))
			addService(f, service("S", method("Get", ".t.v1.Req", ".t.v1.Resp")))
		}),
	)
	return cases
}

func runC20Family() (runs int, problems []buildProblem, err error) {
	return runBuildFamily("c20", c20Cases(), [][]string{{"protoc-gen-go-http"}, {"protoc-gen-go-http", "protoc-gen-go-client"}}, map[string]string{"protoc-gen-go-http": "generate_mock=true"})
}

func init() {
	boundedChecks["c20-build"] = func(w *World, seed int64) map[string]any {
		runs, probs, err := runC20Family()
		out := map[string]any{"name": "c20-build", "bounded": true, "bound": fmt.Sprintf("%d definitions x {go-http, go-http+go-client} with generate_mock=true: go build + go vet", len(c20Cases())), "packages": runs}
		if err != nil {
			out["status"] = "error: " + err.Error()
			return out
		}
		var fails []map[string]any
		for _, p := range probs {
			fails = append(fails, map[string]any{"name": "C20.family." + p.Class + "@" + p.Case, "case": p.Case + " [" + p.Plugins + "]", "observed": p.Stage + ": " + p.Detail, "parameter": "generate_mock=true"})
		}
		out["failures"] = fails
		out["status"] = "ran"
		return out
	}
	boundedChecks["c20-runtime"] = func(w *World, seed int64) map[string]any {
		fails, _, err := runC20Runtime()
		out := map[string]any{"name": "c20-runtime", "bounded": true, "bound": "one service, 60 invocations of the mock RPC: answer non-nil, serialisable, every field with examples (top-level, nested declaration, other message) holds one of them"}
		if err != nil {
			out["status"] = "error: " + err.Error()
			return out
		}
		var fl []map[string]any
		for _, f := range fails {
			fl = append(fl, map[string]any{"name": "C20.family." + f.Class, "case": f.Field, "observed": f.Line, "parameter": "generate_mock=true"})
		}
		out["failures"] = fl
		out["status"] = "ran"
		return out
	}
	replayers["c20-mock"] = func(w *World, v violation) map[string]any {
		fails, _, err := runC20Runtime()
		res := map[string]any{}
		if err != nil {
			res["confirmed"] = true
			res["reason"] = err.Error()
			return res
		}
		res["confirmed"] = len(fails) > 0
		res["mock_failures"] = fails
		if len(fails) == 0 {
			_, probs, _ := runC20Family()
			res["confirmed"] = len(probs) > 0
			res["build_failures"] = probs
			if len(probs) == 0 {
				res["reason"] = "the mock packages of the family build, and the mock RPC answers with serialisable responses that use the declared examples"
			}
		}
		return res
	}
	debugCmds["c20family"] = func(args []string) int {
		runs, probs, err := runC20Family()
		fmt.Println("runs:", runs, "err:", err)
		for _, p := range probs {
			fmt.Printf("%-14s %-70s %-22s %s: %s\n", p.Class, p.Case, p.Plugins, p.Stage, strings.ReplaceAll(firstLines(p.Detail, 3), "\n", " | "))
		}
		return 0
	}
}

// c20RuntimeSchema: a response with example lists on fields of every supported kind, at top level and in a
// nested declaration.
func c20RuntimeSchema() *Schema {
	f := protoFile("m/v1/m.proto", "m.v1", "example.com/m/v1;mv1")
	ex := func(fd M, vals ...string) M {
		vs := make([]any, len(vals))
		for i, v := range vals {
			vs[i] = v
		}
		return withOpt(fd, "sebuf.http.field_examples", M{"values": vs})
	}
	addMessage(f, message("Req", field("id", "string")))
	resp := message("Resp", ex(field("title", "string"), "alpha", "beta"), ex(field("big", "int64"), "9007199254740993", "-5"),
		ex(field("small", "int32"), "7", "8"), ex(field("ratio", "double"), "0.25", "1000"), ex(field("flag", "bool"), "false"),
		ex(field("odd", "int64"), "not-a-number"), msgField("detail", ".m.v1.Resp.Detail"), msgField("other", ".m.v1.Other"))
	resp["nested_type"] = []any{message("Detail", ex(field("label", "string"), "nested-one", "nested-two"), ex(field("level", "int64"), "11"))}
	addMessage(f, resp)
	addMessage(f, message("Other", ex(field("name", "string"), "other-name")))
	addService(f, service("S", method("Get", ".m.v1.Req", ".m.v1.Resp")))
	return &Schema{Files: []map[string]any{f}, Generate: []string{"m/v1/m.proto"}}
}

const c20TestSrc = `package mv1

import (
	"context"
	"fmt"
	"testing"

	"google.golang.org/protobuf/encoding/protojson"
)

func oneOf[T comparable](v T, allowed ...T) bool {
	for _, a := range allowed {
		if v == a {
			return true
		}
	}
	return false
}

func TestC20Mock(t *testing.T) {
	m := NewMockSServer()
	for i := 0; i < 60; i++ {
		resp, err := m.Get(context.Background(), &Req{Id: "x"})
		if err != nil || resp == nil {
			fmt.Printf("MOCKFAIL class=no-answer detail=%v\n", err)
			return
		}
		if _, err := protojson.Marshal(resp); err != nil {
			fmt.Printf("MOCKFAIL class=not-serialisable detail=%v\n", err)
		}
		check := func(field string, ok bool, got any) {
			if !ok {
				fmt.Printf("MOCKFAIL class=example-not-used field=%s got=%v\n", field, got)
			}
		}
		check("Resp.title", oneOf(resp.Title, "alpha", "beta"), resp.Title)
		check("Resp.big", oneOf(resp.Big, 9007199254740993, -5), resp.Big)
		check("Resp.small", oneOf(resp.Small, 7, 8), resp.Small)
		check("Resp.ratio", oneOf(resp.Ratio, 0.25, 1000), resp.Ratio)
		check("Resp.flag", resp.Flag == false, resp.Flag)
		if resp.Detail != nil {
			check("Resp.Detail.label", oneOf(resp.Detail.Label, "nested-one", "nested-two"), resp.Detail.Label)
			check("Resp.Detail.level", resp.Detail.Level == 11, resp.Detail.Level)
		}
		if resp.Other != nil {
			check("Other.name", resp.Other.Name == "other-name", resp.Other.Name)
		}
	}
}
`

type mockFail struct{ Class, Field, Line string }

func runC20Runtime() (fails []mockFail, output string, err error) {
	pkgDir, _, err := EmitPackage(c20RuntimeSchema(), "c20-rt", []string{"protoc-gen-go-http"}, map[string]string{"protoc-gen-go-http": "generate_mock=true"})
	if err != nil {
		return nil, "", err
	}
	if err := os.WriteFile(filepath.Join(pkgDir, "zz_c20_test.go"), []byte(c20TestSrc), 0o644); err != nil {
		return nil, "", err
	}
	out, rerr := runCmd(pkgDir, nil, "go", "test", "-v", "-vet=off", "-count=1", "-timeout", "120s", "-run", "TestC20Mock", ".")
	text := string(out)
	if rerr != nil {
		text += "\n" + rerr.Error()
	}
	seen := map[string]bool{}
	re := regexp.MustCompile(`(?m)^MOCKFAIL class=(\S+)(?: field=(\S+))?.*$`)
	for _, m := range re.FindAllStringSubmatch(text, -1) {
		k := m[1] + ":" + m[2]
		if !seen[k] {
			seen[k] = true
			fails = append(fails, mockFail{m[1], m[2], m[0]})
		}
	}
	if rerr != nil && len(fails) == 0 && !strings.Contains(text, "ok  ") {
		return nil, text, fmt.Errorf("the mock package does not build or the test crashed: %s", firstLines(text, 10))
	}
	return fails, text, nil
}

func init() {
	debugCmds["c20runtime"] = func(args []string) int {
		fails, out, err := runC20Runtime()
		if err != nil {
			fmt.Println("error:", err)
			return 1
		}
		for _, f := range fails {
			fmt.Println(f.Line)
		}
		fmt.Println(len(fails), "distinct failures")
		if len(args) > 0 {
			fmt.Println(out)
		}
		return 0
	}
}
