package main

// Contract and spec language: parsing.
//
// Contracts live in comment-only Go files in the repository (zz_verif_contracts*.go, build tag
// verif) as //@ lines. Property-level spec functions, axioms and lemmas live in /verif/spec/*.spec.

import (
	"fmt"
	"go/ast"
	"go/parser"
	"go/token"
	"go/types"
	"os"
	"path/filepath"
	"sort"
	"strconv"
	"strings"
)

type CExpr struct {
	Kind   string // go | imp | iff | forall | exists
	Go     ast.Expr
	Subs   map[string]*CExpr
	L, R   *CExpr
	Vars   []Binder
	Body   *CExpr
	Text   string
	Trig   []*CExpr // optional triggers for quantifiers
	TrigOf string
}

type Binder struct {
	Name string
	Type ast.Expr
}

type Clause struct {
	Name string
	Text string
	E    *CExpr
	Line int
	File string
}

type Contract struct {
	Key         string // short key: pkg.Func or pkg.Type.Method
	Emitted     bool
	RecvName    string
	ParamNames  []string
	ResultNames []string
	Requires    []*Clause
	Ensures     []*Clause
	Pure        bool
	Assume      bool // assumed contract: body not verified
	NoInline    bool
	Modifies    []string
	Fresh       bool // pointer result is freshly allocated (default for repo struct pointers)
	Existing    bool // pointer result is an existing object
	Decreases   *Clause
	Loops       map[int][]*Clause
	LoopDec     map[int]*Clause
	File        string
	Line        int
	Lets        []*LetClause // ghost lets usable in ensures
	AtCall      []AtCallClause
	Opaque      map[string]bool // pure callees whose postconditions this unit does not use
	Reveal      map[string]bool // hidden spec functions whose definition this unit uses
	Closure     int // >0: the contract is about the n-th function literal of the named function
}

type AtCallClause struct {
	Callee string
	Clause *Clause
}

type LetClause struct {
	Name string
	E    *CExpr
	Text string
}

type SpecFunc struct {
	Name    string
	Params  []Binder
	Result  ast.Expr
	Body    *CExpr // nil for uninterpreted
	Text    string
	File    string
	Line    int
	Trusted bool
	Rec     bool
	Hidden  bool // defined like rec, but the definition is only available in units that `reveal` it (uninterpreted elsewhere)
}

type SpecAxiom struct {
	Name   string
	Params []Binder
	Body   *CExpr
	Text   string
	File   string
}

type LemmaStep struct {
	Kind string // let | requires | ensures | canary
	Name string
	E    *CExpr
	Text string
	Line int
}

type Lemma struct {
	Name   string
	Params []Binder
	Steps  []LemmaStep
	File   string
	Line   int
	Props  []string // property ids served (derived from name prefix)
}

// ---------------------------------------------------------------------------------------
// expression parsing

func isSpecial(s string) bool {
	return strings.Contains(s, "==>") || strings.Contains(s, "<==>") || hasQuantWord(s)
}

func hasQuantWord(s string) bool {
	for _, w := range []string{"forall ", "exists "} {
		idx := 0
		for {
			i := strings.Index(s[idx:], w)
			if i < 0 {
				break
			}
			j := idx + i
			if j == 0 || !isIdentChar(s[j-1]) {
				return true
			}
			idx = j + len(w)
		}
	}
	return false
}

func isIdentChar(b byte) bool {
	return b == '_' || b >= 'a' && b <= 'z' || b >= 'A' && b <= 'Z' || b >= '0' && b <= '9'
}

// splitTop splits s at top-level occurrences of sep (outside parens/brackets/braces/strings).
func splitTop(s, sep string) []string {
	var parts []string
	depth := 0
	start := 0
	inStr := byte(0)
	for i := 0; i < len(s); i++ {
		ch := s[i]
		if inStr != 0 {
			if ch == '\\' && inStr != '`' {
				i++
				continue
			}
			if ch == inStr {
				inStr = 0
			}
			continue
		}
		switch ch {
		case '"', '`', '\'':
			inStr = ch
			continue
		case '(', '[', '{':
			depth++
			continue
		case ')', ']', '}':
			depth--
			continue
		}
		if depth == 0 && strings.HasPrefix(s[i:], sep) {
			// do not split "<==>" when looking for "==>"
			if sep == "==>" && i > 0 && s[i-1] == '<' {
				continue
			}
			parts = append(parts, s[start:i])
			start = i + len(sep)
			i += len(sep) - 1
		}
	}
	parts = append(parts, s[start:])
	return parts
}

func ParseCExpr(s string) (*CExpr, error) {
	s = strings.TrimSpace(s)
	if s == "" {
		return nil, fmt.Errorf("empty expression")
	}
	// quantifier prefix
	for _, q := range []string{"forall", "exists"} {
		if strings.HasPrefix(s, q+" ") {
			rest := s[len(q)+1:]
			parts := splitTop(rest, "::")
			if len(parts) < 2 {
				return nil, fmt.Errorf("quantifier without '::' in %q", s)
			}
			bindText := parts[0]
			bodyText := strings.Join(parts[1:], "::")
			var binders []Binder
			for _, b := range splitTop(bindText, ",") {
				b = strings.TrimSpace(b)
				sp := strings.IndexByte(b, ' ')
				if sp < 0 {
					return nil, fmt.Errorf("binder %q needs 'name Type'", b)
				}
				te, err := parser.ParseExpr(strings.TrimSpace(b[sp+1:]))
				if err != nil {
					return nil, fmt.Errorf("binder type %q: %v", b, err)
				}
				binders = append(binders, Binder{Name: b[:sp], Type: te})
			}
			// optional trigger: "{ trig1, trig2 } body"
			bodyText = strings.TrimSpace(bodyText)
			var trigs []*CExpr
			if strings.HasPrefix(bodyText, "{:") {
				end := strings.Index(bodyText, ":}")
				if end < 0 {
					return nil, fmt.Errorf("unterminated trigger in %q", s)
				}
				for _, t := range splitTop(bodyText[2:end], ",") {
					te, err := ParseCExpr(t)
					if err != nil {
						return nil, err
					}
					trigs = append(trigs, te)
				}
				bodyText = bodyText[end+2:]
			}
			body, err := ParseCExpr(bodyText)
			if err != nil {
				return nil, err
			}
			return &CExpr{Kind: q, Vars: binders, Body: body, Text: s, Trig: trigs}, nil
		}
	}
	if parts := splitTop(s, "<==>"); len(parts) > 1 {
		if len(parts) != 2 {
			return nil, fmt.Errorf("chained <==> in %q", s)
		}
		l, err := ParseCExpr(parts[0])
		if err != nil {
			return nil, err
		}
		r, err := ParseCExpr(parts[1])
		if err != nil {
			return nil, err
		}
		return &CExpr{Kind: "iff", L: l, R: r, Text: s}, nil
	}
	if parts := splitTop(s, "==>"); len(parts) > 1 {
		l, err := ParseCExpr(parts[0])
		if err != nil {
			return nil, err
		}
		r, err := ParseCExpr(strings.Join(parts[1:], "==>"))
		if err != nil {
			return nil, err
		}
		return &CExpr{Kind: "imp", L: l, R: r, Text: s}, nil
	}
	// plain Go expression, possibly with special parenthesised groups inside
	subs := map[string]*CExpr{}
	rewritten, err := rewriteGroups(s, subs)
	if err != nil {
		return nil, err
	}
	e, err := parser.ParseExpr(rewritten)
	if err != nil {
		return nil, fmt.Errorf("cannot parse %q: %v", s, err)
	}
	return &CExpr{Kind: "go", Go: e, Subs: subs, Text: s}, nil
}

func rewriteGroups(s string, subs map[string]*CExpr) (string, error) {
	if !isSpecial(s) {
		return s, nil
	}
	var out strings.Builder
	inStr := byte(0)
	for i := 0; i < len(s); i++ {
		ch := s[i]
		if inStr != 0 {
			out.WriteByte(ch)
			if ch == '\\' && inStr != '`' && i+1 < len(s) {
				i++
				out.WriteByte(s[i])
				continue
			}
			if ch == inStr {
				inStr = 0
			}
			continue
		}
		if ch == '"' || ch == '`' || ch == '\'' {
			inStr = ch
			out.WriteByte(ch)
			continue
		}
		if ch != '(' {
			out.WriteByte(ch)
			continue
		}
		// find matching paren
		depth := 0
		j := i
		in2 := byte(0)
		for ; j < len(s); j++ {
			c2 := s[j]
			if in2 != 0 {
				if c2 == '\\' && in2 != '`' {
					j++
					continue
				}
				if c2 == in2 {
					in2 = 0
				}
				continue
			}
			if c2 == '"' || c2 == '`' || c2 == '\'' {
				in2 = c2
				continue
			}
			if c2 == '(' {
				depth++
			}
			if c2 == ')' {
				depth--
				if depth == 0 {
					break
				}
			}
		}
		if j >= len(s) {
			return "", fmt.Errorf("unbalanced parentheses in %q", s)
		}
		inner := s[i+1 : j]
		pieces := splitTop(inner, ",")
		if t := strings.TrimSpace(inner); strings.HasPrefix(t, "forall ") || strings.HasPrefix(t, "exists ") {
			pieces = []string{inner}
		}
		out.WriteByte('(')
		for k, piece := range pieces {
			if k > 0 {
				out.WriteByte(',')
			}
			if isSpecialTop(piece) {
				sub, err := ParseCExpr(piece)
				if err != nil {
					return "", err
				}
				name := fmt.Sprintf("sub__%d", len(subs))
				subs[name] = sub
				out.WriteString(name)
			} else {
				r, err := rewriteGroups(piece, subs)
				if err != nil {
					return "", err
				}
				out.WriteString(r)
			}
		}
		out.WriteByte(')')
		i = j
	}
	return out.String(), nil
}

// isSpecialTop: the piece has a top-level ==> / <==> or starts with a quantifier.
func isSpecialTop(piece string) bool {
	t := strings.TrimSpace(piece)
	if strings.HasPrefix(t, "forall ") || strings.HasPrefix(t, "exists ") {
		return true
	}
	return len(splitTop(t, "==>")) > 1 || len(splitTop(t, "<==>")) > 1
}

func parseBinders(s string) ([]Binder, error) {
	s = strings.TrimSpace(s)
	if s == "" {
		return nil, nil
	}
	var out []Binder
	for _, b := range splitTop(s, ",") {
		b = strings.TrimSpace(b)
		sp := strings.IndexByte(b, ' ')
		if sp < 0 {
			return nil, fmt.Errorf("binder %q needs 'name Type'", b)
		}
		te, err := parser.ParseExpr(strings.TrimSpace(b[sp+1:]))
		if err != nil {
			return nil, fmt.Errorf("binder %q: %v", b, err)
		}
		out = append(out, Binder{Name: b[:sp], Type: te})
	}
	return out, nil
}

// ---------------------------------------------------------------------------------------
// contract files (//@ lines)

type rawLine struct {
	text string
	line int
}

// logicalLines joins continuation lines: a line whose first word is not a keyword continues
// the previous one.
func logicalLines(lines []rawLine, keywords map[string]bool) []rawLine {
	var out []rawLine
	for _, l := range lines {
		t := strings.TrimSpace(l.text)
		if t == "" {
			continue
		}
		w := firstWord(t)
		if keywords[w] || len(out) == 0 {
			out = append(out, rawLine{t, l.line})
		} else {
			out[len(out)-1].text += " " + t
		}
	}
	return out
}

func firstWord(s string) string {
	for i := 0; i < len(s); i++ {
		if s[i] == ' ' || s[i] == '\t' || s[i] == '(' || s[i] == ':' {
			return s[:i]
		}
	}
	return s
}

var contractKeywords = map[string]bool{"func": true, "emitted": true, "requires": true, "ensures": true, "pure": true,
	"assume-contract": true, "modifies": true, "existing": true, "decreases": true, "loop": true, "noinline": true, "let": true, "fresh": true, "at-call": true, "closure": true, "opaque": true, "reveal": true}

func splitName(t string) (name, rest string) {
	// optional "name:" prefix, name is an identifier with dots/brackets
	i := strings.Index(t, ":")
	if i > 0 && !strings.Contains(t[:i], " ") && !strings.Contains(t[:i], "(") && !strings.HasPrefix(t[i:], "::") && !strings.HasPrefix(t[i:], ":=") {
		return t[:i], strings.TrimSpace(t[i+1:])
	}
	return "", t
}

func (w *World) LoadContractFile(path string, pkgShort string) error {
	data, err := os.ReadFile(path)
	if err != nil {
		return err
	}
	var raws []rawLine
	for i, l := range strings.Split(string(data), "\n") {
		t := strings.TrimSpace(l)
		if strings.HasPrefix(t, "//@") {
			raws = append(raws, rawLine{strings.TrimPrefix(t, "//@"), i + 1})
		}
	}
	lines := logicalLines(raws, contractKeywords)
	var cur *Contract
	rel := path
	if r, err := filepath.Rel(w.Repo, path); err == nil {
		rel = r
	}
	for _, l := range lines {
		word := firstWord(l.text)
		rest := strings.TrimSpace(strings.TrimPrefix(l.text, word))
		fail := func(err error) error { return fmt.Errorf("%s:%d: %v", rel, l.line, err) }
		if word == "emitted" {
			// "emitted func ..." contracts are keyed emitted.<name>
			word = firstWord(rest)
			rest2 := strings.TrimSpace(strings.TrimPrefix(rest, word))
			if word != "func" {
				return fail(fmt.Errorf("expected 'emitted func'"))
			}
			c, err := parseContractHead(rest2, "emitted")
			if err != nil {
				return fail(err)
			}
			c.Emitted = true
			c.File, c.Line = rel, l.line
			w.Contracts[c.Key] = c
			cur = c
			continue
		}
		if word == "func" {
			c, err := parseContractHead(rest, pkgShort)
			if err != nil {
				return fail(err)
			}
			c.File, c.Line = rel, l.line
			if _, dup := w.Contracts[c.Key]; dup {
				return fail(fmt.Errorf("duplicate contract for %s", c.Key))
			}
			w.Contracts[c.Key] = c
			cur = c
			continue
		}
		if cur == nil {
			return fail(fmt.Errorf("clause before any func"))
		}
		switch word {
		case "pure":
			cur.Pure = true
		case "assume-contract":
			cur.Assume = true
		case "noinline":
			cur.NoInline = true
		case "existing":
			cur.Existing = true
		case "fresh":
			cur.Fresh = true
		case "modifies":
			for _, m := range strings.Split(rest, ",") {
				cur.Modifies = append(cur.Modifies, strings.TrimSpace(m))
			}
		case "requires", "ensures", "decreases":
			name, text := splitName(rest)
			e, err := ParseCExpr(text)
			if err != nil {
				return fail(err)
			}
			cl := &Clause{Name: name, Text: text, E: e, Line: l.line, File: rel}
			switch word {
			case "requires":
				cur.Requires = append(cur.Requires, cl)
			case "ensures":
				cur.Ensures = append(cur.Ensures, cl)
			case "decreases":
				cur.Decreases = cl
			}
		case "let":
			i := strings.Index(rest, "=")
			if i < 0 {
				return fail(fmt.Errorf("let without ="))
			}
			e, err := ParseCExpr(rest[i+1:])
			if err != nil {
				return fail(err)
			}
			cur.Lets = append(cur.Lets, &LetClause{Name: strings.TrimSpace(rest[:i]), E: e, Text: rest})
		case "closure":
			n, err := strconv.Atoi(strings.TrimSpace(rest))
			if err != nil {
				return fail(fmt.Errorf("closure ordinal: %v", err))
			}
			cur.Closure = n
		case "opaque":
			// opaque <callee>[, <callee>...]: in this unit, calls of these pure functions are used as function symbols
			// only (their postconditions are not assumed) - keeps unrelated quantified facts out of the queries
			for _, n := range strings.Split(rest, ",") {
				if n = strings.TrimSpace(n); n != "" {
					if cur.Opaque == nil {
						cur.Opaque = map[string]bool{}
					}
					cur.Opaque[n] = true
				}
			}
		case "reveal":
			// reveal <spec function>[, ...]: this unit sees the definition of these hidden spec functions
			for _, n := range strings.Split(rest, ",") {
				if n = strings.TrimPrefix(strings.TrimSpace(n), "spec."); n != "" {
					if cur.Reveal == nil {
						cur.Reveal = map[string]bool{}
					}
					cur.Reveal[n] = true
				}
			}
		case "at-call":
			// at-call <callee> requires [name:] <expr>
			f := strings.Fields(rest)
			if strings.HasPrefix(rest, "\"") {
				// at-call "P:<text with spaces>" requires ...  (the text is taken literally, as it is written in the source)
				if end := strings.Index(rest[1:], "\" requires "); end >= 0 {
					f = []string{rest[1 : 1+end], "requires", "x"}
					rest = "q" + rest[1+end+1:]
				}
			}
			if len(f) < 3 || f[1] != "requires" {
				return fail(fmt.Errorf("at-call clause needs: at-call <callee> requires <expr>"))
			}
			text := strings.TrimSpace(strings.SplitN(rest, " requires ", 2)[1])
			name, text := splitName(text)
			e, err := ParseCExpr(text)
			if err != nil {
				return fail(err)
			}
			cur.AtCall = append(cur.AtCall, AtCallClause{Callee: f[0], Clause: &Clause{Name: name, Text: text, E: e, Line: l.line, File: rel}})
		case "loop":
			// loop <n> invariant <expr> | loop <n> decreases <expr>
			f := strings.Fields(rest)
			if len(f) < 3 {
				return fail(fmt.Errorf("loop clause needs: loop <n> invariant|decreases <expr>"))
			}
			n, err := strconv.Atoi(strings.TrimSuffix(f[0], ":"))
			if err != nil {
				return fail(fmt.Errorf("loop ordinal: %v", err))
			}
			kind := f[1]
			text := strings.TrimSpace(strings.SplitN(rest, kind, 2)[1])
			name, text := splitName(text)
			e, err := ParseCExpr(text)
			if err != nil {
				return fail(err)
			}
			cl := &Clause{Name: name, Text: text, E: e, Line: l.line, File: rel}
			if cur.Loops == nil {
				cur.Loops = map[int][]*Clause{}
				cur.LoopDec = map[int]*Clause{}
			}
			if kind == "invariant" {
				cur.Loops[n] = append(cur.Loops[n], cl)
			} else if kind == "decreases" {
				cur.LoopDec[n] = cl
			} else {
				return fail(fmt.Errorf("unknown loop clause %q", kind))
			}
		default:
			return fail(fmt.Errorf("unknown clause %q", word))
		}
	}
	return nil
}

// parseContractHead parses "Name(params) (results)" or "(recv T) Name(params) (results)".
func parseContractHead(sig string, pkgShort string) (*Contract, error) {
	src := "package p\nfunc " + sig + " {}"
	f, err := parser.ParseFile(token.NewFileSet(), "", src, 0)
	if err != nil {
		return nil, fmt.Errorf("contract head %q: %v", sig, err)
	}
	fd := f.Decls[0].(*ast.FuncDecl)
	c := &Contract{}
	key := pkgShort + "."
	if fd.Recv != nil && len(fd.Recv.List) > 0 {
		r := fd.Recv.List[0]
		if len(r.Names) > 0 {
			c.RecvName = r.Names[0].Name
		}
		t := r.Type
		if s, ok := t.(*ast.StarExpr); ok {
			t = s.X
		}
		if ix, ok := t.(*ast.IndexExpr); ok {
			t = ix.X
		}
		key += t.(*ast.Ident).Name + "."
	}
	key += fd.Name.Name
	c.Key = key
	if fd.Type.Params != nil {
		for _, p := range fd.Type.Params.List {
			if len(p.Names) == 0 {
				c.ParamNames = append(c.ParamNames, "_")
			}
			for _, n := range p.Names {
				c.ParamNames = append(c.ParamNames, n.Name)
			}
		}
	}
	if fd.Type.Results != nil {
		for _, p := range fd.Type.Results.List {
			if len(p.Names) == 0 {
				c.ResultNames = append(c.ResultNames, fmt.Sprintf("result%d", len(c.ResultNames)))
			}
			for _, n := range p.Names {
				c.ResultNames = append(c.ResultNames, n.Name)
			}
		}
	}
	return c, nil
}

// shortKey returns the contract key of a function object: pkgname.Func or pkgname.Type.Method.
func shortKey(f *types.Func) string {
	pkg := ""
	if f.Pkg() != nil {
		pkg = f.Pkg().Name()
		if f.Pkg().Path() == modPath+"/http" {
			pkg = "sebufhttp"
		}
	}
	sig := f.Type().(*types.Signature)
	if sig.Recv() != nil {
		t := sig.Recv().Type()
		if p, ok := t.(*types.Pointer); ok {
			t = p.Elem()
		}
		if n, ok := types.Unalias(t).(*types.Named); ok {
			return pkg + "." + n.Obj().Name() + "." + f.Name()
		}
		return pkg + ".?." + f.Name()
	}
	return pkg + "." + f.Name()
}

// LoadRepoContracts reads every zz_verif_contracts*.go under the repository.
func (w *World) LoadRepoContracts() error {
	var files []string
	for path := range w.RepoPaths {
		p := w.ByPath[path]
		if p == nil || len(p.GoFiles) == 0 && len(p.CompiledGoFiles) == 0 {
			continue
		}
		dir := ""
		if len(p.GoFiles) > 0 {
			dir = filepath.Dir(p.GoFiles[0])
		} else {
			dir = filepath.Dir(p.CompiledGoFiles[0])
		}
		if !strings.HasPrefix(dir, w.Repo) {
			continue
		}
		ms, _ := filepath.Glob(filepath.Join(dir, "zz_verif_contracts*.go"))
		files = append(files, ms...)
	}
	sort.Strings(files)
	for _, f := range files {
		dir := filepath.Dir(f)
		pkgShort := filepath.Base(dir)
		if strings.HasSuffix(dir, "/http") && !strings.Contains(dir, "internal") {
			pkgShort = "sebufhttp"
		}
		// the package clause decides
		data, _ := os.ReadFile(f)
		for _, l := range strings.Split(string(data), "\n") {
			if strings.HasPrefix(l, "package ") {
				n := strings.TrimSpace(strings.TrimPrefix(l, "package "))
				if n != "http" {
					pkgShort = n
				}
			}
		}
		if err := w.LoadContractFile(f, pkgShort); err != nil {
			return err
		}
	}
	return nil
}

// ---------------------------------------------------------------------------------------
// spec files

var specKeywords = map[string]bool{"spec": true, "uninterp": true, "axiom": true, "lemma": true, "requires": true,
	"ensures": true, "let": true, "canary": true, "rec": true, "hidden": true, "trusted-spec": true, "witness": true, "call": true}

func (w *World) LoadSpecDir(dir string) error {
	files, _ := filepath.Glob(filepath.Join(dir, "*.spec"))
	more, _ := filepath.Glob(filepath.Join(dir, "trusted", "*.spec"))
	files = append(more, files...)
	for _, f := range files {
		if err := w.LoadSpecFile(f); err != nil {
			return err
		}
	}
	return nil
}

func (w *World) LoadSpecFile(path string) error {
	data, err := os.ReadFile(path)
	if err != nil {
		return err
	}
	var raws []rawLine
	for i, l := range strings.Split(string(data), "\n") {
		if idx := strings.Index(l, "#"); idx >= 0 && !strings.Contains(l[:idx], `"`) {
			l = l[:idx]
		}
		raws = append(raws, rawLine{l, i + 1})
	}
	lines := logicalLines(raws, specKeywords)
	trusted := strings.Contains(path, "/trusted/")
	var cur *Lemma
	base := filepath.Base(path)
	for _, l := range lines {
		word := firstWord(l.text)
		rest := strings.TrimSpace(strings.TrimPrefix(l.text, word))
		fail := func(err error) error { return fmt.Errorf("%s:%d: %v", base, l.line, err) }
		switch word {
		case "spec", "rec", "hidden":
			// spec Name(params) T = expr
			eqi := indexTop(rest, " = ")
			if eqi < 0 {
				return fail(fmt.Errorf("spec without ' = '"))
			}
			head, body := rest[:eqi], rest[eqi+3:]
			name, params, result, err := parseSpecHead(head)
			if err != nil {
				return fail(err)
			}
			e, err := ParseCExpr(body)
			if err != nil {
				return fail(err)
			}
			w.Specs[name] = &SpecFunc{Name: name, Params: params, Result: result, Body: e, Text: l.text, File: base, Line: l.line, Trusted: trusted, Rec: word == "rec" || word == "hidden", Hidden: word == "hidden"}
			cur = nil
		case "uninterp":
			name, params, result, err := parseSpecHead(rest)
			if err != nil {
				return fail(err)
			}
			w.Specs[name] = &SpecFunc{Name: name, Params: params, Result: result, Text: l.text, File: base, Line: l.line, Trusted: trusted}
			cur = nil
		case "axiom":
			// axiom name(params) :: expr
			i := indexTop(rest, "::")
			if i < 0 {
				return fail(fmt.Errorf("axiom without '::'"))
			}
			head := strings.TrimSpace(rest[:i])
			po := strings.Index(head, "(")
			if po < 0 || !strings.HasSuffix(head, ")") {
				return fail(fmt.Errorf("axiom head %q", head))
			}
			params, err := parseBinders(head[po+1 : len(head)-1])
			if err != nil {
				return fail(err)
			}
			e, err := ParseCExpr(rest[i+2:])
			if err != nil {
				return fail(err)
			}
			w.Axioms = append(w.Axioms, &SpecAxiom{Name: head[:po], Params: params, Body: e, Text: l.text, File: base})
			cur = nil
		case "lemma":
			po := strings.Index(rest, "(")
			if po < 0 || !strings.HasSuffix(rest, ")") {
				return fail(fmt.Errorf("lemma head %q", rest))
			}
			params, err := parseBinders(rest[po+1 : len(rest)-1])
			if err != nil {
				return fail(err)
			}
			cur = &Lemma{Name: strings.TrimSpace(rest[:po]), Params: params, File: base, Line: l.line}
			if _, dup := w.Lemmas[cur.Name]; dup {
				return fail(fmt.Errorf("duplicate lemma %s", cur.Name))
			}
			w.Lemmas[cur.Name] = cur
			w.LemmaOrd = append(w.LemmaOrd, cur.Name)
		case "requires", "ensures", "canary":
			if cur == nil {
				return fail(fmt.Errorf("%s outside lemma", word))
			}
			name, text := splitName(rest)
			e, err := ParseCExpr(text)
			if err != nil {
				return fail(err)
			}
			cur.Steps = append(cur.Steps, LemmaStep{Kind: word, Name: name, E: e, Text: text, Line: l.line})
		case "call":
			if cur == nil {
				return fail(fmt.Errorf("call outside lemma"))
			}
			e, err := ParseCExpr(rest)
			if err != nil {
				return fail(err)
			}
			cur.Steps = append(cur.Steps, LemmaStep{Kind: "call", E: e, Text: rest, Line: l.line})
		case "let", "witness":
			if cur == nil {
				return fail(fmt.Errorf("let outside lemma"))
			}
			i := strings.Index(rest, "=")
			if i < 0 {
				return fail(fmt.Errorf("let without ="))
			}
			e, err := ParseCExpr(rest[i+1:])
			if err != nil {
				return fail(err)
			}
			cur.Steps = append(cur.Steps, LemmaStep{Kind: word, Name: strings.TrimSpace(rest[:i]), E: e, Text: rest, Line: l.line})
		default:
			return fail(fmt.Errorf("unknown keyword %q", word))
		}
	}
	return nil
}

func indexTop(s, sep string) int {
	parts := splitTop(s, sep)
	if len(parts) < 2 {
		return -1
	}
	return len(parts[0])
}

func parseSpecHead(head string) (name string, params []Binder, result ast.Expr, err error) {
	head = strings.TrimSpace(head)
	po := strings.Index(head, "(")
	if po < 0 {
		return "", nil, nil, fmt.Errorf("spec head %q", head)
	}
	// find matching close paren
	depth := 0
	pc := -1
	for i := po; i < len(head); i++ {
		if head[i] == '(' {
			depth++
		}
		if head[i] == ')' {
			depth--
			if depth == 0 {
				pc = i
				break
			}
		}
	}
	if pc < 0 {
		return "", nil, nil, fmt.Errorf("spec head %q", head)
	}
	name = strings.TrimSpace(head[:po])
	params, err = parseBinders(head[po+1 : pc])
	if err != nil {
		return
	}
	rt := strings.TrimSpace(head[pc+1:])
	if rt == "" {
		rt = "bool"
	}
	result, err = parser.ParseExpr(rt)
	return
}

// ResolveType turns a type expression from a contract/spec into a types.Type.
func (w *World) ResolveType(e ast.Expr, local *types.Package) (types.Type, error) {
	switch t := e.(type) {
	case *ast.Ident:
		if b := types.Universe.Lookup(t.Name); b != nil {
			if tn, ok := b.(*types.TypeName); ok {
				return tn.Type(), nil
			}
		}
		if local != nil {
			if tn, ok := local.Scope().Lookup(t.Name).(*types.TypeName); ok {
				return tn.Type(), nil
			}
		}
		return nil, fmt.Errorf("unknown type %s", t.Name)
	case *ast.StarExpr:
		el, err := w.ResolveType(t.X, local)
		if err != nil {
			return nil, err
		}
		return types.NewPointer(el), nil
	case *ast.ArrayType:
		el, err := w.ResolveType(t.Elt, local)
		if err != nil {
			return nil, err
		}
		return types.NewSlice(el), nil
	case *ast.MapType:
		k, err := w.ResolveType(t.Key, local)
		if err != nil {
			return nil, err
		}
		v, err := w.ResolveType(t.Value, local)
		if err != nil {
			return nil, err
		}
		return types.NewMap(k, v), nil
	case *ast.SelectorExpr:
		pk, ok := t.X.(*ast.Ident)
		if !ok {
			return nil, fmt.Errorf("bad qualified type")
		}
		pkg := w.ByName[pk.Name]
		if pkg == nil {
			return nil, fmt.Errorf("unknown package %s in type", pk.Name)
		}
		tn, ok := pkg.Scope().Lookup(t.Sel.Name).(*types.TypeName)
		if !ok {
			return nil, fmt.Errorf("unknown type %s.%s", pk.Name, t.Sel.Name)
		}
		return tn.Type(), nil
	case *ast.InterfaceType:
		return types.NewInterfaceType(nil, nil), nil
	case *ast.ParenExpr:
		return w.ResolveType(t.X, local)
	}
	return nil, fmt.Errorf("unsupported type expression %T", e)
}
