package main

// C05 replay family (bounded): each annotated construct is placed in each context (top-level response, singular
// child of an unannotated parent, repeated element, map value, plain oneof variant); the emitted Go server
// encodes a response holding it, and the JSON form of the annotated field is compared with the documented one.

import (
	"fmt"
	"os"
	"path/filepath"
	"regexp"
	"sort"
	"strings"
)

func c05Schema() *Schema {
	f := protoFile("d/v1/d.proto", "d.v1", "example.com/d/v1;dv1")
	ts := ".google.protobuf.Timestamp"
	addEnum(f, M{"name": "Color", "value": []any{M{"name": "COLOR_UNSPECIFIED", "number": 0}, M{"name": "COLOR_RED", "number": 1, "options": M{"[sebuf.http.enum_value]": "red"}}}})
	addMessage(f, message("Counter", withOpt(field("n", "int64"), "sebuf.http.int64_encoding", "INT64_ENCODING_NUMBER"), field("label", "string")))
	addMessage(f, message("Paint", enumField("color", ".d.v1.Color"), field("label", "string")))
	addMessage(f, message("Stamp", withOpt(msgField("at", ts), "sebuf.http.timestamp_format", "TIMESTAMP_FORMAT_UNIX_MILLIS"), field("label", "string")))
	addMessage(f, message("Blob", withOpt(field("data", "bytes"), "sebuf.http.bytes_encoding", "BYTES_ENCODING_HEX"), field("label", "string")))
	nick := message("Nick", optionalField(withOpt(field("nick", "string"), "sebuf.http.nullable", true), 0), field("label", "string"))
	nick["oneof_decl"] = []any{M{"name": "_nick"}}
	addMessage(f, nick)
	addMessage(f, message("Req", field("id", "string")))
	var methods []M
	for _, c := range []string{"Counter", "Paint", "Stamp", "Blob", "Nick"} {
		full := ".d.v1." + c
		w := message("Wrap"+c, msgField("child", full), repeated(msgField("list", full)), field("label", "string"))
		v := msgField("variant", full)
		v["oneof_index"] = 0
		o := field("other", "string")
		o["oneof_index"] = 0
		fs := w["field"].([]any)
		v["number"], o["number"] = len(fs)+1, len(fs)+2
		w["field"] = append(fs, v, o)
		w["oneof_decl"] = []any{M{"name": "pick"}}
		addMapField("d.v1", w, "by_key", msgField("value", full), len(fs)+3)
		addMessage(f, w)
		methods = append(methods, method("Top"+c, ".d.v1.Req", full), method("Wrapped"+c, ".d.v1.Req", ".d.v1.Wrap"+c))
	}
	addService(f, service("D", methods...))
	return &Schema{Files: []map[string]any{f}, Generate: []string{"d/v1/d.proto"}}
}

const c05TestSrc = `package dv1

import (
	"context"
	"encoding/json"
	"fmt"
	"io"
	"net/http"
	"net/http/httptest"
	"strings"
	"testing"

	"google.golang.org/protobuf/types/known/timestamppb"
)

type srv struct{}

func counter() *Counter { return &Counter{N: 9007199254740993, Label: "l"} }
func paint() *Paint     { return &Paint{Color: Color_COLOR_RED, Label: "l"} }
func stamp() *Stamp     { return &Stamp{At: timestamppb.New(timeAt()), Label: "l"} }
func blob() *Blob       { return &Blob{Data: []byte{0xde, 0xad}, Label: "l"} }
func nick() *Nick       { return &Nick{Label: "l"} }

func (srv) TopCounter(context.Context, *Req) (*Counter, error) { return counter(), nil }
func (srv) TopPaint(context.Context, *Req) (*Paint, error)     { return paint(), nil }
func (srv) TopStamp(context.Context, *Req) (*Stamp, error)     { return stamp(), nil }
func (srv) TopBlob(context.Context, *Req) (*Blob, error)       { return blob(), nil }
func (srv) TopNick(context.Context, *Req) (*Nick, error)       { return nick(), nil }
func (srv) WrappedCounter(context.Context, *Req) (*WrapCounter, error) {
	return &WrapCounter{Child: counter(), List: []*Counter{counter()}, Pick: &WrapCounter_Variant{Variant: counter()}, ByKey: map[string]*Counter{"k": counter()}, Label: "w"}, nil
}
func (srv) WrappedPaint(context.Context, *Req) (*WrapPaint, error) {
	return &WrapPaint{Child: paint(), List: []*Paint{paint()}, Pick: &WrapPaint_Variant{Variant: paint()}, ByKey: map[string]*Paint{"k": paint()}, Label: "w"}, nil
}
func (srv) WrappedStamp(context.Context, *Req) (*WrapStamp, error) {
	return &WrapStamp{Child: stamp(), List: []*Stamp{stamp()}, Pick: &WrapStamp_Variant{Variant: stamp()}, ByKey: map[string]*Stamp{"k": stamp()}, Label: "w"}, nil
}
func (srv) WrappedBlob(context.Context, *Req) (*WrapBlob, error) {
	return &WrapBlob{Child: blob(), List: []*Blob{blob()}, Pick: &WrapBlob_Variant{Variant: blob()}, ByKey: map[string]*Blob{"k": blob()}, Label: "w"}, nil
}
func (srv) WrappedNick(context.Context, *Req) (*WrapNick, error) {
	return &WrapNick{Child: nick(), List: []*Nick{nick()}, Pick: &WrapNick_Variant{Variant: nick()}, ByKey: map[string]*Nick{"k": nick()}, Label: "w"}, nil
}

// the documented form of the annotated field of each construct
var expect = map[string]struct{ key, want string }{
	"Counter": {"n", "9007199254740993"},
	"Paint":   {"color", "\"red\""},
	"Stamp":   {"at", "1700000000123"},
	"Blob":    {"data", "\"dead\""},
	"Nick":    {"nick", "null"},
}

func TestC05Family(t *testing.T) {
	mux := http.NewServeMux()
	if err := RegisterDServer(srv{}, WithMux(mux)); err != nil {
		t.Fatal(err)
	}
	hs := httptest.NewServer(mux)
	defer hs.Close()
	fetch := func(rpc string) map[string]json.RawMessage {
		resp, err := http.Post(hs.URL+"/dv1/"+rpc, "application/json", strings.NewReader("{}"))
		if err != nil {
			fmt.Printf("C05FAIL construct=%s context=transport detail=%v\n", rpc, err)
			return nil
		}
		defer resp.Body.Close()
		body, _ := io.ReadAll(resp.Body)
		fmt.Printf("WIRE rpc=%s status=%d json=%s\n", rpc, resp.StatusCode, string(body))
		var m map[string]json.RawMessage
		if resp.StatusCode != 200 || json.Unmarshal(body, &m) != nil {
			fmt.Printf("C05FAIL construct=%s context=transport detail=status %d body %s\n", rpc, resp.StatusCode, string(body))
			return nil
		}
		return m
	}
	check := func(construct, ctx string, obj json.RawMessage) {
		var m map[string]json.RawMessage
		if json.Unmarshal(obj, &m) != nil {
			fmt.Printf("C05FAIL construct=%s context=%s detail=not an object: %s\n", construct, ctx, string(obj))
			return
		}
		e := expect[construct]
		got, present := m[e.key]
		if !present || strings.TrimSpace(string(got)) != e.want {
			fmt.Printf("C05FAIL construct=%s context=%s detail=field %s is %s (present=%v), documented form %s\n", construct, ctx, e.key, string(got), present, e.want)
		}
		if string(m["label"]) != "\"l\"" {
			fmt.Printf("C05FAIL construct=%s context=%s detail=unannotated sibling label is %s\n", construct, ctx, string(m["label"]))
		}
	}
	for c := range expect {
		if top := fetch("top_" + strings.ToLower(c)); top != nil {
			raw, _ := json.Marshal(top)
			check(c, "top-level", raw)
		}
		w := fetch("wrapped_" + strings.ToLower(c))
		if w == nil {
			continue
		}
		check(c, "singular-child", w["child"])
		var list []json.RawMessage
		json.Unmarshal(w["list"], &list)
		if len(list) == 1 {
			check(c, "repeated-element", list[0])
		} else {
			fmt.Printf("C05FAIL construct=%s context=repeated-element detail=list is %s\n", c, string(w["list"]))
		}
		var byKey map[string]json.RawMessage
		json.Unmarshal(w["byKey"], &byKey)
		if v, ok := byKey["k"]; ok {
			check(c, "map-value", v)
		} else {
			fmt.Printf("C05FAIL construct=%s context=map-value detail=byKey is %s\n", c, string(w["byKey"]))
		}
		check(c, "oneof-variant", w["variant"])
		if string(w["label"]) != "\"w\"" {
			fmt.Printf("C05FAIL construct=%s context=parent detail=label is %s\n", c, string(w["label"]))
		}
	}
}
`

const c05TimeSrc = `package dv1

import "time"

func timeAt() time.Time { return time.Unix(1700000000, 123000000).UTC() }
`

type c05Fail struct{ Construct, Context, Line string }

func runC05Family() (fails []c05Fail, output string, err error) {
	pkgDir, _, err := EmitPackage(c05Schema(), "c05", []string{"protoc-gen-go-http"}, nil)
	if err != nil {
		return nil, "", err
	}
	os.WriteFile(filepath.Join(pkgDir, "zz_c05_test.go"), []byte(c05TestSrc), 0o644)
	os.WriteFile(filepath.Join(pkgDir, "zz_c05_time_test.go"), []byte(c05TimeSrc), 0o644)
	out, rerr := runCmd(pkgDir, nil, "go", "test", "-v", "-vet=off", "-count=1", "-timeout", "120s", "-run", "TestC05Family", ".")
	text := string(out)
	if rerr != nil {
		text += "\n" + rerr.Error()
	}
	re := regexp.MustCompile(`(?m)^C05FAIL construct=(\S+) context=(\S+) detail=.*$`)
	for _, m := range re.FindAllStringSubmatch(text, -1) {
		fails = append(fails, c05Fail{m[1], m[2], m[0]})
	}
	if rerr != nil && len(fails) == 0 && !strings.Contains(text, "ok  ") {
		return nil, text, fmt.Errorf("the package does not build or the test crashed: %s", firstLines(text, 12))
	}
	sort.Slice(fails, func(i, j int) bool { return fails[i].Construct+fails[i].Context < fails[j].Construct+fails[j].Context })
	return fails, text, nil
}

func init() {
	debugCmds["c05family"] = func(args []string) int {
		fails, out, err := runC05Family()
		if err != nil {
			fmt.Println("error:", err)
			return 1
		}
		for _, f := range fails {
			fmt.Println(f.Line)
		}
		fmt.Println(len(fails), "failures")
		if len(args) > 0 {
			fmt.Println(out)
		}
		return 0
	}
}

func init() {
	class := func(f c05Fail) string {
		if f.Context == "top-level" {
			return "top-level@" + f.Construct
		}
		if f.Context == "transport" || f.Context == "parent" {
			return f.Context + "@" + f.Construct
		}
		return "annotation-lost-at-depth@" + f.Construct
	}
	boundedChecks["c05-depth"] = func(w *World, seed int64) map[string]any {
		fails, _, err := runC05Family()
		out := map[string]any{"name": "c05-depth", "bounded": true, "bound": "5 annotated constructs (int64 NUMBER, enum custom value, timestamp UNIX_MILLIS, bytes HEX, nullable) x 5 contexts (top-level, singular child, repeated element, map value, oneof variant), one value each, emitted Go server over httptest"}
		if err != nil {
			out["status"] = "error: " + err.Error()
			return out
		}
		by := map[string][]string{}
		for _, f := range fails {
			by[class(f)] = append(by[class(f)], f.Context)
		}
		var ks []string
		for k := range by {
			ks = append(ks, k)
		}
		sort.Strings(ks)
		var fl []map[string]any
		for _, k := range ks {
			fl = append(fl, map[string]any{"name": "C05.family." + k, "case": strings.Join(by[k], ", "), "observed": "documented form not on the wire in contexts: " + strings.Join(by[k], ", "), "parameter": ""})
		}
		out["failures"] = fl
		out["status"] = "ran"
		return out
	}
	replayers["c05-depth"] = func(w *World, v violation) map[string]any {
		fails, _, err := runC05Family()
		res := map[string]any{}
		if err != nil {
			res["confirmed"] = true
			res["reason"] = err.Error()
			return res
		}
		kf, _ := loadKnownFindings()
		known := map[string]bool{}
		for _, k := range kf {
			if k.Property == "C05" && k.Status == "known" {
				known[strings.TrimPrefix(k.Obligation, "C05.family.")] = true
			}
		}
		var fresh []string
		for _, f := range fails {
			if !known[class(f)] {
				fresh = append(fresh, f.Line)
			}
		}
		res["confirmed"] = len(fresh) > 0
		if len(fresh) > 8 {
			fresh = fresh[:8]
		}
		res["deviations_not_listed_as_known"] = fresh
		if len(fresh) == 0 {
			res["reason"] = "apart from the recorded known findings every annotated field of the family has its documented JSON form"
		}
		return res
	}
}
