package main

import (
	"path/filepath"
	"go/ast"
	"context"
	"fmt"
	"os"
	"os/exec"
	"sort"
	"strings"
	"sync"
	"time"
)

var debugCmds = map[string]func(args []string) int{}

func dispatchExtra(cmd string, args []string) bool {
	if f, ok := debugCmds[cmd]; ok {
		code := f(args)
		cleanupScratch()
		os.Exit(code)
	}
	switch cmd {
	case "check":
		code := cmdCheck(args)
		cleanupScratch()
		os.Exit(code)
	case "replay":
		code := cmdReplay(args)
		cleanupScratch()
		os.Exit(code)
	case "gen":
		code := cmdGen(args)
		cleanupScratch()
		os.Exit(code)
	case "selftest":
		code := cmdSelftest(args)
		cleanupScratch()
		os.Exit(code)
	}
	return false
}

// runLimited runs a command with a wall-clock limit and an address-space limit.
func runLimited(cmd *exec.Cmd) error {
	ctx, cancel := context.WithTimeout(context.Background(), 90*time.Second)
	defer cancel()
	// re-wrap through sh to apply ulimit -v (kB); Go binaries need a generous virtual size
	argv := append([]string{"-c", `ulimit -v 8000000; exec "$0" "$@"`, cmd.Path}, cmd.Args[1:]...)
	c := exec.CommandContext(ctx, "/bin/sh", argv...)
	c.Stdin, c.Stdout, c.Stderr, c.Env, c.Dir = cmd.Stdin, cmd.Stdout, cmd.Stderr, cmd.Env, cmd.Dir
	err := c.Run()
	if ctx.Err() != nil {
		return fmt.Errorf("timed out after 90s")
	}
	return err
}

func cmdSelftest(args []string) int {
	fmt.Println("selftest: see /verif/selftest/run.sh")
	return 0
}

func init() {
	debugCmds["c12family"] = func(args []string) int {
		runs, devs, err := runC12Family(nil)
		fmt.Println("runs:", runs, "err:", err)
		for _, d := range devs {
			fmt.Printf("%-50s %-12s %-22s %s\n", d.Rule, d.Placement, d.Plugin, d.Observed)
		}
		return 0
	}
}

func init() {
	debugCmds["emitted"] = func(args []string) int {
		w, err := LoadWorld()
		if err != nil {
			fmt.Println(err)
			return 1
		}
		if err := w.LoadEmitted(); err != nil {
			fmt.Println("emitted:", err)
			return 1
		}
		fmt.Println("emitted package at", w.EmittedDir)
		n := 0
		for _, k := range w.sortedFuncNames() {
			if w.EmittedPaths[w.Funcs[k].Obj.Pkg().Path()] {
				n++
				if len(args) > 0 {
					fmt.Println(" ", k)
				}
			}
		}
		fmt.Println(n, "functions")
		if len(args) > 1 {
			// keep a copy for inspection
			runCmd("/", nil, "cp", "-r", w.EmittedDir, args[1])
			if w.EmittedClient != nil && len(w.EmittedClient.GoFiles) > 0 {
				runCmd("/", nil, "cp", "-r", filepath.Dir(w.EmittedClient.GoFiles[0]), args[1]+"_client")
			}
		}
		return 0
	}
}

func init() {
	debugCmds["sweep"] = func(args []string) int {
		// govc sweep <pkg>... : zero-annotation bounds sweep (index, slice, type assertion, explicit panic) of every function
		w := loadAll()
		res := w.boundsSweep(args, 10*time.Second)
		bad := 0
		for _, r := range res {
			if !printUnit(r, false) {
				bad++
			}
		}
		fmt.Printf("sweep: %d functions, %d with undischarged obligations\n", len(res), bad)
		return 0
	}
	debugCmds["structural"] = func(args []string) int {
		w, err := LoadWorld()
		if err != nil {
			fmt.Println(err)
			return 1
		}
		w.LoadRepoContracts()
		for _, a := range args {
			if len(a) > 8 && a[:8] == "emitted." {
				if err := w.LoadEmitted(); err != nil {
					fmt.Println("emitted:", err)
					return 1
				}
			}
			for _, r := range runStructural(w, a) {
				fmt.Printf("%-8s %s\n   %s\n", r.Status, r.Name, r.Text)
				if r.Raw != "" {
					fmt.Println("   ->", r.Raw)
				}
			}
		}
		return 0
	}
}

// boundsSweep verifies every function of the named repository packages in bounds mode (no annotation needed:
// a function without contract is checked for all argument values).
func (w *World) boundsSweep(pkgs []string, timeout time.Duration) []*UnitResult {
	want := map[string]bool{}
	for _, p := range pkgs {
		want[p] = true
	}
	var keys []string
	for full, fi := range w.Funcs {
		if fi.Decl.Body == nil || fi.Obj.Pkg() == nil || !want[fi.Obj.Pkg().Name()] || !strings.HasPrefix(fi.Obj.Pkg().Path(), modPath) {
			continue
		}
		keys = append(keys, full)
	}
	// an unexported helper without a contract that has callers among the swept functions is checked where it is called
	// (inlined, with the caller's guards in force) instead of on its own for all arguments: extracting such a helper from a
	// guarded piece of code must not create an obligation the original code did not have
	edges := w.callEdges()
	called := map[string]bool{}
	for from, tos := range edges {
		if fi := w.Funcs[from]; fi == nil || fi.Obj.Pkg() == nil || !want[fi.Obj.Pkg().Name()] {
			continue
		}
		for to := range tos {
			if to != from {
				called[to] = true
			}
		}
	}
	inContext := map[string]bool{}
	var standalone []string
	for _, k := range keys {
		fi := w.Funcs[k]
		if !fi.Obj.Exported() && called[k] && w.contractFor(fi) == nil && !w.onCallCycle(k) && w.smallHelper(fi) {
			inContext[shortKey(fi.Obj)] = true
			continue
		}
		standalone = append(standalone, k)
	}
	keys = standalone
	sort.Strings(keys)
	out := make([]*UnitResult, len(keys))
	sem := make(chan struct{}, 8)
	var wg sync.WaitGroup
	for i, k := range keys {
		i, fi := i, w.Funcs[k]
		wg.Add(1)
		go func() {
			defer wg.Done()
			sem <- struct{}{}
			defer func() { <-sem }()
			out[i] = w.VerifyFunc(fi, w.contractFor(fi), VerifyOpts{Bounds: true, Timeout: timeout,
				Only: func(n string) bool {
					if i := strings.LastIndex(n, "@"); i >= 0 && strings.Contains(n[i:], ":") {
						// a site inside an inlined callee: the callee is swept on its own, for all arguments -- unless it
						// is one of the helpers checked in context
						callee := n[i+1 : i+1+strings.Index(n[i+1:], ":")]
						if !inContext[fi.Obj.Pkg().Name()+"."+callee] {
							return false
						}
					}
					return strings.Contains(n, "#nopanic:") || strings.Contains(n, ".requires[bounds]")
				}})
		}()
	}
	wg.Wait()
	return out
}


// smallHelper: a function simple enough to be inlined at every call site (no loops, no function literals, short).
func (w *World) smallHelper(fi *FuncInfo) bool {
	if fi.Decl.Body == nil || fi.Decl.Recv != nil {
		return false
	}
	ok := true
	n := 0
	ast.Inspect(fi.Decl.Body, func(nd ast.Node) bool {
		switch nd.(type) {
		case *ast.ForStmt, *ast.RangeStmt, *ast.FuncLit, *ast.GoStmt, *ast.DeferStmt:
			ok = false
		case ast.Stmt:
			n++
		}
		return ok
	})
	return ok && n <= 12
}
