package main

// Unescaped allocations: an object the unit under verification allocated itself, whose reference has so far been kept
// in its own locals (never passed to a call, never stored into the heap, no function literal created), cannot be
// reached by a callee. A call that forgets heap cells (modifies *, static write set, no contract) therefore leaves the
// cells of such objects as they are.

import "strings"

// escapeIn: every private reference mentioned by the term has left the unit's locals.
func (ex *Exec) escapeIn(p *Path, term string) {
	if len(p.private) == 0 {
		return
	}
	for r := range p.private {
		if strings.Contains(term, r) {
			delete(p.private, r)
		}
	}
}

func (ex *Exec) escapeArgs(p *Path, recv *Value, args []Value) {
	if len(p.private) == 0 {
		return
	}
	if recv != nil {
		ex.escapeIn(p, recv.T)
	}
	for _, a := range args {
		ex.escapeIn(p, a.T)
	}
}

// keepPrivate records the cells of the private objects; the returned function re-asserts them on the heap as it is
// after the callee's writes were forgotten.
func (ex *Exec) keepPrivate(p *Path) func() {
	if len(p.private) == 0 || p.noPrivate {
		return func() {}
	}
	type cell struct{ key, ref, old, sort string }
	var cells []cell
	for k, t := range p.heap {
		if !ex.isMutableKey(k) {
			continue
		}
		s := ex.sortOfHeapTerm(t)
		if s == "" || !strings.HasPrefix(s, "(Array Ref ") {
			continue
		}
		for r := range p.private {
			cells = append(cells, cell{k, r, "(select " + t + " " + r + ")", s})
		}
	}
	return func() {
		if len(cells) > 0 {
			ex.c.Trust("an object allocated by the function under verification whose reference never left its locals is not changed by a callee")
		}
		for _, c := range cells {
			cur, ok := p.heap[c.key]
			if !ok {
				es := strings.TrimSuffix(strings.TrimPrefix(c.sort, "(Array Ref "), ")")
				cur = ex.heapArr(p, c.key, es)
			}
			if cur == "" {
				continue
			}
			p.Assume("(= (select " + cur + " " + c.ref + ") " + c.old + ")")
		}
	}
}
