package main

// C01 replay family (bounded): the Go client and the Go server emitted by the working-tree plugins for one
// service are compiled into one package and driven against each other over net/http/httptest: every verb,
// every path/query scalar kind, body shapes, three content types, boundary values. A member fails when the
// handler does not see a request equal to the one passed to the client, or the caller does not get the
// response the handler returned.

import (
	"fmt"
	"os"
	"path/filepath"
	"regexp"
	"sort"
	"strings"
)

func c01Schema() *Schema {
	f := protoFile("e2e/v1/e2e.proto", "e2e.v1", "example.com/e2e/v1;e2ev1")
	q := func(name, kind string) M { return withOpt(field(name, kind), "sebuf.http.query", M{"name": name}) }
	addMessage(f, message("Scalars", field("s", "string"), field("i32", "int32"),
		q("i64", "int64"), q("u32", "uint32"), q("u64", "uint64"), q("b", "bool"), q("f", "float"), q("d", "double"),
		q("si32", "sint32"), q("sf64", "sfixed64"), q("fx32", "fixed32"), q("text", "string")))
	addMessage(f, message("Echo", msgField("got", ".e2e.v1.Scalars")))
	inner := message("Inner", field("note", "string"), field("n", "int64"))
	addMessage(f, inner)
	body := message("Body", field("id", "string"), field("big", "int64"), field("text", "string"),
		repeated(field("tags", "string")), msgField("inner", ".e2e.v1.Inner"),
		optionalField(field("opt", "string"), 1), field("blob", "bytes"), enumField("kind", ".e2e.v1.Kind"), field("d", "double"),
		field("ubig", "uint64"), repeated(msgField("items", ".e2e.v1.Inner")))
	a := field("a", "string")
	a["oneof_index"] = 0
	b := field("b", "int32")
	b["oneof_index"] = 0
	fs := body["field"].([]any)
	a["number"], b["number"] = len(fs)+1, len(fs)+2
	body["field"] = append(fs, a, b)
	body["oneof_decl"] = []any{M{"name": "choice"}, M{"name": "_opt"}}
	addMapField("e2e.v1", body, "counts", field("value", "int32"), len(fs)+3)
	addMessage(f, body)
	addEnum(f, M{"name": "Kind", "value": []any{M{"name": "KIND_UNSPECIFIED", "number": 0}, M{"name": "KIND_A", "number": 1}, M{"name": "KIND_B", "number": 2}}})
	svc := service("E2E",
		cfgMethod("GetAll", ".e2e.v1.Scalars", ".e2e.v1.Echo", "GET", "/g/{s}/{i32}"),
		cfgMethod("DelAll", ".e2e.v1.Scalars", ".e2e.v1.Echo", "DELETE", "/d/{s}/{i32}"),
		cfgMethod("Post", ".e2e.v1.Body", ".e2e.v1.Body", "POST", "/p/{id}"),
		cfgMethod("Put", ".e2e.v1.Body", ".e2e.v1.Body", "PUT", "/u/{id}"),
		cfgMethod("Patch", ".e2e.v1.Body", ".e2e.v1.Body", "PATCH", "/pa/{id}"),
		cfgMethod("PostNoVars", ".e2e.v1.Body", ".e2e.v1.Body", "POST", "/plain"),
		method("Default", ".e2e.v1.Body", ".e2e.v1.Body"))
	svc["options"] = M{"[sebuf.http.service_config]": M{"base_path": "/api/v1"}}
	addService(f, svc)
	return &Schema{Files: []map[string]any{f}, Generate: []string{"e2e/v1/e2e.proto"}}
}

const c01TestSrc = `package e2ev1

import (
	"context"
	"fmt"
	"math"
	"net/http"
	"net/http/httptest"
	"testing"

	"google.golang.org/protobuf/proto"
)

type echoServer struct {
	lastScalars *Scalars
	lastBody    *Body
	calls       int
	which       string
}

func (s *echoServer) GetAll(_ context.Context, r *Scalars) (*Echo, error) { s.lastScalars, s.which = r, "GetAll"; s.calls++; return &Echo{Got: r}, nil }
func (s *echoServer) DelAll(_ context.Context, r *Scalars) (*Echo, error) { s.lastScalars, s.which = r, "DelAll"; s.calls++; return &Echo{Got: r}, nil }
func (s *echoServer) Post(_ context.Context, r *Body) (*Body, error)       { s.lastBody, s.which = r, "Post"; s.calls++; return r, nil }
func (s *echoServer) Put(_ context.Context, r *Body) (*Body, error)        { s.lastBody, s.which = r, "Put"; s.calls++; return r, nil }
func (s *echoServer) Patch(_ context.Context, r *Body) (*Body, error)      { s.lastBody, s.which = r, "Patch"; s.calls++; return r, nil }
func (s *echoServer) PostNoVars(_ context.Context, r *Body) (*Body, error) { s.lastBody, s.which = r, "PostNoVars"; s.calls++; return r, nil }
func (s *echoServer) Default(_ context.Context, r *Body) (*Body, error)    { s.lastBody, s.which = r, "Default"; s.calls++; return r, nil }

func TestC01Family(t *testing.T) {
	srv := &echoServer{}
	mux := http.NewServeMux()
	if err := RegisterE2EServer(srv, WithMux(mux)); err != nil {
		t.Fatal(err)
	}
	hs := httptest.NewServer(mux)
	defer hs.Close()
	client := NewE2EClient(hs.URL)
	ctx := context.Background()
	strs := []string{"a", "héllo wörld €", "a/b?c#d e+f%25&g=h", "x y", "~tilde.-_", "%2F", "日本語"}
	opt := "set"
	scalars := []*Scalars{}
	for _, s := range strs {
		scalars = append(scalars, &Scalars{S: s, I32: 1})
	}
	scalars = append(scalars,
		&Scalars{S: "min", I32: math.MinInt32, I64: math.MinInt64, Si32: math.MinInt32, Sf64: math.MinInt64, F: -math.MaxFloat32, D: -math.MaxFloat64},
		&Scalars{S: "max", I32: math.MaxInt32, I64: math.MaxInt64, U32: math.MaxUint32, U64: math.MaxUint64, B: true, F: math.MaxFloat32, D: math.MaxFloat64, Si32: math.MaxInt32, Sf64: math.MaxInt64, Fx32: math.MaxUint32, Text: "q&a=1 +%"},
		&Scalars{S: "frac", I32: -7, F: 0.1, D: 1e-7, Text: "ünï"},
		&Scalars{S: "small", I32: 0, F: math.SmallestNonzeroFloat32, D: math.SmallestNonzeroFloat64},
		&Scalars{S: "inf", I32: 3, F: float32(math.Inf(1)), D: math.Inf(-1)},
		&Scalars{S: "nan", I32: 3, D: math.NaN()},
	)
	bodies := []*Body{
		{Id: "1"},
		{Id: "id with space/é", Big: math.MaxInt64, Text: "t", Tags: []string{"a", ""}, Inner: &Inner{Note: "n", N: math.MinInt64}, Opt: &opt, Blob: []byte{0, 255, 1}, Kind: Kind_KIND_B, D: 0.1, Ubig: math.MaxUint64,
			Items: []*Inner{{Note: "x"}, {}}, Choice: &Body_B{B: -5}, Counts: map[string]int32{"k": 1, "": 0}},
		{Id: "e", Tags: []string{}, Inner: &Inner{}, Blob: []byte{}, Choice: &Body_A{A: ""}, Counts: map[string]int32{}},
	}
	for _, ct := range []string{"application/json", "application/x-protobuf", "application/octet-stream"} {
		opts := []E2ECallOption{WithE2ECallContentType(ct)}
		for i, in := range scalars {
			for _, verb := range []string{"GetAll", "DelAll"} {
				srv.lastScalars, srv.which = nil, ""
				before := srv.calls
				var out *Echo
				var err error
				if verb == "GetAll" {
					out, err = client.GetAll(ctx, in, opts...)
				} else {
					out, err = client.DelAll(ctx, in, opts...)
				}
				report(t, ct, verb, fmt.Sprintf("scalars[%d] s=%q", i, in.S), in, srv.lastScalars, srv.which, srv.calls-before, err, func() proto.Message {
					if out == nil {
						return nil
					}
					return out.Got
				})
			}
		}
		for i, in := range bodies {
			calls := map[string]func() (*Body, error){
				"Post":       func() (*Body, error) { return client.Post(ctx, in, opts...) },
				"Put":        func() (*Body, error) { return client.Put(ctx, in, opts...) },
				"Patch":      func() (*Body, error) { return client.Patch(ctx, in, opts...) },
				"PostNoVars": func() (*Body, error) { return client.PostNoVars(ctx, in, opts...) },
				"Default":    func() (*Body, error) { return client.Default(ctx, in, opts...) },
			}
			for _, verb := range []string{"Post", "Put", "Patch", "PostNoVars", "Default"} {
				srv.lastBody, srv.which = nil, ""
				before := srv.calls
				out, err := calls[verb]()
				var seen proto.Message
				if srv.lastBody != nil {
					seen = srv.lastBody
				}
				report(t, ct, verb, fmt.Sprintf("bodies[%d] id=%q", i, in.Id), in, seen, srv.which, srv.calls-before, err, func() proto.Message {
					if out == nil {
						return nil
					}
					return out
				})
			}
		}
	}
}

func report(t *testing.T, ct, rpc, what string, in proto.Message, seen proto.Message, which string, calls int, err error, got func() proto.Message) {
	class := ""
	switch {
	case calls != 1 || which != rpc:
		class = "not-delivered"
	case seen == nil || !proto.Equal(in, seen):
		class = "request-differs"
	case err != nil:
		class = "client-error"
	case got() == nil || !proto.Equal(in, got()):
		class = "response-differs"
	}
	if class == "" {
		return
	}
	detail := ""
	if err != nil {
		detail = err.Error()
		if len(detail) > 160 {
			detail = detail[:160]
		}
	}
	fmt.Printf("MISMATCH class=%s ct=%s rpc=%s input=%s handler=%q calls=%d err=%q\n", class, ct, rpc, what, which, calls, detail)
}
`

type c01Mismatch struct {
	Class, CT, RPC, Input, Line string
}

func (m c01Mismatch) familyClass() string {
	// classes under which known findings are recorded
	switch {
	case m.RPC == "Default":
		return "default-path"
	case m.CT == "application/octet-stream":
		return "content-type-octet-stream"
	}
	return m.Class + ":" + m.RPC
}

func runC01Family() (ms []c01Mismatch, output string, err error) {
	pkgDir, _, err := EmitPackage(c01Schema(), "c01-e2e", []string{"protoc-gen-go-http", "protoc-gen-go-client"}, nil)
	if err != nil {
		return nil, "", err
	}
	if err := os.WriteFile(filepath.Join(pkgDir, "zz_c01_test.go"), []byte(c01TestSrc), 0o644); err != nil {
		return nil, "", err
	}
	out, rerr := runCmd(pkgDir, nil, "go", "test", "-v", "-vet=off", "-count=1", "-timeout", "120s", "-run", "TestC01Family", ".")
	text := string(out)
	if rerr != nil {
		text += "\n" + rerr.Error()
	}
	re := regexp.MustCompile(`(?m)^MISMATCH class=(\S+) ct=(\S+) rpc=(\S+) input=(.*?) handler=`)
	for _, m := range re.FindAllStringSubmatch(text, -1) {
		ms = append(ms, c01Mismatch{Class: m[1], CT: m[2], RPC: m[3], Input: m[4], Line: m[0]})
	}
	if rerr != nil && len(ms) == 0 && !strings.Contains(text, "ok  ") {
		return nil, text, fmt.Errorf("the end-to-end package does not build or the test crashed: %s", firstLines(text, 12))
	}
	return ms, text, nil
}

func init() {
	known := func() map[string]bool {
		kf, _ := loadKnownFindings()
		k := map[string]bool{}
		for _, f := range kf {
			if f.Property == "C01" && f.Status == "known" {
				for _, c := range strings.Split(f.FamilyClass, ",") {
					if c = strings.TrimSpace(c); c != "" {
						k[c] = true
					}
				}
			}
		}
		return k
	}
	summarize := func(ms []c01Mismatch) map[string][]string {
		by := map[string][]string{}
		for _, m := range ms {
			c := m.familyClass()
			if len(by[c]) < 3 {
				by[c] = append(by[c], fmt.Sprintf("%s ct=%s rpc=%s %s", m.Class, m.CT, m.RPC, m.Input))
			}
		}
		return by
	}
	replayers["c01-e2e"] = func(w *World, v violation) map[string]any {
		ms, out, err := runC01Family()
		res := map[string]any{}
		if err != nil {
			res["confirmed"] = false
			res["reason"] = err.Error()
			return res
		}
		k := known()
		fresh := map[string][]string{}
		for c, ex := range summarize(ms) {
			if !k[c] {
				fresh[c] = ex
			}
		}
		res["confirmed"] = len(fresh) > 0
		res["mismatch_classes_not_listed_as_known"] = fresh
		if len(fresh) == 0 {
			res["reason"] = "every client call of the end-to-end family reaches its handler with an equal request and returns an equal response (apart from classes recorded as known findings)"
		}
		_ = out
		return res
	}
	boundedChecks["c01-e2e"] = func(w *World, seed int64) map[string]any {
		ms, _, err := runC01Family()
		out := map[string]any{"name": "c01-e2e", "bounded": true, "bound": "one service: 7 RPCs (GET, DELETE, POST, PUT, PATCH, no variables, default route) x 3 content types x 13 scalar requests / 3 body requests with boundary values"}
		if err != nil {
			out["status"] = "error: " + err.Error()
			return out
		}
		var fails []map[string]any
		by := summarize(ms)
		var cs []string
		for c := range by {
			cs = append(cs, c)
		}
		sort.Strings(cs)
		for _, c := range cs {
			fails = append(fails, map[string]any{"name": "C01.family." + c, "case": by[c][0], "observed": strings.Join(by[c], " | "), "parameter": ""})
		}
		out["failures"] = fails
		out["mismatches"] = len(ms)
		out["status"] = "ran"
		return out
	}
	debugCmds["c01family"] = func(args []string) int {
		ms, out, err := runC01Family()
		if err != nil {
			fmt.Println("error:", err)
			fmt.Println(firstLines(out, 40))
			return 1
		}
		by := summarize(ms)
		fmt.Println("mismatches:", len(ms))
		for c, ex := range by {
			fmt.Printf("%-40s %s\n", c, strings.Join(ex, " | "))
		}
		if len(args) > 0 {
			fmt.Println(out)
		}
		return 0
	}
}
