package main

// Extraction of emitted code (DESIGN.md section 3): on every run the working-tree plugins are built and
// run on a fixed schema; the emitted package is type-checked and handed to the same VC generator.
// Nothing of the emitted files is dropped.

import (
	"fmt"
	"go/ast"
	"go/types"
	"os"
	"path/filepath"
	"strings"

	"golang.org/x/tools/go/packages"
)

const emittedPkgPath = "example.com/ext/v1"
const emittedClientPkgPath = "example.com/extc/v1"

// the Go client cannot express repeated query parameters (emitted code does not compile): use a scalar there
func queryTags(client bool) M {
	if client {
		return withOpt(field("tags", "string"), "sebuf.http.query", M{"name": "tag"})
	}
	return withOpt(repeated(field("tags", "string")), "sebuf.http.query", M{"name": "tag"})
}

// extractionSchema: a service with several routes (path variables, query parameters, service and
// method headers, body and bodiless verbs) so that the schema-dependent registration code is present too.
func extractionSchema(client bool) *Schema {
	f := protoFile("ext/v1/ext.proto", "ext.v1", emittedPkgPath+";extv1")
	if client {
		f = protoFile("extc/v1/ext.proto", "ext.v1", emittedClientPkgPath+";extv1")
	}
	addMessage(f, message("GetNoteRequest",
		field("id", "string"),
		withOpt(field("page", "int32"), "sebuf.http.query", M{"name": "page"}),
		queryTags(client),
		withOpt(field("verbose", "bool"), "sebuf.http.query", M{"name": "verbose", "required": true}),
		withOpt(field("big", "uint64"), "sebuf.http.query", M{"name": "big"}),
	))
	addMessage(f, message("UpdateNoteRequest", field("id", "string"), field("title", "string"), field("version", "int64")))
	addMessage(f, message("ListNotesRequest", field("filter", "string")))
	addMessage(f, message("Note", field("id", "string"), field("title", "string"), field("version", "int64")))
	addMessage(f, message("NotFoundError", field("resource", "string"), field("id", "string")))
	// one message per codec feature, so that the emitted codec functions exist as units (C05): a singular signed and
	// unsigned NUMBER-encoded 64-bit field next to an ordinary field
	// a root-unwrap list of plain messages: the body is a bare JSON array whose elements keep their proto3 JSON form
	addMessage(f, message("NoteList", withOpt(repeated(msgField("items", ".ext.v1.Note")), "sebuf.http.unwrap", true)))
	addMessage(f, message("Counter", withOpt(field("n", "int64"), "sebuf.http.int64_encoding", "INT64_ENCODING_NUMBER"),
		withOpt(field("u", "uint64"), "sebuf.http.int64_encoding", "INT64_ENCODING_NUMBER"), field("label", "string")))
	// timestamp formats, bytes encodings and nullable primitives: one field per documented variant next to an
	// un-annotated field of the same type (C04/C05 codec contracts)
	ts := ".google.protobuf.Timestamp"
	addMessage(f, message("Stamp",
		withOpt(msgField("secs", ts), "sebuf.http.timestamp_format", "TIMESTAMP_FORMAT_UNIX_SECONDS"),
		withOpt(msgField("millis", ts), "sebuf.http.timestamp_format", "TIMESTAMP_FORMAT_UNIX_MILLIS"),
		withOpt(msgField("day", ts), "sebuf.http.timestamp_format", "TIMESTAMP_FORMAT_DATE"),
		msgField("plain", ts), field("label", "string")))
	// (two messages of two annotated fields each: a decoder with n rewritten keys has 4^n paths)
	addMessage(f, message("Blob",
		withOpt(field("std_raw", "bytes"), "sebuf.http.bytes_encoding", "BYTES_ENCODING_BASE64_RAW"),
		withOpt(field("url", "bytes"), "sebuf.http.bytes_encoding", "BYTES_ENCODING_BASE64URL"),
		field("plain", "bytes"), field("label", "string")))
	addMessage(f, message("BlobB",
		withOpt(field("url_raw", "bytes"), "sebuf.http.bytes_encoding", "BYTES_ENCODING_BASE64URL_RAW"),
		withOpt(field("hex", "bytes"), "sebuf.http.bytes_encoding", "BYTES_ENCODING_HEX"),
		field("plain", "bytes")))
	profile := message("Profile", optionalField(withOpt(field("nick", "string"), "sebuf.http.nullable", true), 0),
		optionalField(withOpt(field("age", "int32"), "sebuf.http.nullable", true), 1), field("label", "string"))
	profile["oneof_decl"] = []any{M{"name": "_nick"}, M{"name": "_age"}}
	addMessage(f, profile)
	// empty_behavior: one field per documented behaviour next to an un-annotated message field
	addMessage(f, message("Empties",
		withOpt(msgField("keep", ".ext.v1.Note"), "sebuf.http.empty_behavior", "EMPTY_BEHAVIOR_PRESERVE"),
		withOpt(msgField("nul", ".ext.v1.Note"), "sebuf.http.empty_behavior", "EMPTY_BEHAVIOR_NULL"),
		withOpt(msgField("omit", ".ext.v1.Note"), "sebuf.http.empty_behavior", "EMPTY_BEHAVIOR_OMIT"),
		msgField("plain", ".ext.v1.Note"), field("label", "string")))
	// flatten: one message with a prefixed and one with an unprefixed flattened child
	addMessage(f, message("Addr", field("street", "string"), field("city", "string")))
	addMessage(f, message("FlatP", field("id", "string"), withOpt(withOpt(msgField("home", ".ext.v1.Addr"), "sebuf.http.flatten", true), "sebuf.http.flatten_prefix", "home_")))
	addMessage(f, message("FlatB", field("id", "string"), withOpt(msgField("addr", ".ext.v1.Addr"), "sebuf.http.flatten", true)))
	// two flattened children in one message: the decoder handles them one after the other
	addMessage(f, message("FlatTwo", field("id", "string"),
		withOpt(withOpt(msgField("home", ".ext.v1.Addr"), "sebuf.http.flatten", true), "sebuf.http.flatten_prefix", "home_"),
		withOpt(withOpt(msgField("work", ".ext.v1.Addr"), "sebuf.http.flatten", true), "sebuf.http.flatten_prefix", "work_")))
	// unwrap in a map value with a scalar element type: the value of each entry is a bare JSON array of strings
	addMessage(f, message("Tags", withOpt(repeated(field("values", "string")), "sebuf.http.unwrap", true)))
	tagIndex := message("TagIndex", field("label", "string"))
	addMapField("ext.v1", tagIndex, "by_key", msgField("value", ".ext.v1.Tags"), 2)
	addMessage(f, tagIndex)
	hdr := func(name, typ, format string, required bool) M {
		h := M{"name": name, "type": typ, "required": required}
		if format != "" {
			h["format"] = format
		}
		return h
	}
	get := withOpt(method("GetNote", ".ext.v1.GetNoteRequest", ".ext.v1.Note"), "sebuf.http.config", M{"path": "/notes/{id}", "method": "HTTP_METHOD_GET"})
	upd := withOpt(method("UpdateNote", ".ext.v1.UpdateNoteRequest", ".ext.v1.Note"), "sebuf.http.config", M{"path": "/notes/{id}", "method": "HTTP_METHOD_PUT"})
	if client {
		// the Go client emits a duplicate option function when a method header repeats a service header name
		withOpt(upd, "sebuf.http.method_headers", M{"required_headers": []any{hdr("X-Request-ID", "string", "uuid", true)}})
	} else {
		// (the third header leaves its type unset: it is validated as a string, with its format)
		withOpt(upd, "sebuf.http.method_headers", M{"required_headers": []any{hdr("X-Request-ID", "string", "uuid", true), hdr("X-API-Key", "integer", "", true), hdr("X-Trace", "", "date-time", true)}})
	}
	lst := withOpt(method("ListNotes", ".ext.v1.ListNotesRequest", ".ext.v1.Note"), "sebuf.http.config", M{"path": "/notes/list", "method": "HTTP_METHOD_POST"})
	if !client {
		// the method re-declares the service header as optional
		withOpt(lst, "sebuf.http.method_headers", M{"required_headers": []any{hdr("X-API-Key", "string", "", false)}})
	}
	svc := service("NoteService", get, upd, lst)
	withOpt(svc, "sebuf.http.service_config", M{"base_path": "/api/v1"})
	withOpt(svc, "sebuf.http.service_headers", M{"required_headers": []any{hdr("X-API-Key", "string", "", true)}})
	addService(f, svc)
	return &Schema{Files: []map[string]any{f}}
}

// EmitPackage runs protoc-gen-go plus the given sebuf plugins on the schema and writes a buildable scratch
// module; it returns the package directory.
func EmitPackage(s *Schema, name string, plugins []string, params map[string]string) (string, map[string]*GenOutput, error) {
	t, err := GetTools()
	if err != nil {
		return "", nil, err
	}
	dir := filepath.Join(scratch(), "emitted-"+name)
	os.RemoveAll(dir)
	if err := os.MkdirAll(dir, 0o755); err != nil {
		return "", nil, err
	}
	outs := map[string]*GenOutput{}
	var pkgDir string
	for _, pl := range append([]string{"protoc-gen-go"}, plugins...) {
		sc := *s
		sc.Parameter = params[pl]
		if pl == "protoc-gen-go" {
			// the message types of every file of the request (imported ones too) are needed to build
			sc.Generate = nil
			for _, f := range s.Files {
				sc.Generate = append(sc.Generate, fmt.Sprint(f["name"]))
			}
		}
		req, err := t.MakeRequest(&sc)
		if err != nil {
			return "", nil, fmt.Errorf("schema rejected: %w", err)
		}
		o, err := t.RunPlugin(pl, req)
		if err != nil {
			return "", nil, err
		}
		outs[pl] = o
		if o.Crash != "" || o.Error != "" {
			return "", outs, fmt.Errorf("%s failed: %s%s", pl, o.Crash, o.Error)
		}
		for _, f := range o.Files {
			if !strings.HasSuffix(f.Name, ".go") {
				continue
			}
			p := filepath.Join(dir, "src", f.Name)
			os.MkdirAll(filepath.Dir(p), 0o755)
			if err := os.WriteFile(p, []byte(f.Content), 0o644); err != nil {
				return "", nil, err
			}
			pkgDir = filepath.Dir(p)
		}
	}
	// module root = dir/src/<module path>
	modRoot := filepath.Join(dir, "src", "example.com")
	stub := filepath.Join(verifDir(), "harness", "stub", "protovalidate")
	gomod := fmt.Sprintf("module example.com\n\ngo 1.24.7\n\nrequire (\n\tgithub.com/SebastienMelki/sebuf v0.0.0\n\tbuf.build/go/protovalidate v0.0.0\n)\n\nreplace github.com/SebastienMelki/sebuf => %s\n\nreplace buf.build/go/protovalidate => %s\n", t.Repo, stub)
	if err := os.WriteFile(filepath.Join(modRoot, "go.mod"), []byte(gomod), 0o644); err != nil {
		return "", nil, err
	}
	sum, _ := os.ReadFile(filepath.Join(t.Repo, "go.sum"))
	os.WriteFile(filepath.Join(modRoot, "go.sum"), sum, 0o644)
	return pkgDir, outs, nil
}

// LoadEmitted extracts the emitted Go server and client for the fixed schema and indexes their functions.
func (w *World) LoadEmitted() error {
	if w.emittedLoaded {
		return w.emittedErr
	}
	w.emittedLoaded = true
	defer func() { w.writtenMu.Lock(); w.written = nil; w.writtenMu.Unlock() }()
	for i, spec := range []struct {
		name    string
		client  bool
		plugins []string
	}{{"ext", false, []string{"protoc-gen-go-http"}}, {"extc", true, []string{"protoc-gen-go-client"}}} {
		pkgDir, _, err := EmitPackage(extractionSchema(spec.client), spec.name, spec.plugins, map[string]string{"protoc-gen-go-http": "generate_mock=true"})
		if err != nil {
			w.emittedErr = err
			return err
		}
		cfg := &packages.Config{
			Mode: packages.NeedName | packages.NeedSyntax | packages.NeedTypes | packages.NeedTypesInfo |
				packages.NeedImports | packages.NeedDeps | packages.NeedFiles | packages.NeedCompiledGoFiles,
			Dir:  pkgDir,
			Fset: w.Fset,
			Env:  goEnv(),
		}
		pkgs, err := packages.Load(cfg, ".")
		if err != nil {
			w.emittedErr = err
			return err
		}
		if len(pkgs) != 1 {
			w.emittedErr = fmt.Errorf("emitted package: expected 1 package, got %d", len(pkgs))
			return w.emittedErr
		}
		p := pkgs[0]
		if len(p.Errors) > 0 {
			var es []string
			for _, e := range p.Errors {
				es = append(es, e.Error())
			}
			w.emittedErr = fmt.Errorf("emitted package %s does not type-check: %s", spec.name, firstLines(strings.Join(es, "\n"), 6))
			return w.emittedErr
		}
		w.EmittedPaths[p.PkgPath] = true
		w.AddPackage(p)
		if i == 0 {
			w.Emitted = p
			w.EmittedDir = pkgDir
		} else {
			w.EmittedClient = p
		}
		packages.Visit(pkgs, nil, func(q *packages.Package) {
			if _, ok := w.ByPath[q.PkgPath]; !ok {
				w.ByPath[q.PkgPath] = q
			}
		})
	}
	p := w.Emitted
	// dependencies of the emitted package that are not yet known (net/http ...)
	w.ByName["emitted"] = p.Types
	w.ByName["emittedclient"] = w.EmittedClient.Types
	if q, ok := w.ByPath["net/http"]; ok && q.Types != nil {
		w.ByName["nethttp"] = q.Types
	}
	if q, ok := w.ByPath["net/url"]; ok && q.Types != nil {
		w.ByName["neturl"] = q.Types
	}
	if q, ok := w.ByPath["context"]; ok && q.Types != nil {
		w.ByName["context"] = q.Types
	}
	if q, ok := w.ByPath["buf.build/go/protovalidate"]; ok && q.Types != nil {
		w.ByName["protovalidate"] = q.Types
	}
	return nil
}

// LookupEmitted finds an emitted function or method ("Name" or "Type.Method") in the extracted package.
func (w *World) LookupEmitted(name string) *FuncInfo {
	if w.Emitted == nil {
		return nil
	}
	parts := strings.Split(name, ".")
	for _, pkg := range []*packages.Package{w.Emitted, w.EmittedClient} {
		if pkg == nil {
			continue
		}
		scope := pkg.Types.Scope()
		if len(parts) == 1 {
			if f, ok := scope.Lookup(parts[0]).(*types.Func); ok {
				return w.Funcs[f.FullName()]
			}
			continue
		}
		tn, ok := scope.Lookup(parts[0]).(*types.TypeName)
		if !ok {
			continue
		}
		for _, t := range []types.Type{tn.Type(), types.NewPointer(tn.Type())} {
			obj, _, _ := types.LookupFieldOrMethod(t, true, pkg.Types, parts[1])
			if f, ok := obj.(*types.Func); ok {
				return w.Funcs[f.FullName()]
			}
		}
	}
	return nil
}

// emittedFuncDecls lists all function declarations of the extracted package by file suffix.
func (w *World) emittedFuncDecls(fileSuffix string) []*ast.FuncDecl {
	var out []*ast.FuncDecl
	if w.Emitted == nil {
		return nil
	}
	for i, f := range w.Emitted.Syntax {
		name := w.Emitted.CompiledGoFiles[i]
		if !strings.HasSuffix(name, fileSuffix) {
			continue
		}
		for _, d := range f.Decls {
			if fd, ok := d.(*ast.FuncDecl); ok {
				out = append(out, fd)
			}
		}
	}
	return out
}
