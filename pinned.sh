#!/bin/sh
# usage: pinned.sh [dir]  -- runs the pinned suite on a tree (default /repo) and reports how many of the pinned passing tests are missing
d=${1:-/repo}
export GOFLAGS=-mod=mod GOPROXY=off
(cd $d && go test -vet=off -count=1 -json ./... 2>/dev/null) | python3 -c "
import sys,json
p=set()
for l in sys.stdin:
    try: e=json.loads(l)
    except: continue
    if e.get('Test') and e.get('Action')=='pass': p.add(e['Package']+'::'+e['Test'])
base=set(json.load(open('/root/.vp/BASELINE.json'))['stable_pass'])
m=sorted(base-p)
print('pinned_pass_missing=%d of %d' % (len(m), len(base)))
for x in m[:20]: print('  missing', x)"
