package main

// C16 bounded family: descriptor shapes x plugins x parameters, run through the real plugin binaries of the
// working tree under a wall-clock and memory limit. A member fails when a plugin neither returns files nor an
// error message (panic, fatal runtime error, signal, timeout). Bounded: it samples shapes, it proves nothing.

import (
	"encoding/json"
	"fmt"
	"sort"
	"strings"
	"sync"
)

type shapeCase struct {
	Name  string
	Build func() *Schema
}

// addMapField adds `map<string, V> name` to msg (with its synthetic entry type).
func addMapField(pkg string, msg M, name string, value M, number int) {
	entry := strings.ToUpper(name[:1]) + jsonName(name)[1:] + "Entry"
	k := field("key", "string")
	k["number"] = 1
	value["name"] = "value"
	value["json_name"] = "value"
	value["number"] = 2
	e := M{"name": entry, "field": []any{k, value}, "options": M{"map_entry": true}}
	nt, _ := msg["nested_type"].([]any)
	msg["nested_type"] = append(nt, e)
	f := repeated(msgField(name, "."+pkg+"."+msg["name"].(string)+"."+entry))
	f["number"] = number
	fs, _ := msg["field"].([]any)
	msg["field"] = append(fs, f)
}

func c16Shapes() []shapeCase {
	base := func(pkg, goPkg string) M {
		if goPkg == "" {
			f := M{"name": "t/v1/t.proto", "syntax": "proto3"}
			if pkg != "" {
				f["package"] = pkg
			}
			return f
		}
		f := protoFile("t/v1/t.proto", pkg, goPkg)
		if pkg == "" {
			delete(f, "package")
		}
		return f
	}
	svc := func(f M, pkg string, out string) {
		p := "."
		if pkg != "" {
			p = "." + pkg + "."
		}
		addMessage(f, message("Req", field("id", "string")))
		addService(f, service("S", method("Get", p+"Req", p+out)))
	}
	one := func(name string, build func(f M)) shapeCase {
		return shapeCase{Name: name, Build: func() *Schema {
			f := base("t.v1", "example.com/t/v1;tv1")
			build(f)
			return &Schema{Files: []map[string]any{f}, Generate: []string{"t/v1/t.proto"}}
		}}
	}
	long := strings.Repeat("VeryLongName", 170)
	return []shapeCase{
		one("directly recursive response", func(f M) {
			addMessage(f, message("Node", field("name", "string"), msgField("child", ".t.v1.Node")))
			svc(f, "t.v1", "Node")
		}),
		one("mutually recursive response", func(f M) {
			addMessage(f, message("A", field("name", "string"), msgField("b", ".t.v1.B")))
			addMessage(f, message("B", msgField("a", ".t.v1.A"), field("n", "int32")))
			svc(f, "t.v1", "A")
		}),
		one("recursive through a repeated field", func(f M) {
			addMessage(f, message("Tree", field("label", "string"), repeated(msgField("kids", ".t.v1.Tree"))))
			svc(f, "t.v1", "Tree")
		}),
		one("recursive through a map value", func(f M) {
			m := message("Dir", field("name", "string"))
			addMapField("t.v1", m, "entries", msgField("value", ".t.v1.Dir"), 2)
			addMessage(f, m)
			svc(f, "t.v1", "Dir")
		}),
		one("recursive through a oneof member", func(f M) {
			m := message("Expr", field("lit", "string"), msgField("neg", ".t.v1.Expr"))
			m["oneof_decl"] = []any{M{"name": "kind"}}
			for _, x := range m["field"].([]any) {
				x.(M)["oneof_index"] = 0
			}
			addMessage(f, m)
			svc(f, "t.v1", "Expr")
		}),
		one("recursive request message", func(f M) {
			addMessage(f, message("Filter", field("op", "string"), repeated(msgField("args", ".t.v1.Filter"))))
			addMessage(f, message("Out", field("ok", "bool")))
			addService(f, service("S", method("Query", ".t.v1.Filter", ".t.v1.Out")))
		}),
		one("chain of 40 message types", func(f M) {
			for i := 0; i < 40; i++ {
				m := message(fmt.Sprintf("L%d", i), field("v", "string"))
				if i < 39 {
					m["field"] = append(m["field"].([]any), M{"name": "next", "number": 2, "type": "TYPE_MESSAGE", "type_name": fmt.Sprintf(".t.v1.L%d", i+1), "label": "LABEL_OPTIONAL", "json_name": "next"})
				}
				addMessage(f, m)
			}
			svc(f, "t.v1", "L0")
		}),
		one("30 levels of nested type declarations", func(f M) {
			var inner M
			for i := 29; i >= 0; i-- {
				m := message(fmt.Sprintf("N%d", i), field("v", "string"))
				if inner != nil {
					m["nested_type"] = []any{inner}
				}
				inner = m
			}
			addMessage(f, inner)
			svc(f, "t.v1", "N0")
		}),
		one("nested types and enums", func(f M) {
			m := message("Doc", field("id", "string"), enumField("kind", ".t.v1.Doc.Kind"), msgField("meta", ".t.v1.Doc.Meta"))
			m["enum_type"] = []any{M{"name": "Kind", "value": []any{M{"name": "KIND_UNSPECIFIED", "number": 0}, M{"name": "KIND_A", "number": 1}}}}
			m["nested_type"] = []any{message("Meta", field("a", "string"))}
			addMessage(f, m)
			svc(f, "t.v1", "Doc")
		}),
		one("map of messages and scalars", func(f M) {
			addMessage(f, message("Item", field("n", "int64")))
			m := message("Bag", field("id", "string"))
			addMapField("t.v1", m, "items", msgField("value", ".t.v1.Item"), 2)
			addMapField("t.v1", m, "counts", field("value", "int32"), 3)
			addMessage(f, m)
			svc(f, "t.v1", "Bag")
		}),
		one("proto3 optional fields", func(f M) {
			m := message("Opt", optionalField(field("a", "string"), 0), optionalField(field("b", "int64"), 1))
			m["oneof_decl"] = []any{M{"name": "_a"}, M{"name": "_b"}}
			addMessage(f, m)
			svc(f, "t.v1", "Opt")
		}),
		one("well-known types", func(f M) {
			addMessage(f, message("W", msgField("at", ".google.protobuf.Timestamp"), msgField("d", ".google.protobuf.Duration"),
				msgField("s", ".google.protobuf.Struct"), msgField("any", ".google.protobuf.Any"), msgField("sv", ".google.protobuf.StringValue")))
			svc(f, "t.v1", "W")
		}),
		one("empty messages", func(f M) {
			addMessage(f, message("Empty"))
			addService(f, service("S", method("Ping", ".t.v1.Empty", ".t.v1.Empty")))
		}),
		one("service without methods", func(f M) {
			addMessage(f, message("Unused", field("x", "string")))
			addService(f, service("S"))
		}),
		one("file without services", func(f M) {
			addMessage(f, message("Only", field("x", "string")))
		}),
		one("two services sharing request and response types", func(f M) {
			addMessage(f, message("Req", field("id", "string")))
			addMessage(f, message("Resp", field("ok", "bool")))
			addService(f, service("A", method("Get", ".t.v1.Req", ".t.v1.Resp"), method("Put", ".t.v1.Req", ".t.v1.Resp")))
			addService(f, service("B", method("Get", ".t.v1.Req", ".t.v1.Resp")))
		}),
		one("very long names", func(f M) {
			addMessage(f, message(long, field(strings.ToLower(long), "string")))
			addMessage(f, message("Req", field("id", "string")))
			addService(f, service("S"+long, method("M"+long, ".t.v1.Req", ".t.v1."+long)))
		}),
		one("self-flatten with prefix", func(f M) {
			addMessage(f, message("Category", field("name", "string"),
				withOpt(withOpt(msgField("parent", ".t.v1.Category"), "sebuf.http.flatten", true), "sebuf.http.flatten_prefix", "parent_")))
			addMessage(f, message("Holder", field("id", "string"),
				withOpt(withOpt(msgField("cat", ".t.v1.Category"), "sebuf.http.flatten", true), "sebuf.http.flatten_prefix", "cat_")))
			svc(f, "t.v1", "Holder")
		}),
		one("mutual flatten without prefix", func(f M) {
			addMessage(f, message("Left", field("left_name", "string"), withOpt(msgField("right", ".t.v1.Right"), "sebuf.http.flatten", true)))
			addMessage(f, message("Right", field("right_name", "string"), withOpt(msgField("left", ".t.v1.Left"), "sebuf.http.flatten", true)))
			svc(f, "t.v1", "Left")
		}),
		one("nested flatten, acyclic", func(f M) {
			addMessage(f, message("Address", field("city", "string")))
			addMessage(f, message("Customer", field("name", "string"),
				withOpt(withOpt(msgField("address", ".t.v1.Address"), "sebuf.http.flatten", true), "sebuf.http.flatten_prefix", "addr_")))
			addMessage(f, message("Order", field("id", "string"),
				withOpt(withOpt(msgField("customer", ".t.v1.Customer"), "sebuf.http.flatten", true), "sebuf.http.flatten_prefix", "customer_")))
			svc(f, "t.v1", "Order")
		}),
		one("recursive root unwrap", func(f M) {
			addMessage(f, message("List", withOpt(repeated(msgField("items", ".t.v1.List")), "sebuf.http.unwrap", true)))
			svc(f, "t.v1", "List")
		}),
		one("map of unwrapped recursive lists", func(f M) {
			addMessage(f, message("Bars", withOpt(repeated(msgField("bars", ".t.v1.Quote")), "sebuf.http.unwrap", true)))
			m := message("Quote", field("sym", "string"))
			addMapField("t.v1", m, "history", msgField("value", ".t.v1.Bars"), 2)
			addMessage(f, m)
			svc(f, "t.v1", "Quote")
		}),
		one("recursive message with nullable timestamp and int64 annotations", func(f M) {
			m := message("Ev", optionalField(withOpt(field("note", "string"), "sebuf.http.nullable", true), 0),
				withOpt(field("n", "int64"), "sebuf.http.int64_encoding", "INT64_ENCODING_NUMBER"),
				withOpt(msgField("at", ".google.protobuf.Timestamp"), "sebuf.http.timestamp_format", "TIMESTAMP_FORMAT_UNIX_MILLIS"),
				repeated(msgField("causes", ".t.v1.Ev")))
			m["oneof_decl"] = []any{M{"name": "_note"}}
			addMessage(f, m)
			svc(f, "t.v1", "Ev")
		}),
		{Name: "file without package", Build: func() *Schema {
			f := base("", "example.com/t/v1;tv1")
			addMessage(f, message("Out", field("ok", "bool")))
			svc(f, "", "Out")
			return &Schema{Files: []map[string]any{f}, Generate: []string{"t/v1/t.proto"}}
		}},
		{Name: "file without go_package", Build: func() *Schema {
			f := base("t.v1", "")
			addMessage(f, message("Out", field("ok", "bool")))
			svc(f, "t.v1", "Out")
			return &Schema{Files: []map[string]any{f}, Generate: []string{"t/v1/t.proto"}}
		}},
		{Name: "file without package and go_package", Build: func() *Schema {
			f := base("", "")
			addMessage(f, message("Out", field("ok", "bool")))
			svc(f, "", "Out")
			return &Schema{Files: []map[string]any{f}, Generate: []string{"t/v1/t.proto"}}
		}},
	}
}

var c16PluginParams = map[string][]string{
	"protoc-gen-go-http":   {"", "generate_mock=true", "paths=source_relative,generate_mock=true"},
	"protoc-gen-go-client": {"", "paths=source_relative"},
	"protoc-gen-ts-client": {"", "paths=source_relative"},
	"protoc-gen-ts-server": {"", "paths=source_relative"},
	"protoc-gen-openapiv3": {"", "format=json", "format=yml", "format=bogus"},
}

// classifyRun: "files", "error-message" or "crash: ..."
func classifyRun(o *GenOutput) string {
	if o.Crash != "" {
		if strings.HasPrefix(o.Crash, "exit status 1:") && !strings.Contains(o.Crash, "panic:") && !strings.Contains(o.Crash, "goroutine ") && !strings.Contains(o.Crash, "fatal error") {
			return "error-message"
		}
		return "crash: " + firstLines(o.Crash, 3)
	}
	if o.Error != "" {
		return "error-message"
	}
	return "files"
}

func runC16Family() (runs int, failures []map[string]any, summary map[string]int, err error) {
	t, err := GetTools()
	if err != nil {
		return 0, nil, nil, err
	}
	summary = map[string]int{}
	var mu sync.Mutex
	var wg sync.WaitGroup
	sem := make(chan struct{}, 8)
	var plugins []string
	for p := range c16PluginParams {
		plugins = append(plugins, p)
	}
	sort.Strings(plugins)
	for _, sc := range c16Shapes() {
		s := sc.Build()
		req0, rerr := t.MakeRequest(s)
		if rerr != nil {
			return runs, nil, nil, fmt.Errorf("family member %q is not a well-formed request: %v", sc.Name, rerr)
		}
		_ = req0
		for _, p := range plugins {
			for _, param := range c16PluginParams[p] {
				sc, p, param := sc, p, param
				wg.Add(1)
				go func() {
					defer wg.Done()
					sem <- struct{}{}
					defer func() { <-sem }()
					s2 := sc.Build()
					s2.Parameter = param
					o, gerr := t.Generate(p, s2)
					mu.Lock()
					defer mu.Unlock()
					runs++
					if gerr != nil {
						failures = append(failures, map[string]any{"name": "C16.family." + p, "case": sc.Name, "parameter": param, "observed": "harness error: " + gerr.Error()})
						return
					}
					c := classifyRun(o)
					if strings.HasPrefix(c, "crash") {
						in, _ := json.Marshal(s2)
						failures = append(failures, map[string]any{"name": "C16.family." + p, "case": sc.Name, "parameter": param, "observed": c, "schema": json.RawMessage(in)})
						summary["crash"]++
					} else {
						summary[c]++
					}
				}()
			}
		}
	}
	wg.Wait()
	sort.Slice(failures, func(i, j int) bool {
		return fmt.Sprint(failures[i]["name"], failures[i]["case"], failures[i]["parameter"]) < fmt.Sprint(failures[j]["name"], failures[j]["case"], failures[j]["parameter"])
	})
	return runs, failures, summary, nil
}

func init() {
	replayers["c16-family"] = func(w *World, v violation) map[string]any {
		runs, fails, summary, err := runC16Family()
		res := map[string]any{"family_runs": runs, "outcomes": summary}
		if err != nil {
			res["confirmed"] = false
			res["reason"] = err.Error()
			return res
		}
		res["confirmed"] = len(fails) > 0
		if len(fails) > 0 {
			if len(fails) > 6 {
				fails = fails[:6]
			}
			res["failing_members"] = fails
		} else {
			res["reason"] = "no member of the bounded descriptor family makes a plugin crash, hang or run out of memory"
		}
		return res
	}
	boundedChecks["c16-family"] = func(w *World, seed int64) map[string]any {
		runs, fails, summary, err := runC16Family()
		out := map[string]any{"name": "c16-family", "bounded": true,
			"bound":       fmt.Sprintf("%d descriptor shapes x 5 plugins x their parameter sets; 90 s and 8 GB per run", len(c16Shapes())),
			"plugin_runs": runs, "outcomes": summary}
		if err != nil {
			out["status"] = "error: " + err.Error()
			return out
		}
		out["failures"] = fails
		out["status"] = "ran"
		return out
	}
	debugCmds["c16family"] = func(args []string) int {
		runs, fails, summary, err := runC16Family()
		fmt.Println("runs:", runs, "summary:", summary, "err:", err)
		for _, d := range fails {
			fmt.Printf("%-24s %-50s %-30s %s\n", d["name"], d["case"], d["parameter"], d["observed"])
		}
		return 0
	}
}
