#!/usr/bin/env python3
"""Regenerates MANIFEST.json from the table below (kept valid against /root/.vp/MANIFEST.schema.json)."""
import json, subprocess, sys

NA = {
 "C08": "needs the execution semantics of emitted TypeScript on a JS runtime; there is no TypeScript verifier here and a Go VC generator cannot give the emitted text a meaning (DESIGN.md section 5)",
}
PENDING = "not claimed yet: contracts for this property are still being written (DESIGN.md build order)"

CLAIMED = {
 "C01": dict(
   text="Deductive by reduction: equality of the delivered request/response follows from trusted library round trips plus agreement facts about this repository's code, and the agreement facts are proved for all services and all values: the Go client and Go server decide the same verb, path template and path variables (C03 lemmas restricted to the Go pair), the client sends a body exactly for the verbs the server decodes one for, every path variable the validator admits is a singular scalar whose printed form the server's converter parses back to the same value (per-kind lemmas over the converter's contract, all integer widths, bool, string), body-less verbs carry every field in the URL, and the four codec dispatch tables (client marshalRequest/unmarshalResponse, server bindDataBasedOnContentType/marshalResponse, proved as at-call obligations on the extracted constant templates) agree for the standard content types; their disagreement for application/octet-stream and parameterised types, the default-route and relative-path route disagreements and base-path variables are known findings. A bounded end-to-end family (client and server of one service compiled together and run over httptest: 7 RPCs x 3 content types x boundary values) is the replayer. The emitted client method of the extraction schema is proved to send each query parameter (int32, string, bool, uint64) under its published name as the printed value of the field in its own type, and only when non-zero.",
   design="4 (C01)",
   note="Trusted: strconv (incl. floats), net/url escaping, ServeMux, protojson/proto and the custom codecs of C04-C08. Per-RPC emitted client text (URL assembly, query encoding) is verified on the extraction schema and exercised by the family only (bounded over schemas).",
   technique="contract-based deductive verification: agreement lemmas over verified contracts of the deciding generator functions and of the extracted emitted templates (event/at-call tables), z3/cvc5 race; bounded client-server end-to-end family as replayer"),
 "C04": dict(
   text="Partial, and labelled so. Deductive: for one message per codec kind of the extraction schema (int64_encoding=NUMBER signed and unsigned, timestamp_format UNIX_SECONDS / UNIX_MILLIS / DATE, the four bytes alphabets, nullable string and number) the emitted MarshalJSON and UnmarshalJSON are verified against specification functions transcribed from annotations.proto: the encoder writes exactly specEnc(protojson's own object, field values), the decoder hands exactly specDec(decoded request object) to the strict protojson decoder with the message as target (whole-map equalities as at-call obligations on the real emitted code, all inputs); lemmas then prove specDec(specEnc(P, v)) = P key by key for every value (up to the documented truncation for timestamps), from trusted round-trip axioms of encoding/json numbers and strings, base64/hex and the date layout. go-http / go-client equivalence is the C14 congruence rule. Bounded: a round-trip family builds one message per annotation kind (13 constructs) with both Go plugins and runs 150 encode/decode and canonical-document cases on the emitted code (quick tier too). It found that the flatten decoder lost every flattened child (repaired, fix: 3d19da0) and seven known findings (children of flatten / oneof codecs go through encoding/json, enum custom values are not decodable, go-client has no unwrap codec).",
   design="4 (C04)",
   note="Message equality itself rests on protojson's round trip (trusted). Enum, empty_behavior, flatten, oneof and unwrap codecs and every message outside the extraction schema are covered only by the bounded family and the congruence rule. The TS client's canonical form is represented by hand-written documents, no TypeScript is run.",
   technique="contract-based deductive verification of extracted emitted encoder/decoder pairs against spec functions (at-call obligations, whole-map equality) + inverse lemmas over trusted library round-trip axioms; structural congruence rule; bounded round-trip family on the emitted code as replayer and stand-in"),
 "C05": dict(
   text="Partial, and labelled so. Deductive: the annotation getters that decide the wire form are proved against the specification tables (wire.spec); the emitted MarshalJSON of one message per kind of the extraction schema - int64_encoding=NUMBER (signed, unsigned), the three timestamp formats, the four bytes alphabets, nullable, a root-unwrap list - is verified for all values against specification functions transcribed from annotations.proto (whole-map equality with protojson's own object rewritten under exactly the annotated keys; at-call obligations on the real emitted code); the server's encoder choice (custom codec only for a top-level json.Marshaler, protojson otherwise) is proved on the emitted template; the two plugins' codec emitters are congruent. Bounded: a depth family runs the emitted server on 5 annotated constructs x 5 contexts and compares the wire form with the documented one (quick tier too). It shows that annotations are lost below the top-level message and that enum custom values are never used: six known findings.",
   design="4 (C05)",
   note="The other codecs (enum, empty_behavior, flatten, oneof, the other unwrap shapes) and messages outside the extraction schema are covered only by the family and the congruence rule. protojson is trusted.",
   technique="contract-based deductive verification of extracted emitted encoders against spec functions (event/at-call obligations) and of the encoder-choice template; bounded depth family over httptest as replayer and stand-in"),
 "C06": dict(
   text="Partial. Deductive: the OpenAPI scalar schema table (type, format, the hex pattern, unsigned minimum), the timestamp table and the enum schema (integer enum of numbers / string enum of custom-or-proto names, one entry per value) are proved against the documented wire form for every field (at-call obligations on the schema object handed to libopenapi, conditioned on the absence of buf.validate rules, which C19 covers), path and query parameter lists are proved (C18 contracts), and lemmas show the OpenAPI, TypeScript and wire tables describe the same JSON values. Bounded: the response bodies the emitted Go server sends for the C05 family are validated with python jsonschema (2020-12) against the published component schemas (quick tier too); five known findings, all rooted in the C05 depth defect. Container shapes are proved too: a list is an array of the element schema, a map and a root-unwrap map are objects whose additionalProperties is the value schema, and none of them carries another applicator keyword (propertyNames, allOf, not, ...) or, without a buf.validate rule, a value constraint.",
   design="4 (C06)",
   note="Not covered: object/array/map/oneOf shapes, required lists, request bodies and parameter values sent by clients, error responses, schema satisfiability.",
   technique="contract-based deductive verification of the schema-building functions (at-call obligations), agreement lemmas over specification tables; bounded validation family with an independent JSON-Schema validator as replayer"),
 "C07": dict(
   text="Partial, type-level. Deductive: the TypeScript scalar type of every field is proved to be the documented JSON wire class (number for 32-bit integers and floats, for NUMBER-encoded 64-bit integers, for UNIX timestamps and NUMBER-encoded enums; string for default 64-bit integers, bytes, RFC 3339/DATE timestamps; boolean), list and message field types are proved compositional, and the presence marker of every declared property - `| null` iff nullable, else `?:` iff optional - is proved for plain and for flattened properties (event obligations on the printer calls). Lemmas relate the TypeScript table to the OpenAPI table. A structural rule shows both TypeScript plugins declare message and enum types through the same tscommon functions. The collector of declarations is proved to register every type name a declaration can mention: the message itself and, on first visit, the enum and message types of all its fields, map values included.",
   design="4 (C07)",
   note="No TypeScript checker is installed: declarations are read as the format strings the generator prints. Interfaces, unions, Record<> shapes and the TS server's handler argument are not covered; nested annotated values deviate on the wire (C05 findings).",
   technique="contract-based deductive verification of the TypeScript type-table and declaration-printing functions (functional contracts, at-call obligations), agreement lemmas, structural sharing rule"),
 "C13": dict(
   text="Partly deductive, mostly bounded, and said so: what a contract can state is proved for all definitions - the import block of the emitted Go client agrees with what the emitted text uses (net/url is imported iff some RPC's URL code mentions it, bytes iff some RPC sends a body; deciders, import writer and per-RPC emitters carry contracts with text-event obligations, linked by a lemma to the per-RPC configuration), and the duplicated codec emitters of the two Go plugins are congruent (C14 rule), so one plugin's codec file compiles iff the other's does. Well-typedness of emitted Go in general is not expressible here; it is decided on a bounded family that really builds and vets the packages (62 definitions x {go-http, go-client, both}, run in the quick tier too). The family found ten genuine defects: one repaired (fix: %%w in emitted Errorf, a go vet failure), nine recorded as known findings by family member.",
   design="4 (C13)",
   note="TypeScript output is not checked (no TypeScript toolchain installed). Trusted: protoc-gen-go output, go build/vet as oracle.",
   technique="contract-based deductive verification of the import/usage agreement (functional contracts, text-event obligations, lemma) + structural congruence rule; bounded build-and-vet family of emitted packages as replayer and stand-in"),
 "C20": dict(
   text="Deductive for the constant part: the emitted example selectors (string, int, bool, float) are proved for every example table and every field path to return one of the field's declared examples parsed to the field's type whenever the list is non-empty and parses, the default only otherwise (rand.Intn as an arbitrary index), and the mock field emitters are proved to terminate on recursive response types (C16 measure). Whether the mock file builds and whether each per-field assignment uses the selector of the field's kind under the table's key depends on the descriptor and is decided by bounded families run in the quick tier too: 47 definitions built and vetted with generate_mock=true, and a mock RPC invoked 60 times, serialised, and compared with the declared examples. Three genuine defects found this way were repaired by fix: commits (non-termination, ill-typed assignments, nested example keys).",
   design="4 (C20)",
   note="Not checked: conformance of the mock answer to the published OpenAPI schema (C06 is not decidable here). Trusted: strconv, math/rand range, protojson.",
   technique="contract-based deductive verification of the extracted emitted selector templates + termination contracts; bounded build/vet and runtime families as replayer and stand-in"),
 "C16": dict(
   text="Deductive where a contract can state it: every function on a static call cycle of the generator packages (41 today) carries a `decreases` measure whose VC is discharged at every recursive call (nesting depth of descriptors, or the number of full names not yet in a visited/on-stack set, with the set-growth invariants proved through the loops); a structural rule refuses any recursive function without a measure and any loop that is not a range over a finite collection or a simple counting loop; a zero-annotation bounds sweep proves every index, slice, type-assertion and explicit-panic site of all 550 functions of the generator packages and the five plugin mains unreachable-or-in-range for all arguments. Two genuine defects found this way were repaired with fix: commits (unbounded mock recursion on self-containing response types, panic-on-error in the OpenAPI main). Crash-freedom of whole plugin runs is additionally sampled by a bounded family (descriptor shapes x plugins x parameters, thorough tier) that also serves as the replayer. The sweep also proves that a pointer which the code itself may have set to nil (a callee's `return nil`) is not nil where it is dereferenced.",
   design="4 (C16)",
   note="Trusted: termination and panic-freedom of protogen/protobuf-go/libopenapi/yaml/fmt; the finite universe of full names (measure axioms in spec/trusted/descriptors.spec); protogen hands out non-nil descriptors (nil dereferences are outside the sweep). Static call graph only. 'Bounded time' is established as termination, not as a time bound; memory only through the family's cap (bounded).",
   technique="contract-based deductive verification: termination measures (decreases) with loop invariants, zero-annotation bounds/no-panic VCs for every generator function, structural recursion/loop inventory; bounded plugin-run family as replayer"),
 "C18": dict(
   text="Deductive on the generator code that decides the document's structure: the path-parameter builder is proved to declare exactly the variables of the path template (each required, in template order), the template variables are proved to be those of the FULL template (base path included; the missing base-path variables were repaired by a fix: commit), query parameters are exactly the query-annotated fields, each RPC yields exactly one operation whose id is the RPC name and which is filed under the decided verb and template (event obligations), operation ids are proved unique from protoc's name uniqueness, the message collector is proved to reach the request/response types and, from every collected message, the message types of its fields, map values and nested declarations (with its termination), and both renderings are proved to be made from the same document: JSON is the marshalling of the decoded YAML bytes (the YAML-1.1 key corruption found by the replay family was repaired by a fix: commit); the plugin main is proved to write exactly one file per service, named after it, in the format selected by the parameter table. Statements the tree does not satisfy are recorded as known findings by obligation (schema-name collisions, repeated template variable, duplicate query names, overwritten operation, output file-name collisions), each replayed through the real plugin with an independent document validator.",
   design="4 (C18)",
   note="Trusted: libopenapi/yaml/json render what they are given; ExtractPathParams is an assumed (regexp) contract. Not proved: that schema builders emit $ref only to collected messages (bounded family: recursive, nested, imported, map, oneof, unwrap, flatten shapes x 4 format parameters).",
   technique="contract-based deductive verification (functional contracts with loop invariants, event/at-call obligations, lemmas over contracts), z3/cvc5 race; bounded document family with independent validator as replayer"),
 "C09": dict(
   text="Deductive, on the extracted constant templates: validateHeaders is proved (map-building loops and a map-range loop verified for arbitrary iteration order) to reject exactly when some effective required declaration is unsatisfied, with one violation list; the type/format validators are pinned per type and format; the request pipeline checks headers first and reads no body before they passed; lemmas state acceptance/rejection and the 'method declaration replaces service declaration' rule, whose optional-override class is a known finding replayed with httptest; CombineHeaders (what OpenAPI publishes) is verified separately.",
   design="4 (C09)",
   note="Trusted: strconv/time/utf8/net/http observers; header names distinct modulo case per level (precondition). Per-route header tables checked on the extraction schema only (bounded). TS validators not decidable here.",
   technique="contract-based deductive verification of extracted emitted Go (loop invariants over maps, arbitrary map order), lemmas over contracts, z3/cvc5 race"),
 "C19": dict(
   text="Deductive: each rule-to-keyword translator (int32, int64, float, double, string, repeated, map, required) is verified against a contract describing the published keywords, and per kind the property is proved as a lemma over those contracts for ALL values: rule satisfied <=> keywords satisfied by the JSON form (bounds incl. exclusive ones, const, in, lengths, item and pair counts, uniqueness, formats). The exclusive-bound defect found by the check (boolean exclusiveMinimum/Maximum) was repaired by a fix: commit; string-encoded 64-bit kinds, bounds beyond 2^53, untagged string scalars and the untranslated rule kinds are known findings. Violations are replayed with an independent JSON-Schema validator on probe values around every bound.",
   design="4 (C19), appendix E.3",
   note="Trusted spec transcriptions: buf.validate rule semantics, JSON-Schema 2020-12 keyword subset, renderings of numbers by strconv/fmt denote the printed value, float64(int64) exact up to 2^53. Not attempted: regex equivalence of pattern; excluded ranges (lt < gt).",
   technique="contract-based deductive verification: functional contracts on the translators, universally quantified rule/schema equivalence lemmas, z3/cvc5 race; differential family replay with python jsonschema"),
 "C02": dict(
   text="Deductive, on the constant request-pipeline template extracted from the working-tree plugin on every run (template constancy is proved structurally, so the extracted instance is every instance): event obligations on the BindingMiddleware closure (exactly one of dispatch/error per request; URL binders run after body decoding so URL values survive the body; dispatch only when every binder and validation returned nil), the per-kind contract of convertStringToFieldValue, content-type dispatch of the body binder. The body-wipes-URL-fields defect found by the check was repaired (fix: commit) after an httptest replay on the emitted server. The query binder is proved to reject a request in which a required query parameter is absent, whatever the URL looks like.",
   design="4 (C02), 3",
   note="Trusted: protojson/proto Unmarshal reset the message first; net/http PathValue/Query, strconv and protoreflect are observers. Not proved: the per-field equality 'message field == converted URL value' inside bindPathParams/bindQueryParams (needs a model of protoreflect.Message.Set); TypeScript server half.",
   technique="contract-based deductive verification of extracted emitted Go: event/at-call obligations and functional contracts, z3/cvc5 race; structural template-constancy rule"),
 "C10": dict(
   text="Deductive decision-table contracts on the emitted error path (writeErrorWithHandler hook table per the documented ErrorHandler contract, defaultErrorResponse, defaultErrorStatusCode, genericHandler adapter, response writers' codec/Content-Type table) and on the emitted client's error mapping and codec helpers, plus http.Error.Error(); all extracted fresh from the working tree. Header violations are proved to carry the declared header name.",
   design="4 (C10)",
   note="Trusted: errors.As (direct-hit axiom only), net/http ResponseWriter protocol, protojson/proto. Not covered: dotted field paths of convertProtovalidateError beyond panic-freedom, TS clients.",
   technique="contract-based deductive verification of extracted emitted Go (event/at-call obligations), z3/cvc5 race"),
 "C11": dict(
   text="Deductive: panic-freedom obligations (index, slice, nil dereference, type assertion, nil-map write) on the emitted server templates and the emitted client methods of the extraction schema, decode-or-400 obligations (a request is dispatched only if a decoder accepted the whole body; decoder errors reach the error path), and the generator-side lemma that path variables are singular scalars (which makes the reflective Set safe). The root-unwrap list decoder is proved to treat anything but one JSON array (trailing bytes included) as an error and to decode every element with the strict decoder.",
   design="4 (C11)",
   note="Trusted: net/http well-formedness of handler requests, Client.Do/NewRequest postconditions, protoreflect kind/value agreement. Not covered: hangs/5xx inside libraries, schema-dependent custom decoders, client RPC methods beyond the extraction schema (bounded).",
   technique="contract-based deductive verification of extracted emitted Go with safety VCs, z3/cvc5 race"),
 "C14": dict(
   text="Structural proof rule (congruence): every function of the eight duplicated codec emitters in httpgen has a token-identical twin in clientgen (modulo comments and the header writer's name), callees being shared or twins, hence equal output for equal input; header writers differ only in the generator name; both generateFile functions run each codec emitter under the same condition (file-set rule). The service-less file-set defect was repaired (fix: commit); the missing client unwrap emitter is a known finding. Violations are replayed by running both plugins on a codec family.",
   design="4 (C14), 2.3 S3",
   note="Congruence is syntactic: a semantically equal but textually different rewrite of one copy is reported. protogen printing is trusted.",
   technique="structural relational proof rule (congruence of duplicated emitters) + file-set rule; family replay through the real plugins"),
 "C15": dict(
   text="Deductive contract for CombineHeaders proved for an arbitrary map iteration order (result sorted by name, entries from the inputs, keyed by non-empty names), plus structural rules: the only range-over-map loops in the generators are the contracted ones, no generator or plugin main reads clock/randomness/environment/files or writes package-level state or starts goroutines, and generator objects keep no cross-file state. Every constructor of the per-service OpenAPI generator takes values only, so the documents of one invocation share no mutable object (structural rule).",
   design="4 (C15)",
   note="Trusted: protogen/yaml/libopenapi emit in insertion order. tscommon OrderedEnums is inventoried by the map-range rule but its sortedness contract is not written yet.",
   technique="contract-based deductive verification (map-range for arbitrary order) + structural purity rules"),
 "C17": dict(
   text="Ownership discipline, proved structurally on the extracted emitted server and client: package-level state is written only inside sync.Once.Do and read after it; client methods assign no client field and never let the shared defaultHeaders map escape; per-route configuration is passed by value (event obligations on the emitted Register function: each route receives its own method headers, parameter tables, verb and pattern). Every request is proved to be bound, validated and dispatched in a message allocated while serving that request (no pooling or sharing between requests).",
   design="4 (C17)",
   note="No schedule is explored. Trusted: Go memory model, documented thread-safety of http.Client, ServeMux, sync.Once, validator. Registration is checked on the extraction schema (bounded over schemas).",
   technique="ownership/frame proof rules on extracted emitted Go + event obligations, z3/cvc5 race"),
 "C12": dict(
   text="Deductive: every annotation validator is verified as an iff decision against the rule transcribed from the property (unwrap, nullable, empty_behavior, timestamp_format, bytes_encoding, flatten field rules, oneof discriminator rules, enum conflict, HTTP path/query/bodiless rules), each error message is proved to name the offender, and the wiring is proved by recursion over the nesting tree: Generate() of go-http and go-client returning nil implies every message at every depth of every generated file satisfies every rule (termination measures included). Run-level lemmas state the property per file; the imported-file class is a known finding; a bounded family replays every rule x placement on the real plugins.",
   design="4 (C12), appendix E.1",
   note="Trusted: govc, solvers, protobuf-go observers and descriptor well-formedness axioms (spec/trusted/descriptors.spec). Assumed contract: ValidateFlattenCollisions (iff to an opaque predicate). The two undocumented 'only one MarshalJSON feature' refusals are outside the proved converse. Acceptance of valid definitions by ts-client/ts-server/openapiv3 is only covered by the bounded family (thorough tier). protogen emits no files when the plugin returns an error (trusted).",
   technique="contract-based deductive verification: iff contracts per validator, recursive wiring contracts with loop invariants and decreases clauses, lemmas over contracts, z3/cvc5 race"),
 "C03": dict(
   text="Deductive: the route-deciding functions of all five generators are verified against contracts (VCs from their source, SMT-discharged), and the pairwise agreement of verb, path template, path variables and body/query placement is proved as lemmas over those contracts for a symbolic service/method; disagreement classes that exist today are split off as known findings and replayed against the real plugins. The OpenAPI generator is proved to publish, for every RPC and every verb, exactly the query parameter list that the clients send (contract on processMethod, lemma C03.query.openapi).",
   design="4 (C03), 2.9",
   note="Trusted: govc, SMT solvers, protobuf-go observers (Options/GetExtension purity and dynamic types), string library models, assumed contracts ExtractPathParams (regexp) and camelToSnake (rune loop). Not proved here: that every emitter prints exactly the decided value (dataflow decision->gf.P), ServeMux/TypeScript/YAML syntax.",
   technique="contract-based deductive verification: weakest-precondition style VCs over go/ast+go/types against //@ contracts, lemmas over contracts, z3/cvc5 race"),
}

def main():
    props=[json.loads(l) for l in open('/verif/properties.jsonl')]
    checks=[]; na=[]
    for p in props:
        pid=p['id']
        if pid in CLAIMED:
            c=CLAIMED[pid]
            checks.append({
              "property_id": pid,
              "quick_cmd": f"bin/govc check {pid} --tier quick",
              "thorough_cmd": f"bin/govc check {pid} --tier thorough",
              "evidence_file": f"/verif/evidence/{pid}.json",
              "replay_cmd_template": "bin/govc replay {path}",
              "engine": "govc",
              "level_claimed": {"category": "proof", "text": c['text'], "design_ref": c['design']},
              "level_note": c['note'],
              "technique": c['technique'],
            })
        else:
            na.append({"property_id": pid, "reason": NA.get(pid, PENDING)})
    hooks=subprocess.run(['git','-C','/repo','log','--format=%H %s','--grep=^verif hook'],capture_output=True,text=True).stdout.strip().split('\n')
    m={"version":1,
       "setup_cmd":"./setup.sh",
       "hooks":{"guard":"verif",
                "enable":"contracts are comment-only Go files (zz_verif_contracts*.go) behind //go:build verif; govc reads them as text, `go build -tags verif` compiles them to nothing",
                "baseline_off_cmd":"cd /repo && go test -vet=off -count=1 ./...",
                "source_commits":[h.split()[0] for h in hooks if h],
                "add_only":True},
       "engines":[{"name":"govc","path":"/verif/govc","serves_properties":sorted(CLAIMED),
                   "kind_free_text":"home-made VC generator for Go (symbolic execution over go/ast+go/types against //@ contracts; lemmas over contracts; structural proof rules), SMT-LIB obligations raced on z3 4.8.12 / z3 5.1.0 / cvc5 1.0; counterexamples replayed by running the working-tree plugins on synthesised descriptors"}],
       "checks":checks,
       "notes":"See DESIGN.md. known_findings.json lists genuine defects by obligation name; evidence/ is rewritten by every run.",
       "not_applicable":na}
    json.dump(m,open('/verif/MANIFEST.json','w'),indent=1)
    print("claimed:",sorted(CLAIMED),"n/a:",len(na))

main()
