package main

// Symbolic executor over go/ast + go/types: paths, states, obligations.

import (
	"os"
	"runtime/debug"
	"fmt"
	"go/ast"
	"go/constant"
	"go/token"
	"go/types"
	"sort"
	"strings"
)

type unsupported struct {
	msg string
	pos token.Pos
}

func (ex *Exec) unsupp(pos token.Pos, format string, args ...any) {
	panic(unsupported{fmt.Sprintf(format, args...), pos})
}

type Event struct {
	Name string
	Args []string
	Pos  token.Pos
}

type Path struct {
	vars    map[types.Object]Value
	names   map[string]Value
	heap    map[string]string
	heapGen string
	pc      []string
	events  []Event
	allocs  []string
	oldHeap map[string]string // pre-state heap for old()
	oldGen  string
	entry   map[string]Value // entry values of params by contract name
	inOld   bool
	ghostGen int
	now     string // allocation clock: every reference obtained so far was born before `now`
	cells   map[types.Object]string // locals whose address was taken: they live in a heap cell from then on
	private map[string]bool // objects allocated by the unit whose reference has not left its locals yet (escape.go)
	noPrivate bool          // a function literal was created: captured locals may leak any later reference
	blank   map[string]bool // private objects created by an empty composite literal (&T{}): they reference nothing older
}

func NewPath() *Path {
	return &Path{vars: map[types.Object]Value{}, names: map[string]Value{}, heap: map[string]string{}, entry: map[string]Value{}, now: "0"}
}

func (p *Path) Clone() *Path {
	q := &Path{vars: make(map[types.Object]Value, len(p.vars)), names: make(map[string]Value, len(p.names)),
		heap: make(map[string]string, len(p.heap)), heapGen: p.heapGen, oldHeap: p.oldHeap, oldGen: p.oldGen, entry: p.entry, inOld: p.inOld, ghostGen: p.ghostGen, now: p.now}
	for k, v := range p.vars {
		q.vars[k] = v
	}
	if len(p.cells) > 0 {
		q.cells = make(map[types.Object]string, len(p.cells))
		for k, v := range p.cells {
			q.cells[k] = v
		}
	}
	for k, v := range p.names {
		q.names[k] = v
	}
	for k, v := range p.heap {
		q.heap[k] = v
	}
	q.pc = append([]string(nil), p.pc...)
	q.events = append([]Event(nil), p.events...)
	q.allocs = append([]string(nil), p.allocs...)
	q.noPrivate = p.noPrivate
	if len(p.blank) > 0 {
		q.blank = make(map[string]bool, len(p.blank))
		for k := range p.blank {
			q.blank[k] = true
		}
	}
	if len(p.private) > 0 {
		q.private = make(map[string]bool, len(p.private))
		for k := range p.private {
			q.private[k] = true
		}
	}
	return q
}

func (p *Path) Assume(f string) {
	if f == "true" || f == "" {
		return
	}
	p.pc = append(p.pc, f)
}

func (p *Path) PC() string { return and(p.pc...) }

type OblInst struct {
	PC   string
	PCs  []string
	Goal string
	Pos  string
	Note string
}

type Obligation struct {
	Name  string
	Kind  string // ensures | requires | invariant | assert | safety | decreases | lemma | canary | cover
	Text  string
	Func  string
	Insts []OblInst
}

type outcome struct {
	p    *Path
	kind int // 0 normal, 1 break, 2 continue, 3 return, 4 panic
	rets []Value
	lbl  string
}

const (
	oNormal = iota
	oBreak
	oContinue
	oReturn
	oPanic
)

type Exec struct {
	w        *World
	c        *Ctx
	info     *types.Info
	pkg      *types.Package
	fi       *FuncInfo
	contract *Contract
	obls     map[string]*Obligation
	oblOrder []string
	funcKey  string

	inlineStack  []string
	loopOrd      int
	notes        []string
	usedContract map[string]bool
	inlined      map[string]bool
	observers    map[string]bool
	havocked     map[string]bool
	safety       bool // record safety (no-panic) obligations
	traceEvents  bool
	contractMode int
	curFnSig     *types.Signature
	guards       []string // guard stack for partial-evaluation obligations
	quantFacts   *[]string
	mutualGroup  map[string]bool
	lemmaMode    bool
	oblCalls     bool // callee preconditions become obligations (code and lemma steps) rather than guards
	lastVariadic []Value
	subsStack    []map[string]*CExpr
	closures      map[string]*closure
	boundMethods  map[string]*boundMethod
	heapPureCache map[string]int
	recDefining   map[string]bool
	revealAll     map[string]bool // hidden spec functions revealed for the whole run of this executor (lemmas with `reveal`)
	qvarCounter   int
	linking       bool
	skipped       map[string]bool
	inEvent       bool
	axiomSkipped  map[string]int
	lastFieldWrites   []string
	lastUnknownWrites bool
	curCall           *ast.CallExpr
	boundsOnly        bool
	evaluatingAtCall  bool
	ghostTerms        map[string]ghostRec // store terms built by ghostWrite -> (base array, value written)
	pfEvents          []string // the same for printf-style printers passed as function values named p (count("p:<substring of the format>"))
	pEvents           []string // substrings of emitted text the contract under verification counts (count("P:<substring>"))
	keySorts          map[string]string // array sorts of heap keys seen by the write-set scans
	havocWhy          []string // why the whole mutable heap was forgotten (diagnostics of frame[*])
	frame             *frameInfo // what the contract under verification allows the body to change (nil: no frame checking)
	lastFieldWhole    map[string]bool // heap fields assigned as a whole (not only element-wise) in the last scanned loop body
	lastWholeAssigned map[types.Object]bool // variables assigned as a whole (not only element-wise) in the last scanned loop body
	noBirth           int // > 0 while an axiom / recursive definition is being translated
	paramAlias        map[string]*types.Var // contract parameter name -> parameter object (parameters bind by position)
	decoderFn         *types.Func
	decoderTarget     string // set by callFunc for a library decoder whose target is a blank private object (escape.go)
	localOrd          map[types.Object]int // declaration ordinal of every local of the unit (locals.go)
	movedLoops        map[ast.Node]bool // loops under invariant that now live in an inlined helper (locals.go: remapMovedLoops)
	loopOrdinals      map[ast.Node]int // static (source-order) ordinal of every loop of the unit under verification
}

func NewExec(w *World, c *Ctx) *Exec {
	return &Exec{w: w, c: c, obls: map[string]*Obligation{}, usedContract: map[string]bool{}, inlined: map[string]bool{},
		observers: map[string]bool{}, havocked: map[string]bool{}, closures: map[string]*closure{}, boundMethods: map[string]*boundMethod{},
		heapPureCache: map[string]int{}, recDefining: map[string]bool{}, skipped: map[string]bool{}, axiomSkipped: map[string]int{}}
}

func (ex *Exec) note(format string, args ...any) {
	ex.notes = append(ex.notes, fmt.Sprintf(format, args...))
}

func (ex *Exec) addObl(p *Path, name, kind, text, goal string, pos token.Pos, note string) {
	if goal == "true" {
		// still record so that the count reflects it, but as trivially discharged instance
	}
	o := ex.obls[name]
	if o == nil {
		o = &Obligation{Name: name, Kind: kind, Text: text, Func: ex.funcKey}
		ex.obls[name] = o
		ex.oblOrder = append(ex.oblOrder, name)
	}
	pcs := append([]string(nil), p.pc...)
	pcs = append(pcs, ex.guards...)
	o.Insts = append(o.Insts, OblInst{PC: and(pcs...), PCs: pcs, Goal: goal, Pos: ex.w.pos(pos), Note: note})
}

// ---------------------------------------------------------------------------------------
// heap

func heapKeyOf(named *types.Named, field string) string {
	return structKey(named, nil) + "." + field
}

func (ex *Exec) isMutableKey(key string) bool {
	// keys of repository struct types, deref cells and globals are mutable; external struct
	// types (descriptors, protobuf messages built by protoc) are never written by generator code.
	if strings.HasPrefix(key, "deref:") {
		switch key {
		case "deref:Bool", "deref:Int", "deref:String", "deref:Real":
			// cells of pointers to basic types (proto.Bool(true), &x): mutable only if some code assigns through such a pointer
			return ex.w.WrittenFields()[key]
		}
		return true
	}
	return strings.HasPrefix(key, "~") || strings.HasPrefix(key, "global:")
}

func (ex *Exec) heapKey(named *types.Named, field string) string {
	k := heapKeyOf(named, field)
	if ex.extMutable(named) {
		if strings.Contains(named.Obj().Pkg().Path(), "libopenapi") && !ex.w.WrittenFields()[k] {
			// OpenAPI model objects are plain data: a field the generator never assigns keeps the value it was built with
			ex.c.Trust("libopenapi does not modify the fields of the high-level model objects handed to it")
			return k
		}
		if ex.w.WrittenFields(); strings.HasSuffix(named.Obj().Pkg().Path(), "sebuf/http") && !ex.w.directWritten[k] {
			// annotation messages (what protoc decoded from the options of a descriptor): read-only data like the descriptors
			// themselves; the runtime messages of the same package (errors, violations) are built and filled by emitted code
			switch named.Obj().Name() {
			case "Error", "ValidationError", "FieldViolation":
			default:
				ex.c.Trust("sebuf.http annotation messages (Header, HttpConfig, ...) are read-only option data: no code assigns their fields and libraries they are handed to do not either")
				return k
			}
		}
		return "~" + k
	}
	if named.Obj().Pkg() != nil && ex.w.RepoPaths[named.Obj().Pkg().Path()] && ex.w.WrittenFields()[k] {
		// (a repository field that no code ever assigns after allocation is kept in an immutable array: modref.go)
		return "~" + k
	}
	return k
}

// extMutable: external struct types that the code under verification does write (OpenAPI schema objects, http.Request ...).
func (ex *Exec) extMutable(named *types.Named) bool {
	if named.Obj().Pkg() == nil {
		return false
	}
	p := named.Obj().Pkg().Path()
	return strings.Contains(p, "libopenapi") || p == "net/http" || p == "net/url" || strings.HasSuffix(p, "sebuf/http")
}

func (ex *Exec) heapArr(p *Path, key, valSort string) string {
	heap, gen := p.heap, p.heapGen
	if p.inOld && p.oldHeap != nil {
		heap, gen = p.oldHeap, p.oldGen
	}
	if t, ok := heap[key]; ok {
		return t
	}
	name := "H:" + key
	if ex.isMutableKey(key) && gen != "" {
		name += "@" + gen
	}
	arr := ex.c.Const(name, "(Array Ref "+valSort+")")
	if strings.HasPrefix(valSort, "|Slice:") {
		// type invariant of every slice stored in the (base) heap: non-negative length
		k := strings.TrimSuffix(strings.TrimPrefix(valSort, "|Slice:"), "|")
		ex.c.Axiom("heapinv:"+name, "(forall ((r Ref)) (! (>= (|slen:"+k+"| (select "+arr+" r)) 0) :pattern ((select "+arr+" r))))")
	}
	return arr
}

func (ex *Exec) heapRead(p *Path, key string, ft types.Type, ref string) Value {
	fs := ex.c.SortOf(ft)
	v := Value{"(select " + ex.heapArr(p, key, fs) + " " + ref + ")", ft}
	if inv := ex.c.typeInvariant(v); inv != "true" && ex.quantFacts == nil {
		ex.assumeFact(p, inv)
	}
	if fs == "Ref" && !p.inOld {
		ex.bornBefore(p, v.T)
	}
	return v
}

func (ex *Exec) heapWrite(p *Path, key string, ft types.Type, ref string, val string) {
	fs := ex.c.SortOf(ft)
	ex.escapeIn(p, val)
	t := "(store " + ex.heapArr(p, key, fs) + " " + ref + " " + val + ")"
	if len(t) > 600 && ex.quantFacts == nil && !boundVarRe.MatchString(t) {
		// name the new heap: later reads would otherwise copy the whole store chain at every use
		c := ex.c.Fresh("H:"+key, "(Array Ref "+fs+")")
		p.Assume(eq(c, t))
		t = c
	}
	p.heap[key] = t
}

// havocMutableHeap forgets everything about mutable heap cells.
func (ex *Exec) havocMutableHeap(p *Path) {
	if os.Getenv("GOVC_DEBUG_PRIVATE") != "" && len(p.private) > 0 {
		fmt.Fprintf(os.Stderr, "havocMutableHeap with private %v\n%s\n", p.private, debug.Stack())
	}
	for k := range p.heap {
		if ex.isMutableKey(k) {
			delete(p.heap, k)
		}
	}
	ex.c.fresh++
	p.heapGen = fmt.Sprintf("g%d", ex.c.fresh)
}

// havocLoopHeap forgets what a loop body may write: only the assigned fields when every heap write of the
// body is a direct field assignment, the whole mutable heap otherwise.
func (ex *Exec) havocLoopHeap(p *Path, fieldKeys []string, unknown bool) {
	if unknown || len(fieldKeys) == 0 {
		ex.havocWhy = append(ex.havocWhy, "loop whose body writes the heap through calls or pointers")
		ex.havocMutableHeap(p)
		return
	}
	for _, k := range fieldKeys {
		if t, ok := p.heap[k]; ok {
			if s := ex.sortOfHeapTerm(t); s != "" {
				p.heap[k] = ex.c.Fresh("H:"+k, s)
				if ex.lastFieldWhole != nil && !ex.lastFieldWhole[k] && strings.HasPrefix(s, "(Array Ref |Slice:") {
					// only element stores x.f[i] = v inside the loop: every length is unchanged
					sl := "|slen:" + strings.TrimSuffix(strings.TrimPrefix(s, "(Array Ref |Slice:"), "|)") + "|"
					p.Assume("(forall ((r Ref)) (= (" + sl + " (select " + p.heap[k] + " r)) (" + sl + " (select " + t + " r))))")
				}
				continue
			}
		}
		// not materialised on this path: find the sort from the declared base array
		name := "H:" + k
		if ex.isMutableKey(k) && p.heapGen != "" {
			name += "@" + p.heapGen
		}
		if s, ok := ex.c.funSeen[quote(name)]; ok {
			p.heap[k] = ex.c.Fresh("H:"+k, s)
		} else if s, ok := ex.keySorts[k]; ok {
			p.heap[k] = ex.c.Fresh("H:"+k, s)
		} else {
			ex.havocWhy = append(ex.havocWhy, "loop writing heap key "+k+" of unknown sort")
			ex.havocMutableHeap(p)
			return
		}
	}
}

// assumeFact adds a universally valid fact; inside a quantifier body it is collected for the binder.
func (ex *Exec) assumeFact(p *Path, f string) {
	if f == "true" {
		return
	}
	if len(ex.guards) > 0 {
		f = implies(and(ex.guards...), f)
	}
	if ex.quantFacts != nil {
		*ex.quantFacts = append(*ex.quantFacts, f)
		return
	}
	p.Assume(f)
}

func (ex *Exec) birthFun() string {
	f := ex.c.Fun("birth", []string{"Ref"}, "Int")
	ex.c.Axiom("birth.null", "(= ("+f+" null) (- 1))")
	return f
}

// alloc returns a fresh reference: born now, hence different from every reference obtained before.
func (ex *Exec) alloc(p *Path, hint string) string {
	r := ex.c.Fresh("new:"+hint, "Ref")
	p.Assume("(not (= " + r + " null))")
	for _, a := range p.allocs {
		p.Assume("(not (= " + r + " " + a + "))")
	}
	p.allocs = append(p.allocs, r)
	if !p.noPrivate && !ex.inContract() {
		if p.private == nil {
			p.private = map[string]bool{}
		}
		p.private[r] = true
	}
	p.Assume("(= (" + ex.birthFun() + " " + r + ") " + p.now + ")")
	p.now = "(+ " + p.now + " 1)"
	return r
}

// bornBefore records that a reference value read from the state existed before the current moment.
func (ex *Exec) bornBefore(p *Path, ref string) {
	if ref == "null" || ex.noBirth > 0 {
		// (inside an axiom or the definition of a recursive spec function there is no "now": the bound variables range
		// over every value, including slices that hold objects allocated later)
		return
	}
	ex.assumeFact(p, "(< ("+ex.birthFun()+" "+ref+") "+p.now+")")
}

// advanceClock: an unknown amount of allocation may have happened (call, loop iterations).
func (ex *Exec) advanceClock(p *Path) {
	n := ex.c.Fresh("now", "Int")
	p.Assume("(>= " + n + " " + p.now + ")")
	p.now = n
}

// ---------------------------------------------------------------------------------------
// statements

func (ex *Exec) execBlock(p *Path, stmts []ast.Stmt) []outcome {
	live := []*Path{p}
	var done []outcome
	for _, s := range stmts {
		var next []*Path
		for _, q := range live {
			for _, o := range ex.execStmt(q, s) {
				if o.kind == oNormal {
					next = append(next, o.p)
				} else {
					done = append(done, o)
				}
			}
		}
		live = ex.mergePaths(next)
		if len(live) == 0 {
			break
		}
		if len(live)+len(done) > 4096 {
			ex.unsupp(s.Pos(), "path cap exceeded (%d live paths)", len(live))
		}
	}
	for _, q := range live {
		done = append(done, outcome{p: q, kind: oNormal})
	}
	return done
}

// mergePaths joins fall-through paths with ite-merging when they share a common pc prefix and
// no event differences. It keeps the path count linear for sequences of independent ifs.
func (ex *Exec) mergePaths(ps []*Path) []*Path {
	if len(ps) <= 1 {
		return ps
	}
	// merge pairwise greedily
	out := []*Path{ps[0]}
	for _, q := range ps[1:] {
		merged := false
		for i, o := range out {
			if m := ex.tryMergeLoose(o.Clone(), q.Clone()); m != nil {
				out[i] = m
				merged = true
				break
			}
		}
		if !merged {
			out = append(out, q)
		}
	}
	return out
}

func sameEvents(a, b []Event) bool {
	// the event state that obligations read lives in ghost heap cells, which merge like any other heap cell; the
	// trace kept on the path is informational
	if os.Getenv("GOVC_STRICT_EVENT_MERGE") == "" {
		return true
	}
	if len(a) != len(b) {
		return false
	}
	for i := range a {
		if a[i].Name != b[i].Name || a[i].Pos != b[i].Pos || strings.Join(a[i].Args, ",") != strings.Join(b[i].Args, ",") {
			return false
		}
	}
	return true
}

func (ex *Exec) tryMerge(a, b *Path) *Path {
	if !sameEvents(a.events, b.events) {
		return nil
	}
	// common prefix of pc
	n := 0
	for n < len(a.pc) && n < len(b.pc) && a.pc[n] == b.pc[n] {
		n++
	}
	ca := and(a.pc[n:]...)
	cb := and(b.pc[n:]...)
	if ca == "true" && cb == "true" {
		// identical conditions; keep a if states agree
	}
	m := a.Clone()
	m.pc = append([]string(nil), a.pc[:n]...)
	m.pc = append(m.pc, or(ca, cb))
	if len(ca) > 48 && ex.quantFacts == nil {
		// name the branch condition: it is embedded in every ite of the merged state
		g := ex.c.Fresh("br", "Bool")
		m.pc = append(m.pc, "(= "+g+" "+ca+")")
		ca = g
	}
	// variables
	for k, va := range a.vars {
		vb, ok := b.vars[k]
		if !ok {
			continue
		}
		if va.T != vb.T {
			m.vars[k] = Value{ite(ca, va.T, vb.T), va.Ty}
		}
	}
	for k, vb := range b.vars {
		if _, ok := a.vars[k]; !ok {
			m.vars[k] = vb
		}
	}
	for k, va := range a.names {
		vb, ok := b.names[k]
		if ok && va.T != vb.T {
			m.names[k] = Value{ite(ca, va.T, vb.T), va.Ty}
		}
	}
	// heap
	keys := map[string]bool{}
	for k := range a.heap {
		keys[k] = true
	}
	for k := range b.heap {
		keys[k] = true
	}
	genDiffers := a.heapGen != b.heapGen
	for k := range keys {
		ta, oka := a.heap[k]
		tb, okb := b.heap[k]
		if oka && okb {
			if ta != tb {
				m.heap[k] = ite(ca, ta, tb)
			}
			continue
		}
		if !genDiffers {
			// one side still has the base array; we need its sort: recover from the other term is not
			// possible syntactically, so refuse to merge.
			return nil
		}
		// the two paths forgot the heap at different moments: the side that has not touched the key since still reads
		// its own generation's base array
		func() {
			defer func() {
				if r := recover(); r != nil {
					if _, isU := r.(unsupported); !isU {
						panic(r)
					}
					ta, tb = "", ""
				}
			}()
			if !oka {
				ta = ex.baseOf(tb, k, a)
			}
			if !okb {
				tb = ex.baseOf(ta, k, b)
			}
		}()
		if ta == "" || tb == "" {
			return nil
		}
		m.heap[k] = ite(ca, ta, tb)
	}
	if genDiffers {
		// keys neither path has materialised are unknown on both: one fresh generation stands for either
		ex.c.fresh++
		m.heapGen = fmt.Sprintf("g%d", ex.c.fresh)
	}
	if a.now != b.now {
		m.now = ite(ca, a.now, b.now)
	}
	m.noPrivate = a.noPrivate || b.noPrivate
	m.private = nil
	for r := range a.private {
		if b.private[r] {
			if m.private == nil {
				m.private = map[string]bool{}
			}
			m.private[r] = true
		}
	}
	// allocs: union
	seen := map[string]bool{}
	m.allocs = nil
	for _, x := range append(append([]string{}, a.allocs...), b.allocs...) {
		if !seen[x] {
			seen[x] = true
			m.allocs = append(m.allocs, x)
		}
	}
	return m
}

func (ex *Exec) execStmt(p *Path, s ast.Stmt) []outcome {
	switch st := s.(type) {
	case *ast.BlockStmt:
		return ex.execBlock(p, st.List)
	case *ast.ExprStmt:
		return ex.execExprStmt(p, st)
	case *ast.AssignStmt:
		ex.execAssign(p, st)
		return []outcome{{p: p}}
	case *ast.DeclStmt:
		gd := st.Decl.(*ast.GenDecl)
		if gd.Tok == token.VAR {
			for _, sp := range gd.Specs {
				vs := sp.(*ast.ValueSpec)
				if len(vs.Values) == 1 && len(vs.Names) > 1 {
					vals := ex.evalMulti(p, vs.Values[0])
					for i, n := range vs.Names {
						ex.define(p, n, vals[i])
					}
					continue
				}
				for i, n := range vs.Names {
					obj := ex.info.Defs[n]
					if obj == nil {
						continue
					}
					if i < len(vs.Values) {
						v := ex.eval(p, vs.Values[i])
						p.vars[obj] = ex.convert(p, v, obj.Type(), vs.Values[i].Pos())
					} else {
						p.vars[obj] = Value{ex.c.Zero(obj.Type()), obj.Type()}
					}
				}
			}
		}
		return []outcome{{p: p}}
	case *ast.IfStmt:
		return ex.execIf(p, st)
	case *ast.SwitchStmt:
		return ex.execSwitch(p, st)
	case *ast.TypeSwitchStmt:
		return ex.execTypeSwitch(p, st)
	case *ast.RangeStmt:
		return ex.execRange(p, st)
	case *ast.ForStmt:
		return ex.execFor(p, st)
	case *ast.ReturnStmt:
		return ex.execReturn(p, st)
	case *ast.BranchStmt:
		lbl := ""
		if st.Label != nil {
			lbl = st.Label.Name
		}
		switch st.Tok {
		case token.BREAK:
			return []outcome{{p: p, kind: oBreak, lbl: lbl}}
		case token.CONTINUE:
			return []outcome{{p: p, kind: oContinue, lbl: lbl}}
		}
		ex.unsupp(st.Pos(), "branch statement %s", st.Tok)
	case *ast.IncDecStmt:
		v := ex.eval(p, st.X)
		op := "+"
		if st.Tok == token.DEC {
			op = "-"
		}
		ex.assignTo(p, st.X, Value{"(" + op + " " + v.T + " 1)", v.Ty})
		return []outcome{{p: p}}
	case *ast.EmptyStmt:
		return []outcome{{p: p}}
	case *ast.DeferStmt:
		// only `defer x.Close()`-like calls whose effect is outside the modelled state
		switch f := st.Call.Fun.(type) {
		case *ast.FuncLit:
			ex.unsupp(st.Pos(), "deferred function literal")
		case *ast.Ident:
			if _, isBuiltin := ex.info.Uses[f].(*types.Builtin); isBuiltin {
				ex.unsupp(st.Pos(), "deferred builtin %s", f.Name)
			}
		}
		if ex.traceEvents {
			p.events = append(p.events, Event{Name: "DEFER", Pos: st.Pos()})
		}
		ex.note("defer at %s treated as effect-free on the modelled state", ex.w.pos(st.Pos()))
		return []outcome{{p: p}}
	case *ast.LabeledStmt:
		return ex.execStmt(p, st.Stmt)
	case *ast.GoStmt:
		ex.unsupp(st.Pos(), "go statement")
	}
	ex.unsupp(s.Pos(), "statement %T", s)
	return nil
}

func (ex *Exec) execExprStmt(p *Path, st *ast.ExprStmt) []outcome {
	if call, ok := st.X.(*ast.CallExpr); ok {
		if id, ok := call.Fun.(*ast.Ident); ok && id.Name == "panic" {
			if _, isBuiltin := ex.info.Uses[id].(*types.Builtin); isBuiltin {
				if ex.safety {
					ex.addObl(p, ex.funcKey+"#nopanic:panic@"+ex.siteLabel(call.Pos()), "safety", "explicit panic is unreachable", "false", call.Pos(), "")
				}
				return []outcome{{p: p, kind: oPanic}}
			}
		}
		ex.evalMulti(p, call)
		return []outcome{{p: p}}
	}
	ex.eval(p, st.X)
	return []outcome{{p: p}}
}

func (ex *Exec) define(p *Path, id *ast.Ident, v Value) {
	if id.Name == "_" {
		return
	}
	obj := ex.info.Defs[id]
	if obj == nil {
		obj = ex.info.Uses[id]
	}
	if obj == nil {
		ex.unsupp(id.Pos(), "cannot resolve %s", id.Name)
	}
	p.vars[obj] = ex.convert(p, v, obj.Type(), id.Pos())
}

func (ex *Exec) execAssign(p *Path, st *ast.AssignStmt) {
	if st.Tok != token.ASSIGN && st.Tok != token.DEFINE {
		// op-assign
		if len(st.Lhs) != 1 {
			ex.unsupp(st.Pos(), "op-assign arity")
		}
		l := ex.eval(p, st.Lhs[0])
		r := ex.eval(p, st.Rhs[0])
		var op token.Token
		switch st.Tok {
		case token.ADD_ASSIGN:
			op = token.ADD
		case token.SUB_ASSIGN:
			op = token.SUB
		case token.MUL_ASSIGN:
			op = token.MUL
		case token.OR_ASSIGN:
			op = token.OR
		case token.AND_ASSIGN:
			op = token.AND
		default:
			ex.unsupp(st.Pos(), "assignment operator %s", st.Tok)
		}
		ex.assignTo(p, st.Lhs[0], ex.binop(p, op, l, r, st.Pos()))
		return
	}
	var vals []Value
	if len(st.Rhs) == 1 && len(st.Lhs) > 1 {
		vals = ex.evalMulti(p, st.Rhs[0])
		if len(vals) != len(st.Lhs) {
			ex.unsupp(st.Pos(), "assignment arity %d != %d", len(vals), len(st.Lhs))
		}
	} else {
		for _, r := range st.Rhs {
			vals = append(vals, ex.eval(p, r))
		}
	}
	for i, l := range st.Lhs {
		if id, ok := l.(*ast.Ident); ok {
			if id.Name == "_" {
				continue
			}
			if st.Tok == token.DEFINE {
				if obj := ex.info.Defs[id]; obj != nil {
					p.vars[obj] = ex.convert(p, vals[i], obj.Type(), id.Pos())
					continue
				}
			}
		}
		ex.assignTo(p, l, vals[i])
	}
}

func (ex *Exec) assignTo(p *Path, lhs ast.Expr, v Value) {
	switch l := lhs.(type) {
	case *ast.Ident:
		if l.Name == "_" {
			return
		}
		obj := ex.info.Uses[l]
		if obj == nil {
			obj = ex.info.Defs[l]
		}
		if obj == nil {
			ex.unsupp(l.Pos(), "cannot resolve assignment target %s", l.Name)
		}
		if vr, ok := obj.(*types.Var); ok && vr.Parent() == vr.Pkg().Scope() {
			// package-level variable
			key := "global:" + vr.Pkg().Name() + "." + vr.Name()
			p.heap[key] = "(store " + ex.heapArr(p, key, ex.c.SortOf(vr.Type())) + " null " + ex.convert(p, v, vr.Type(), l.Pos()).T + ")"
			return
		}
		if r, ok := p.cells[obj]; ok {
			ex.heapWrite(p, "deref:"+sortToken(ex.c.SortOf(obj.Type())), obj.Type(), r, ex.convert(p, v, obj.Type(), l.Pos()).T)
			return
		}
		p.vars[obj] = ex.convert(p, v, obj.Type(), l.Pos())
	case *ast.ParenExpr:
		ex.assignTo(p, l.X, v)
	case *ast.SelectorExpr:
		base := ex.eval(p, l.X)
		ex.assignField(p, l.X, base, l.Sel.Name, v, l.Pos())
	case *ast.IndexExpr:
		base := ex.eval(p, l.X)
		idx := ex.eval(p, l.Index)
		switch bt := base.Ty.Underlying().(type) {
		case *types.Map:
			mk, dom, val, _ := ex.c.mapParts(base.Ty)
			k := ex.convert(p, idx, bt.Key(), l.Pos())
			nv := ex.convert(p, v, bt.Elem(), l.Pos())
			if ex.safety && !ex.boundsOnly {
				_, _, _, isnil := ex.c.mapParts(base.Ty)
				ex.addObl(p, ex.funcKey+"#nopanic:nilmap@"+ex.siteLabel(l.Pos()), "safety", "assignment to entry in nil map", not(app(isnil, base.T)), l.Pos(), "")
			}
			newMap := app(mk, "(store "+app(dom, base.T)+" "+k.T+" true)", "(store "+app(val, base.T)+" "+k.T+" "+nv.T+")", "false")
			ex.assignTo(p, l.X, Value{newMap, base.Ty})
		case *types.Slice, *types.Array:
			mk, arr, ln := ex.c.sliceParts(base.Ty)
			et := elemType(base.Ty)
			nv := ex.convert(p, v, et, l.Pos())
			ex.boundsObl(p, idx.T, app(ln, base.T), l.Pos())
			ns := app(mk, "(store "+app(arr, base.T)+" "+idx.T+" "+nv.T+")", app(ln, base.T))
			ex.assignTo(p, l.X, Value{ns, base.Ty})
		default:
			ex.unsupp(l.Pos(), "index assignment on %s", base.Ty)
		}
	case *ast.StarExpr:
		ptr := ex.eval(p, l.X)
		et := elemType(ptr.Ty)
		if _, isStruct := et.Underlying().(*types.Struct); isStruct {
			ex.unsupp(l.Pos(), "assignment through pointer to struct")
		}
		ex.nilObl(p, ptr, l.Pos())
		ex.heapWrite(p, "deref:"+sortToken(ex.c.SortOf(et)), et, ptr.T, ex.convert(p, v, et, l.Pos()).T)
	default:
		ex.unsupp(lhs.Pos(), "assignment target %T", lhs)
	}
}

func (ex *Exec) assignField(p *Path, baseExpr ast.Expr, base Value, field string, v Value, pos token.Pos) {
	switch bt := base.Ty.(type) {
	case *types.Pointer:
		named, ok := types.Unalias(bt.Elem()).(*types.Named)
		if !ok {
			ex.unsupp(pos, "field assignment through pointer to unnamed struct")
		}
		st, ok := named.Underlying().(*types.Struct)
		if !ok {
			ex.unsupp(pos, "field assignment on non-struct")
		}
		for i := 0; i < st.NumFields(); i++ {
			if st.Field(i).Name() == field {
				ex.nilObl(p, base, pos)
				ft := st.Field(i).Type()
				ex.heapWrite(p, ex.heapKey(named, field), ft, base.T, ex.convert(p, v, ft, pos).T)
				return
			}
		}
		// promoted field through embedded struct
		ex.unsupp(pos, "assignment to promoted field %s", field)
	default:
		if st, ok := base.Ty.Underlying().(*types.Struct); ok {
			// struct value: rebuild
			mk, _ := ex.c.structMk(base.Ty)
			var args []string
			found := false
			for i := 0; i < st.NumFields(); i++ {
				sel, ft, _ := ex.c.structFieldSel(base.Ty, st.Field(i).Name())
				if st.Field(i).Name() == field {
					args = append(args, ex.convert(p, v, ft, pos).T)
					found = true
				} else {
					args = append(args, app(sel, base.T))
				}
			}
			if !found {
				ex.unsupp(pos, "no field %s", field)
			}
			ex.assignTo(p, baseExpr, Value{app(mk, args...), base.Ty})
			return
		}
		ex.unsupp(pos, "field assignment on %s", base.Ty)
	}
}

func (ex *Exec) execIf(p *Path, st *ast.IfStmt) []outcome {
	if st.Init != nil {
		outs := ex.execStmt(p, st.Init)
		if len(outs) != 1 || outs[0].kind != oNormal {
			ex.unsupp(st.Pos(), "if-init with control flow")
		}
		p = outs[0].p
	}
	cond := ex.eval(p, st.Cond)
	var outs []outcome
	if cond.T != "false" {
		pt := p.Clone()
		pt.Assume(cond.T)
		outs = append(outs, ex.execBlock(pt, st.Body.List)...)
	}
	if cond.T != "true" {
		pe := p.Clone()
		pe.Assume(not(cond.T))
		if st.Else != nil {
			outs = append(outs, ex.execStmt(pe, st.Else)...)
		} else {
			outs = append(outs, outcome{p: pe})
		}
	}
	return ex.mergeOutcomes(outs)
}

func (ex *Exec) mergeOutcomes(outs []outcome) []outcome {
	var normals []*Path
	var rest []outcome
	for _, o := range outs {
		if o.kind == oNormal {
			normals = append(normals, o.p)
		} else {
			rest = append(rest, o)
		}
	}
	for _, q := range ex.mergePaths(normals) {
		rest = append(rest, outcome{p: q})
	}
	return rest
}

func (ex *Exec) execSwitch(p *Path, st *ast.SwitchStmt) []outcome {
	if st.Init != nil {
		outs := ex.execStmt(p, st.Init)
		if len(outs) != 1 || outs[0].kind != oNormal {
			ex.unsupp(st.Pos(), "switch-init with control flow")
		}
		p = outs[0].p
	}
	var tag *Value
	if st.Tag != nil {
		v := ex.eval(p, st.Tag)
		tag = &v
	}
	var outs []outcome
	notPrev := []string{}
	var defaultClause *ast.CaseClause
	for _, cs := range st.Body.List {
		cc := cs.(*ast.CaseClause)
		if cc.List == nil {
			defaultClause = cc
			continue
		}
		var conds []string
		for _, e := range cc.List {
			v := ex.eval(p, e)
			if tag != nil {
				conds = append(conds, ex.binop(p, token.EQL, *tag, v, e.Pos()).T)
			} else {
				conds = append(conds, v.T)
			}
		}
		c := or(conds...)
		q := p.Clone()
		q.Assume(and(append(append([]string{}, notPrev...), c)...))
		for _, s := range cc.Body {
			if b, ok := s.(*ast.BranchStmt); ok && b.Tok == token.FALLTHROUGH {
				ex.unsupp(b.Pos(), "fallthrough")
			}
		}
		for _, o := range ex.execBlock(q, cc.Body) {
			if o.kind == oBreak && o.lbl == "" {
				o.kind = oNormal
			}
			outs = append(outs, o)
		}
		notPrev = append(notPrev, not(c))
	}
	q := p.Clone()
	q.Assume(and(notPrev...))
	if defaultClause != nil {
		for _, o := range ex.execBlock(q, defaultClause.Body) {
			if o.kind == oBreak && o.lbl == "" {
				o.kind = oNormal
			}
			outs = append(outs, o)
		}
	} else {
		outs = append(outs, outcome{p: q})
	}
	return ex.mergeOutcomes(outs)
}

func (ex *Exec) execTypeSwitch(p *Path, st *ast.TypeSwitchStmt) []outcome {
	if st.Init != nil {
		outs := ex.execStmt(p, st.Init)
		if len(outs) != 1 || outs[0].kind != oNormal {
			ex.unsupp(st.Pos(), "typeswitch-init with control flow")
		}
		p = outs[0].p
	}
	var x ast.Expr
	var bind *ast.Ident
	switch a := st.Assign.(type) {
	case *ast.ExprStmt:
		x = a.X.(*ast.TypeAssertExpr).X
	case *ast.AssignStmt:
		x = a.Rhs[0].(*ast.TypeAssertExpr).X
		bind = a.Lhs[0].(*ast.Ident)
	}
	v := ex.eval(p, x)
	var outs []outcome
	notPrev := []string{}
	var defaultClause *ast.CaseClause
	for _, cs := range st.Body.List {
		cc := cs.(*ast.CaseClause)
		if cc.List == nil {
			defaultClause = cc
			continue
		}
		var conds []string
		var single types.Type
		for _, te := range cc.List {
			if id, ok := te.(*ast.Ident); ok && id.Name == "nil" {
				conds = append(conds, ex.isNilTerm(v))
				continue
			}
			t := ex.info.TypeOf(te)
			conds = append(conds, ex.typeTest(p, v, t))
			single = t
		}
		c := or(conds...)
		q := p.Clone()
		q.Assume(and(append(append([]string{}, notPrev...), c)...))
		if bind != nil {
			if obj := ex.info.Implicits[cc]; obj != nil {
				if len(cc.List) == 1 && single != nil {
					q.vars[obj] = ex.assertedValue(v, single)
				} else {
					q.vars[obj] = v
				}
			}
		}
		for _, o := range ex.execBlock(q, cc.Body) {
			if o.kind == oBreak && o.lbl == "" {
				o.kind = oNormal
			}
			outs = append(outs, o)
		}
		notPrev = append(notPrev, not(c))
	}
	q := p.Clone()
	q.Assume(and(notPrev...))
	if defaultClause != nil {
		if bind != nil {
			if obj := ex.info.Implicits[defaultClause]; obj != nil {
				q.vars[obj] = v
			}
		}
		for _, o := range ex.execBlock(q, defaultClause.Body) {
			if o.kind == oBreak && o.lbl == "" {
				o.kind = oNormal
			}
			outs = append(outs, o)
		}
	} else {
		outs = append(outs, outcome{p: q})
	}
	return ex.mergeOutcomes(outs)
}

func (ex *Exec) execReturn(p *Path, st *ast.ReturnStmt) []outcome {
	var vals []Value
	sig := ex.curFnSig
	if len(st.Results) == 1 && sig != nil && sig.Results().Len() > 1 {
		vals = ex.evalMulti(p, st.Results[0])
	} else {
		for _, r := range st.Results {
			vals = append(vals, ex.eval(p, r))
		}
	}
	if sig != nil {
		if len(st.Results) == 0 && sig.Results().Len() > 0 {
			// naked return with named results
			for i := 0; i < sig.Results().Len(); i++ {
				vals = append(vals, p.vars[sig.Results().At(i)])
			}
		}
		for i := range vals {
			if i < sig.Results().Len() {
				vals[i] = ex.convert(p, vals[i], sig.Results().At(i).Type(), st.Pos())
			}
		}
	}
	return []outcome{{p: p, kind: oReturn, rets: vals}}
}

// assignedIn collects local variables assigned (not declared) in a statement list, and whether the
// heap may be written.
func (ex *Exec) assignedIn(body ast.Node) (vars []types.Object, heapWrite bool) {
	seen := map[types.Object]bool{}
	declared := map[types.Object]bool{}
	ex.lastFieldWrites = nil
	ex.lastUnknownWrites = false
	ex.lastWholeAssigned = map[types.Object]bool{}
	ex.lastFieldWhole = map[string]bool{}
	if ex.keySorts == nil {
		ex.keySorts = map[string]string{}
	}
	ast.Inspect(body, func(n ast.Node) bool {
		switch s := n.(type) {
		case *ast.AssignStmt:
			for _, l := range s.Lhs {
				root := l
				viaIndex := false
				if id, ok := l.(*ast.Ident); ok {
					if obj := ex.info.Uses[id]; obj != nil {
						ex.lastWholeAssigned[obj] = true
					}
				}
				for {
					switch r := root.(type) {
					case *ast.IndexExpr:
						root = r.X
						viaIndex = true
						continue
					case *ast.ParenExpr:
						root = r.X
						continue
					case *ast.SelectorExpr:
						// field write: through pointer => heap; on struct value => var
						if t := ex.info.TypeOf(r.X); t != nil {
							if pt, isPtr := t.Underlying().(*types.Pointer); isPtr {
								heapWrite = true
								if named, ok := types.Unalias(pt.Elem()).(*types.Named); ok {
									hk := ex.heapKey(named, r.Sel.Name)
									ex.lastFieldWrites = append(ex.lastFieldWrites, hk)
									ex.keySorts[hk] = "(Array Ref " + ex.c.SortOf(ex.info.TypeOf(r)) + ")"
									if _, isSl := ex.info.TypeOf(r).Underlying().(*types.Slice); !(viaIndex && isSl) {
										ex.lastFieldWhole[hk] = true
									}
								} else {
									ex.lastUnknownWrites = true
								}
								root = nil
							} else {
								root = r.X
								continue
							}
						} else {
							root = nil
						}
					case *ast.StarExpr:
						heapWrite = true
						if ks := ex.keysOfPointee(ex.info.TypeOf(r.X), ""); ks != nil {
							for _, k := range ks {
								ex.lastFieldWrites = append(ex.lastFieldWrites, k)
								ex.lastFieldWhole[k] = true
							}
						} else {
							ex.lastUnknownWrites = true
						}
						root = nil
					}
					break
				}
				if id, ok := root.(*ast.Ident); ok && id.Name != "_" {
					if s.Tok == token.DEFINE {
						if obj := ex.info.Defs[id]; obj != nil {
							declared[obj] = true
							continue
						}
					}
					if obj := ex.info.Uses[id]; obj != nil && !seen[obj] {
						if vr, ok := obj.(*types.Var); ok && vr.Pkg() != nil && vr.Parent() == vr.Pkg().Scope() {
							heapWrite = true
							ex.lastUnknownWrites = true
							continue
						}
						seen[obj] = true
						vars = append(vars, obj)
					}
				}
			}
		case *ast.IncDecStmt:
			if id, ok := s.X.(*ast.Ident); ok {
				if obj := ex.info.Uses[id]; obj != nil && !seen[obj] {
					seen[obj] = true
					vars = append(vars, obj)
				}
			}
		case *ast.CallExpr:
			// any call may write the mutable heap unless it is a known pure one
			if !ex.callIsHeapPure(s) {
				heapWrite = true
				if ks, ok := ex.calleeWriteKeys(s); ok {
					for _, k := range ks {
						ex.lastFieldWrites = append(ex.lastFieldWrites, k)
						ex.lastFieldWhole[k] = true
					}
				} else {
					ex.lastUnknownWrites = true
				}
			}
			// map arguments of callees whose contract says `modifies <map parameter>` are assigned by the call
			if fn := ex.calleeOf(s); fn != nil {
				c := ex.w.Contracts[shortKey(fn)]
				if c == nil && ex.emittedPkg(fn) {
					c = ex.w.emittedContract(fn)
				}
				if c != nil {
					for _, m := range c.Modifies {
						for i, pn := range c.ParamNames {
							if pn == m && i < len(s.Args) {
								if id, ok := s.Args[i].(*ast.Ident); ok {
									if obj := ex.info.Uses[id]; obj != nil && !seen[obj] {
										if _, isMap := obj.Type().Underlying().(*types.Map); isMap {
											seen[obj] = true
											vars = append(vars, obj)
										}
									}
								}
							}
						}
					}
				}
			}
		case *ast.RangeStmt:
			if s.Tok == token.ASSIGN {
				for _, e := range []ast.Expr{s.Key, s.Value} {
					if id, ok := e.(*ast.Ident); ok && id.Name != "_" {
						if obj := ex.info.Uses[id]; obj != nil && !seen[obj] {
							seen[obj] = true
							vars = append(vars, obj)
						}
					}
				}
			}
		}
		return true
	})
	var out []types.Object
	for _, v := range vars {
		if !declared[v] {
			out = append(out, v)
		}
	}
	sort.Slice(out, func(i, j int) bool { return out[i].Pos() < out[j].Pos() })
	return out, heapWrite
}

// keysOfPointee: the heap keys written by an assignment through a pointer of type t (field "" = the whole pointee).
func (ex *Exec) keysOfPointee(t types.Type, field string) []string {
	if t == nil {
		return nil
	}
	ptr, ok := t.Underlying().(*types.Pointer)
	if !ok {
		return nil
	}
	if named, ok := types.Unalias(ptr.Elem()).(*types.Named); ok {
		if st, isStruct := named.Underlying().(*types.Struct); isStruct {
			var ks []string
			for i := 0; i < st.NumFields(); i++ {
				if field == "" || st.Field(i).Name() == field {
					k := ex.heapKey(named, st.Field(i).Name())
					ex.keySorts[k] = "(Array Ref " + ex.c.SortOf(st.Field(i).Type()) + ")"
					ks = append(ks, k)
				}
			}
			return ks
		}
	}
	if field != "" {
		return nil
	}
	k := "deref:" + sortToken(ex.c.SortOf(ptr.Elem()))
	ex.keySorts[k] = "(Array Ref " + ex.c.SortOf(ptr.Elem()) + ")"
	return []string{k}
}

// calleeWriteKeys: the heap keys a call may write according to the callee's contract (ok=false: unknown).
func (ex *Exec) calleeWriteKeys(call *ast.CallExpr) ([]string, bool) {
	fn := ex.calleeOf(call)
	if fn == nil {
		return nil, false
	}
	c := ex.w.Contracts[shortKey(fn)]
	if c == nil && ex.emittedPkg(fn) {
		c = ex.w.emittedContract(fn)
	}
	if c == nil || !ex.contractApplies(c, fn) {
		return nil, false
	}
	sig := fn.Type().(*types.Signature)
	var keys []string
	for _, m := range c.Modifies {
		if m == "*" {
			return nil, false
		}
		name, field := m, ""
		if i := strings.Index(m, "."); i >= 0 {
			name, field = m[:i], m[i+1:]
		}
		var t types.Type
		if sig.Recv() != nil && c.RecvName == name {
			t = sig.Recv().Type()
		}
		for i, pn := range c.ParamNames {
			if pn == name && i < sig.Params().Len() {
				t = sig.Params().At(i).Type()
			}
		}
		if t == nil {
			return nil, false
		}
		if _, isMap := t.Underlying().(*types.Map); isMap && field == "" {
			continue
		}
		ks := ex.keysOfPointee(t, field)
		if ks == nil {
			return nil, false
		}
		keys = append(keys, ks...)
	}
	return keys, true
}

// callIsHeapPure: calls that cannot write the modelled mutable heap.
func (ex *Exec) callIsHeapPure(call *ast.CallExpr) bool {
	if tv, ok := ex.info.Types[call.Fun]; ok && (tv.IsType() || tv.IsBuiltin()) {
		return true
	}
	fn := ex.calleeOf(call)
	if fn == nil {
		return false
	}
	if fn.Pkg() == nil {
		return true
	}
	full := fn.FullName()
	if _, ok := libModels[full]; ok {
		return !libWritesHeap[full]
	}
	if c := ex.w.Contracts[shortKey(fn)]; c != nil {
		return len(c.Modifies) == 0
	}
	if !ex.w.IsRepoFunc(fn) {
		// library code writes library objects only, except the decoders that fill a caller-supplied object
		switch fn.Name() {
		case "Unmarshal", "UnmarshalJSON", "Decode", "Scan", "Sscan", "Sscanf", "Read", "ReadFull":
			return false
		}
		if sig := fn.Type().(*types.Signature); sig.Recv() != nil && !ex.isObserverPkg(fn) {
			if _, isIface := sig.Recv().Type().Underlying().(*types.Interface); isIface {
				// interface method whose implementation may be user code
				if _, known := pureLibrary[full]; !known {
					return false
				}
			}
		}
		return true
	}
	if fi := ex.w.Funcs[full]; fi != nil && fi.Decl.Body != nil {
		return ex.bodyIsHeapPure(fi, 0)
	}
	return false
}


func (ex *Exec) bodyIsHeapPure(fi *FuncInfo, depth int) bool {
	full := fi.Obj.FullName()
	if r, ok := ex.heapPureCache[full]; ok {
		return r == 1
	}
	if depth > 6 {
		return false
	}
	ex.heapPureCache[full] = 1 // assume pure for recursion
	saveInfo := ex.info
	sFW, sUW, sWA, sFWh := ex.lastFieldWrites, ex.lastUnknownWrites, ex.lastWholeAssigned, ex.lastFieldWhole
	ex.info = fi.Pkg.TypesInfo
	_, hw := ex.assignedIn(fi.Decl.Body)
	ex.info = saveInfo
	ex.lastFieldWrites, ex.lastUnknownWrites, ex.lastWholeAssigned, ex.lastFieldWhole = sFW, sUW, sWA, sFWh
	if hw {
		ex.heapPureCache[full] = 0
		return false
	}
	return true
}

func (ex *Exec) calleeOf(call *ast.CallExpr) *types.Func {
	fun := call.Fun
	for {
		switch f := fun.(type) {
		case *ast.ParenExpr:
			fun = f.X
			continue
		case *ast.IndexExpr:
			fun = f.X
			continue
		case *ast.IndexListExpr:
			fun = f.X
			continue
		}
		break
	}
	switch f := fun.(type) {
	case *ast.Ident:
		fn, _ := ex.info.Uses[f].(*types.Func)
		return fn
	case *ast.SelectorExpr:
		if sel := ex.info.Selections[f]; sel != nil {
			fn, _ := sel.Obj().(*types.Func)
			return fn
		}
		fn, _ := ex.info.Uses[f.Sel].(*types.Func)
		return fn
	}
	return nil
}

// ---------------------------------------------------------------------------------------
// loops

func (ex *Exec) loopClauses(ord int) []*Clause {
	if ex.contract == nil || len(ex.inlineStack) > 0 {
		return nil
	}
	return ex.contract.Loops[ord]
}

// loopClausesAt: like loopClauses, but a loop that moved into an inlined helper keeps the invariants written for it.
func (ex *Exec) loopClausesAt(ord int, node ast.Node) []*Clause {
	if ex.contract == nil || ord <= 0 {
		return nil
	}
	if len(ex.inlineStack) > 0 && !ex.movedLoops[node] {
		return nil
	}
	return ex.contract.Loops[ord]
}

func (ex *Exec) havocVars(p *Path, vars []types.Object) {
	for _, o := range vars {
		if r, isCell := p.cells[o]; isCell {
			ex.heapWrite(p, "deref:"+sortToken(ex.c.SortOf(o.Type())), o.Type(), r, ex.c.Fresh("h:"+o.Name(), ex.c.SortOf(o.Type())))
			continue
		}
		cur, ok := p.vars[o]
		ty := o.Type()
		if ok {
			ty = cur.Ty
		}
		v := Value{ex.c.Fresh("h:"+o.Name(), ex.c.SortOf(ty)), ty}
		p.vars[o] = v
		p.Assume(ex.c.typeInvariant(v))
		if _, isSlice := ty.Underlying().(*types.Slice); isSlice && ok && ex.lastWholeAssigned != nil && !ex.lastWholeAssigned[o] {
			// only element stores x[i] = v inside the loop: the length is unchanged
			p.Assume(eq(ex.c.sliceLen(v), ex.c.sliceLen(cur)))
		}
		if _, isMap := ty.Underlying().(*types.Map); isMap && ok {
			// entries are added or removed inside loops, the map itself is not replaced by nil
			_, _, _, isnil := ex.c.mapParts(ty)
			p.Assume(implies(app(isnil, v.T), app(isnil, cur.T)))
			ex.c.Trust("maps modified in loops keep their nil-ness (no loop of the code under contract assigns nil to a map variable)")
		}
	}
}

func (ex *Exec) checkInvariants(p *Path, invs []*Clause, ord int, phase string, pos token.Pos) {
	for i, inv := range invs {
		g := ex.evalClause(p, inv.E, false)
		name := fmt.Sprintf("%s#loop%d.inv[%d].%s", ex.funcKey, ord, i, phase)
		if inv.Name != "" {
			name = fmt.Sprintf("%s#loop%d.inv[%s].%s", ex.funcKey, ord, inv.Name, phase)
		}
		ex.addObl(p, name, "invariant", inv.Text, g, pos, phase)
	}
}

func (ex *Exec) assumeInvariants(p *Path, invs []*Clause) {
	for _, inv := range invs {
		p.Assume(ex.evalClause(p, inv.E, true))
	}
}

func (ex *Exec) execRange(p *Path, st *ast.RangeStmt) []outcome {
	ord := -1
	if len(ex.inlineStack) == 0 || ex.movedLoops[st] {
		if n, ok := ex.loopOrdinals[st]; ok && n > 0 {
			ord = n
		}
	}
	coll := ex.eval(p, st.X)
	invs := ex.loopClausesAt(ord, st)
	modVars, heapW := ex.assignedIn(st.Body)
	fieldWrites, unknownWrites := ex.lastFieldWrites, ex.lastUnknownWrites
	// loop variables declared by the range statement
	var keyObj, valObj types.Object
	if id, ok := st.Key.(*ast.Ident); ok && id.Name != "_" {
		keyObj = ex.info.Defs[id]
		if keyObj == nil {
			keyObj = ex.info.Uses[id]
		}
	}
	if st.Value != nil {
		if id, ok := st.Value.(*ast.Ident); ok && id.Name != "_" {
			valObj = ex.info.Defs[id]
			if valObj == nil {
				valObj = ex.info.Uses[id]
			}
		}
	}
	idxName := "_i"
	if ord > 0 {
		idxName = fmt.Sprintf("_i%d", ord)
	}
	bind := func(q *Path, idx string) {
		q.names["_i"] = Value{idx, types.Typ[types.Int]}
		q.names[idxName] = Value{idx, types.Typ[types.Int]}
	}

	switch ct := coll.Ty.Underlying().(type) {
	case *types.Slice, *types.Array, *types.Basic:
		isString := false
		var length string
		if b, ok := ct.(*types.Basic); ok {
			if b.Info()&types.IsString != 0 {
				isString = true
				length = "(str.len " + coll.T + ")"
			} else if b.Info()&types.IsInteger != 0 {
				length = coll.T
			} else {
				ex.unsupp(st.Pos(), "range over %s", coll.Ty)
			}
		} else {
			length = ex.c.sliceLen(coll)
		}
		// initiation
		bind(p, "0")
		ex.checkInvariants(p, invs, ord, "init", st.Pos())
		ex.checkFrame(p, st.Pos(), "loop entry")
		var outs []outcome
		// arbitrary iteration
		it := p.Clone()
		ex.havocVars(it, modVars)
		ex.advanceClock(it)
		if heapW {
			keepLoop := ex.keepPrivateLoop(it, st.Body)
			ex.havocLoopHeap(it, fieldWrites, unknownWrites)
			keepLoop()
			ex.assumeFrame(it)
		}
		if ex.traceEvents && os.Getenv("GOVC_SELFTEST_SKIP_LOOP_EVENT_HAVOC") == "" {
			// (also when the body writes no modelled heap: a body that only prints still raises events; the environment
			// variable re-creates the incident for the self-test of the later-iteration cover)
			ex.havocGhostBody(it, st.Body)
		}
		i := ex.c.Fresh("i", "Int")
		bind(it, i)
		it.Assume("(>= " + i + " 0)")
		// a slice, string or array has at most MaxInt elements: the index after the last one is still an int
		it.Assume("(<= " + length + " 9223372036854775807)")
		ex.assumeInvariants(it, invs)
		exit := it.Clone()
		it.Assume("(< " + i + " " + length + ")")
		if len(invs) > 0 && ord > 0 && !ex.inContract() {
			// reachability of a later iteration: if the assumptions at the loop head (havoc + invariants) force the first
			// iteration, the invariants are only checked there and everything after the loop is proved for empty collections
			// only (this is how a missing havoc of the event cells showed: count == old + i with count not forgotten gives i == 0)
			later := it.Clone()
			later.Assume("(> " + i + " 0)")
			ex.addObl(later, fmt.Sprintf("%s#loop%d.cover.later_iteration", ex.funcKey, ord), "cover", "an iteration other than the first is reachable under the loop invariants", "false", st.Pos(), "")
		}
		if keyObj != nil {
			it.vars[keyObj] = Value{i, types.Typ[types.Int]}
		}
		if valObj != nil {
			if isString {
				it.vars[valObj] = Value{"(str.to_code (str.at " + coll.T + " " + i + "))", types.Typ[types.Rune]}
				ex.c.Trust("range-over-string: byte-wise (ASCII strings assumed)")
			} else if _, isInt := ct.(*types.Basic); !isInt {
				ev := Value{ex.c.sliceAt(coll, i), elemType(coll.Ty)}
				it.vars[valObj] = ev
				it.Assume(ex.c.typeInvariant(ev))
			}
		} else if keyObj != nil {
			if _, isInt := ct.(*types.Basic); isInt && !isString {
				it.vars[keyObj] = Value{i, coll.Ty}
			}
		}
		for _, o := range ex.execBlock(it, st.Body.List) {
			switch o.kind {
			case oNormal, oContinue:
				bind(o.p, "(+ "+i+" 1)")
				ex.checkInvariants(o.p, invs, ord, "preserve", st.Pos())
				ex.checkFrame(o.p, st.Pos(), "loop body end")
			case oBreak:
				if o.lbl != "" {
					outs = append(outs, o)
				} else {
					outs = append(outs, outcome{p: o.p})
				}
			default:
				outs = append(outs, o)
			}
		}
		// exit
		exit.Assume("(= " + i + " " + length + ")")
		if isString {
			exit.Assume("(>= " + i + " 0)")
		}
		outs = append(outs, outcome{p: exit})
		return ex.mergeOutcomes(outs)

	case *types.Map:
		_, dom, val, _ := ex.c.mapParts(coll.Ty)
		ks := ex.c.SortOf(ct.Key())
		doneSort := "(Array " + ks + " Bool)"
		doneT := types.NewMap(ct.Key(), types.Typ[types.Bool])
		dmk, _, _, _ := ex.c.mapParts(doneT)
		bindDone := func(q *Path, d string) {
			// `done[k]` reads as membership in the processed set
			q.names["done"] = Value{app(dmk, d, ex.c.constArray(ks, "Bool", "true"), "false"), doneT}
			q.names["_done"] = Value{d, nil}
		}
		emptyDone := ex.c.constArray(ks, "Bool", "false")
		bindDone(p, emptyDone)
		p.names["_rangemap"] = coll
		ex.checkInvariants(p, invs, ord, "init", st.Pos())
		ex.checkFrame(p, st.Pos(), "loop entry")
		var outs []outcome
		it := p.Clone()
		ex.havocVars(it, modVars)
		ex.advanceClock(it)
		if heapW {
			keepLoop := ex.keepPrivateLoop(it, st.Body)
			ex.havocLoopHeap(it, fieldWrites, unknownWrites)
			keepLoop()
			ex.assumeFrame(it)
		}
		if ex.traceEvents && os.Getenv("GOVC_SELFTEST_SKIP_LOOP_EVENT_HAVOC") == "" {
			// (also when the body writes no modelled heap: a body that only prints still raises events; the environment
			// variable re-creates the incident for the self-test of the later-iteration cover)
			ex.havocGhostBody(it, st.Body)
		}
		d := ex.c.Fresh("done", doneSort)
		bindDone(it, d)
		kq := ex.c.Fresh("kq", ks)
		// done is a subset of the domain
		it.Assume(fmt.Sprintf("(forall ((%s %s)) (=> (select %s %s) (select %s %s)))", "k!", ks, d, "k!", app(dom, coll.T), "k!"))
		_ = kq
		ex.assumeInvariants(it, invs)
		exit := it.Clone()
		k := ex.c.Fresh("k", ks)
		it.Assume("(select " + app(dom, coll.T) + " " + k + ")")
		it.Assume("(not (select " + d + " " + k + "))")
		if keyObj != nil {
			it.vars[keyObj] = Value{k, ct.Key()}
		}
		if valObj != nil {
			it.vars[valObj] = Value{"(select " + app(val, coll.T) + " " + k + ")", ct.Elem()}
		}
		ex.c.Trust("range-over-map: verified for an arbitrary iteration order")
		for _, o := range ex.execBlock(it, st.Body.List) {
			switch o.kind {
			case oNormal, oContinue:
				bindDone(o.p, "(store "+d+" "+k+" true)")
				ex.checkInvariants(o.p, invs, ord, "preserve", st.Pos())
				ex.checkFrame(o.p, st.Pos(), "loop body end")
			case oBreak:
				if o.lbl != "" {
					outs = append(outs, o)
				} else {
					outs = append(outs, outcome{p: o.p})
				}
			default:
				outs = append(outs, o)
			}
		}
		exit.Assume(fmt.Sprintf("(forall ((%s %s)) (=> (select %s %s) (select %s %s)))", "k!", ks, app(dom, coll.T), "k!", d, "k!"))
		outs = append(outs, outcome{p: exit})
		return ex.mergeOutcomes(outs)
	}
	ex.unsupp(st.Pos(), "range over %s", coll.Ty)
	return nil
}

func (ex *Exec) execFor(p *Path, st *ast.ForStmt) []outcome {
	ord := -1
	if len(ex.inlineStack) == 0 || ex.movedLoops[st] {
		if n, ok := ex.loopOrdinals[st]; ok && n > 0 {
			ord = n
		}
	}
	if st.Init != nil {
		outs := ex.execStmt(p, st.Init)
		if len(outs) != 1 || outs[0].kind != oNormal {
			ex.unsupp(st.Pos(), "for-init with control flow")
		}
		p = outs[0].p
	}
	invs := ex.loopClausesAt(ord, st)
	body := &ast.BlockStmt{List: st.Body.List}
	var nodes ast.Node = body
	modVars, heapW := ex.assignedIn(nodes)
	fieldWrites, unknownWrites := ex.lastFieldWrites, ex.lastUnknownWrites
	if st.Post != nil {
		mv2, hw2 := ex.assignedIn(st.Post)
		for _, v := range mv2 {
			dup := false
			for _, u := range modVars {
				if u == v {
					dup = true
				}
			}
			if !dup {
				modVars = append(modVars, v)
			}
		}
		heapW = heapW || hw2
		fieldWrites = append(fieldWrites, ex.lastFieldWrites...)
		unknownWrites = unknownWrites || ex.lastUnknownWrites
	}
	ex.checkInvariants(p, invs, ord, "init", st.Pos())
	ex.checkFrame(p, st.Pos(), "loop entry")
	var outs []outcome
	// entry values of the scalar variables the loop assigns (for the later-state cover below)
	type entryVal struct {
		o types.Object
		t string
	}
	var entry []entryVal
	for _, o := range modVars {
		if _, isCell := p.cells[o]; isCell {
			continue
		}
		if cur, ok := p.vars[o]; ok {
			if b, isBasic := cur.Ty.Underlying().(*types.Basic); isBasic && b.Info()&(types.IsInteger|types.IsBoolean|types.IsString) != 0 {
				entry = append(entry, entryVal{o, cur.T})
			}
		}
	}
	it := p.Clone()
	ex.havocVars(it, modVars)
	ex.advanceClock(it)
	if heapW {
		keepLoop := ex.keepPrivateLoop(it, st.Body)
		ex.havocLoopHeap(it, fieldWrites, unknownWrites)
		keepLoop()
		ex.assumeFrame(it)
	}
	if ex.traceEvents {
		ex.havocGhostBody(it, st.Body)
	}
	ex.assumeInvariants(it, invs)
	exit := it.Clone()
	if st.Cond != nil {
		c := ex.eval(it, st.Cond)
		it.Assume(c.T)
		if len(invs) > 0 && ord > 0 && !ex.inContract() && len(entry) > 0 && os.Getenv("GOVC_NO_FOR_COVER") == "" {
			// the counterpart, for `for` loops, of the later-iteration cover of range loops: under the havoc and the
			// invariants the body must be reachable from a state in which some scalar the loop assigns differs from
			// its value at loop entry; otherwise the invariants pin the loop head to the entry state, they are checked
			// for the first iteration only and what follows the loop is proved for that case only
			// the variables the post statement assigns (the loop counter) are the ones that must move; without a post
			// statement, any assigned scalar
			postVars := map[types.Object]bool{}
			if st.Post != nil {
				mv, _ := ex.assignedIn(st.Post)
				for _, v := range mv {
					for _, e := range entry {
						if e.o == v {
							postVars[v] = true
						}
					}
				}
			}
			var diffs []string
			for _, e := range entry {
				if len(postVars) > 0 && !postVars[e.o] {
					continue
				}
				if now, ok := it.vars[e.o]; ok && now.T != e.t {
					diffs = append(diffs, not(eq(now.T, e.t)))
				}
			}
			if len(diffs) > 0 {
				later := it.Clone()
				d := diffs[0]
				if len(diffs) > 1 {
					d = "(or " + strings.Join(diffs, " ") + ")"
				}
				later.Assume(d)
				ex.addObl(later, fmt.Sprintf("%s#loop%d.cover.later_state", ex.funcKey, ord), "cover", "the loop body is reachable from a state other than the one at loop entry under the loop invariants", "false", st.Pos(), "")
			}
		}
		c2 := ex.eval(exit, st.Cond)
		exit.Assume(not(c2.T))
	} else {
		exit = nil
	}
	for _, o := range ex.execBlock(it, st.Body.List) {
		switch o.kind {
		case oNormal, oContinue:
			q := o.p
			if st.Post != nil {
				po := ex.execStmt(q, st.Post)
				q = po[0].p
			}
			ex.checkInvariants(q, invs, ord, "preserve", st.Pos())
			ex.checkFrame(q, st.Pos(), "loop body end")
		case oBreak:
			if o.lbl != "" {
				outs = append(outs, o)
			} else {
				outs = append(outs, outcome{p: o.p})
			}
		default:
			outs = append(outs, o)
		}
	}
	if exit != nil {
		outs = append(outs, outcome{p: exit})
	}
	return ex.mergeOutcomes(outs)
}

// ---------------------------------------------------------------------------------------
// safety obligations

// siteLabel names a program point by its line offset inside the enclosing function (stable under edits elsewhere).
func (ex *Exec) siteLabel(pos token.Pos) string {
	fi := ex.fi
	prefix := ""
	for i := len(ex.inlineStack) - 1; i >= 0; i-- {
		if f := ex.w.Funcs[ex.inlineStack[i]]; f != nil {
			fi = f
			prefix = f.Obj.Name() + ":"
			break
		}
	}
	if fi == nil || !pos.IsValid() {
		return "?"
	}
	return fmt.Sprintf("%sL%d", prefix, ex.w.Fset.Position(pos).Line-ex.w.Fset.Position(fi.Decl.Pos()).Line)
}

func (ex *Exec) boundsObl(p *Path, idx, length string, pos token.Pos) {
	if !ex.safety || ex.inContract() || ex.quantFacts != nil {
		return
	}
	ex.addObl(p, ex.funcKey+"#nopanic:index@"+ex.siteLabel(pos), "safety", "index in range", "(and (>= "+idx+" 0) (< "+idx+" "+length+"))", pos, "")
}

func (ex *Exec) nilObl(p *Path, v Value, pos token.Pos) {
	if ex.boundsOnly && !ex.inContract() && ex.quantFacts == nil {
		// bounds mode: nil-ness of descriptor fields and parameters is protogen's business and is assumed away; but a
		// pointer that this code itself may have set to nil (an explicit `nil` flows into the value: a callee's
		// `return nil`, a `var p *T` left unassigned on some path) must be shown non-nil where it is dereferenced
		if ex.c.SortOf(v.Ty) == "Ref" && carriesNull(v.T) && len(ex.inlineStack) >= 0 {
			ex.addObl(p, ex.funcKey+"#nopanic:nil@"+ex.siteLabel(pos), "safety", "a pointer that may have been set to nil by this code is not nil where it is dereferenced", explicitNonNull(v.T), pos, "")
		}
		// execution continues past a dereference only if it did not panic
		p.Assume(not(ex.isNilTerm(v)))
		return
	}
	if !ex.safety || ex.boundsOnly || ex.inContract() || ex.quantFacts != nil {
		// (inside the body of a quantifier a term is being built for a specification, e.g. a nil-safe getter inlined into a
		// quantified precondition: nothing is executed there)
		return
	}
	ex.addObl(p, ex.funcKey+"#nopanic:nil@"+ex.siteLabel(pos), "safety", "nil dereference", not(ex.isNilTerm(v)), pos, "")
}

func (ex *Exec) isNilTerm(v Value) string {
	if v.Ty == nil {
		return "true"
	}
	switch ex.c.SortOf(v.Ty) {
	case "Ref":
		return eq(v.T, "null")
	case "Iface":
		return "(= (ityp " + v.T + ") 0)"
	}
	switch v.Ty.Underlying().(type) {
	case *types.Map:
		_, _, _, isnil := ex.c.mapParts(v.Ty)
		return app(isnil, v.T)
	case *types.Slice:
		ex.c.Trust("slice-nil: `s == nil` is read as len(s) == 0")
		return "(= " + ex.c.sliceLen(v) + " 0)"
	}
	panic(unsupported{"nil comparison on " + v.Ty.String(), token.NoPos})
}

// constant value -> Value
func (ex *Exec) constValue(cv constant.Value, t types.Type) Value {
	if t == nil {
		t = types.Typ[types.Int]
	}
	switch cv.Kind() {
	case constant.Bool:
		if constant.BoolVal(cv) {
			return Value{"true", t}
		}
		return Value{"false", t}
	case constant.String:
		return Value{strLit(constant.StringVal(cv)), t}
	case constant.Int:
		if b, ok := t.Underlying().(*types.Basic); ok && b.Info()&types.IsFloat != 0 {
			return Value{bigRealLit(cv.ExactString()), t}
		}
		return Value{bigIntLit(cv.ExactString()), t}
	case constant.Float:
		if b, ok := t.Underlying().(*types.Basic); ok && b.Info()&types.IsInteger != 0 {
			return Value{bigIntLit(constant.ToInt(cv).ExactString()), t}
		}
		return Value{realLit(cv), t}
	}
	panic(unsupported{"constant kind " + cv.Kind().String(), token.NoPos})
}

func bigRealLit(s string) string {
	if strings.HasPrefix(s, "-") {
		return "(- " + s[1:] + ".0)"
	}
	return s + ".0"
}

func realLit(cv constant.Value) string {
	// exact rational
	num := constant.Num(cv)
	den := constant.Denom(cv)
	if num.Kind() == constant.Int && den.Kind() == constant.Int {
		n := num.ExactString()
		d := den.ExactString()
		neg := strings.HasPrefix(n, "-")
		if neg {
			n = n[1:]
		}
		t := "(/ " + n + ".0 " + d + ".0)"
		if d == "1" {
			t = n + ".0"
		}
		if neg {
			t = "(- " + t + ")"
		}
		return t
	}
	f, _ := constant.Float64Val(cv)
	return fmt.Sprintf("%f", f)
}


// carriesNull: the term can evaluate to the literal nil through an ite branch (not merely compare with it).
func carriesNull(t string) bool {
	if !strings.Contains(t, "null") {
		return false
	}
	if t == "null" {
		return true
	}
	if strings.HasPrefix(t, "(ite ") {
		rest := t[len("(ite "):]
		c := firstArg(rest)
		rest = strings.TrimSpace(rest[len(c):])
		a := firstArg(rest)
		rest = strings.TrimSpace(rest[len(a):])
		b := firstArg(rest)
		return carriesNull(a) || carriesNull(b)
	}
	return false
}

// explicitNonNull: the value does not come from an explicit nil branch (what is read from descriptors, maps, parameters
// or library results is not questioned).
func explicitNonNull(t string) string {
	if t == "null" {
		return "false"
	}
	if strings.HasPrefix(t, "(ite ") && strings.Contains(t, "null") {
		rest := t[len("(ite "):]
		c := firstArg(rest)
		rest = strings.TrimSpace(rest[len(c):])
		a := firstArg(rest)
		rest = strings.TrimSpace(rest[len(a):])
		b := firstArg(rest)
		return and(implies(c, explicitNonNull(a)), implies(not(c), explicitNonNull(b)))
	}
	return "true"
}
