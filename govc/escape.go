package main

// Unescaped allocations: an object the unit under verification allocated itself, whose reference has so far been kept
// in its own locals (never passed to a call, never stored into the heap, no function literal created), cannot be
// reached by a callee. A call that forgets heap cells (modifies *, static write set, no contract) therefore leaves the
// cells of such objects as they are.

import (
	"go/ast"
	"fmt"
	"os"
	"go/types"
	"strings"
)

// escapeIn: every private reference the term can evaluate to (or carry) has left the unit's locals. A heap read
// `(select H i)` cannot yield a private reference: a private reference is by definition not stored in the heap, and
// occurrences inside the read's own array/index sub-terms are only addresses read through.
func (ex *Exec) escapeIn(p *Path, term string) {
	if len(p.private) == 0 {
		return
	}
	hit := false
	for r := range p.private {
		if strings.Contains(term, r) {
			hit = true
			break
		}
	}
	if !hit {
		return
	}
	for _, a := range carriedAtoms(term) {
		if p.private[a] {
			delete(p.private, a)
		}
	}
}

// carriedAtoms lists the atoms of an SMT term outside of `(select ...)` sub-terms.
func carriedAtoms(t string) []string {
	var out []string
	i, n := 0, len(t)
	var walk func(skip bool)
	readAtom := func() string {
		st := i
		if t[i] == '|' {
			i++
			for i < n && t[i] != '|' {
				i++
			}
			i++
			return t[st:i]
		}
		if t[i] == '"' {
			i++
			for i < n {
				if t[i] == '"' {
					if i+1 < n && t[i+1] == '"' {
						i += 2
						continue
					}
					break
				}
				i++
			}
			i++
			return t[st:i]
		}
		for i < n && t[i] != ' ' && t[i] != '(' && t[i] != ')' {
			i++
		}
		return t[st:i]
	}
	walk = func(skip bool) {
		// at '(' : read head, then children
		i++ // consume '('
		for i < n && t[i] == ' ' {
			i++
		}
		head := ""
		if i < n && t[i] != '(' && t[i] != ')' {
			head = readAtom()
		}
		sk := skip || head == "select"
		for i < n {
			for i < n && t[i] == ' ' {
				i++
			}
			if i >= n {
				return
			}
			if t[i] == ')' {
				i++
				return
			}
			if t[i] == '(' {
				walk(sk)
				continue
			}
			a := readAtom()
			if !sk {
				out = append(out, a)
			}
		}
	}
	for i < n {
		for i < n && t[i] == ' ' {
			i++
		}
		if i >= n {
			break
		}
		if t[i] == '(' {
			walk(false)
		} else if t[i] == ')' {
			i++
		} else {
			out = append(out, readAtom())
		}
	}
	return out
}

func (ex *Exec) escapeArgs(p *Path, recv *Value, args []Value) {
	if len(p.private) == 0 {
		return
	}
	if recv != nil {
		ex.escapeIn(p, recv.T)
	}
	for _, a := range args {
		ex.escapeIn(p, a.T)
	}
}

// keepPrivate records the cells of the private objects; the returned function re-asserts them on the heap as it is
// after the callee's writes were forgotten.
func (ex *Exec) keepPrivate(p *Path) func() {
	if os.Getenv("GOVC_DEBUG_PRIVATE") != "" {
		fmt.Fprintln(os.Stderr, "keepPrivate:", ex.funcKey, "private:", len(p.private), p.private, "noPrivate:", p.noPrivate)
	}
	if len(p.private) == 0 || p.noPrivate {
		return func() {}
	}
	type cell struct{ key, ref, old, sort string }
	var cells []cell
	for k, t := range p.heap {
		if !ex.isMutableKey(k) {
			continue
		}
		s := ex.sortOfHeapTerm(t)
		if s == "" || !strings.HasPrefix(s, "(Array Ref ") {
			continue
		}
		for r := range p.private {
			// only the cells the object can have: fields of its own struct type, or a deref cell
			hint := strings.TrimPrefix(strings.Trim(r, "|"), "new:")
			if i := strings.LastIndex(hint, "!"); i >= 0 {
				hint = hint[:i]
			}
			if !strings.HasPrefix(strings.TrimPrefix(k, "~"), "deref:") && !strings.Contains(k, "."+hint+".") {
				continue
			}
			cells = append(cells, cell{k, r, "(select " + t + " " + r + ")", s})
		}
	}
	return func() {
		if len(cells) > 0 {
			ex.c.Trust("an object allocated by the function under verification whose reference never left its locals is not changed by a callee")
		}
		for _, c := range cells {
			cur, ok := p.heap[c.key]
			if !ok {
				es := strings.TrimSuffix(strings.TrimPrefix(c.sort, "(Array Ref "), ")")
				cur = ex.heapArr(p, c.key, es)
				if cur != "" {
					p.heap[c.key] = cur // keep the key materialised: the next havoc must see the cell again
				}
			}
			if cur == "" {
				continue
			}
			p.Assume("(= (select " + cur + " " + c.ref + ") " + c.old + ")")
		}
	}
}

// libraryDecoderTarget: for a call of a library decoder (Unmarshal, Decode, ...) whose target argument is an object the
// unit has just created with an empty composite literal and not let out of its locals, the reference of that object.
// Such a decoder can write nothing but that object: everything it can reach starts at its target.
func (ex *Exec) libraryDecoderTarget(p *Path, fn *types.Func, args []Value) string {
	if fn == nil || fn.Pkg() == nil || ex.w.IsRepoFunc(fn) || len(args) == 0 || p.noPrivate {
		return ""
	}
	switch fn.Name() {
	case "Unmarshal", "UnmarshalJSON", "Decode":
	default:
		return ""
	}
	target := args[len(args)-1].T
	found := ""
	for r := range p.private {
		if strings.Contains(target, r) {
			if found != "" {
				return ""
			}
			found = r
		}
	}
	if found == "" || !p.blank[found] {
		return ""
	}
	// no other argument may mention a private object
	for _, a := range args[:len(args)-1] {
		for r := range p.private {
			if strings.Contains(a.T, r) {
				return ""
			}
		}
	}
	return found
}

// pointHavoc forgets the cells of one object only.
func (ex *Exec) pointHavoc(p *Path, ref string) {
	ex.c.Trust("a library decoder writes only what is reachable from its target; a target created by an empty composite literal in the calling function reaches nothing older")
	for k, t := range p.heap {
		if !ex.isMutableKey(k) {
			continue
		}
		s := ex.sortOfHeapTerm(t)
		if s == "" || !strings.HasPrefix(s, "(Array Ref ") {
			continue
		}
		es := strings.TrimSuffix(strings.TrimPrefix(s, "(Array Ref "), ")")
		v := ex.c.Fresh("dec:"+k, es)
		p.heap[k] = "(store " + t + " " + ref + " " + v + ")"
	}
}

// keepPrivateLoop: a loop body reaches a private object only through a variable it mentions. Objects that no variable
// mentioned in the body carries at the loop head (in an inlined callee: no variable at all, its body sees only its own
// locals) keep their cells across the loop's heap havoc.
func (ex *Exec) keepPrivateLoop(p *Path, body ast.Node) func() {
	if len(p.private) == 0 || p.noPrivate || body == nil || ex.info == nil {
		return func() {}
	}
	reach := map[string]bool{}
	ast.Inspect(body, func(n ast.Node) bool {
		if _, isLit := n.(*ast.FuncLit); isLit {
			for r := range p.private {
				reach[r] = true
			}
			return false
		}
		id, ok := n.(*ast.Ident)
		if !ok {
			return true
		}
		obj, _ := ex.info.Uses[id].(*types.Var)
		if obj == nil {
			return true
		}
		if v, ok := p.vars[obj]; ok {
			for _, a := range carriedAtoms(v.T) {
				if p.private[a] {
					reach[a] = true
				}
			}
		}
		if c, ok := p.cells[obj]; ok && p.private[c] {
			reach[c] = true
		}
		return true
	})
	saved := p.private
	kept := map[string]bool{}
	for r := range p.private {
		if !reach[r] {
			kept[r] = true
		}
	}
	if len(kept) == 0 {
		return func() {}
	}
	p.private = kept
	f := ex.keepPrivate(p)
	p.private = saved
	return f
}
