package main

// Function and lemma verification: builds obligations and discharges them.

import (
	"path/filepath"
	"regexp"
	"fmt"
	"go/ast"
	"os"
	"go/token"
	"go/types"
	"runtime/debug"
	"sort"
	"strings"
	"sync"
	"time"
)

type OblResult struct {
	Name     string `json:"name"`
	Kind     string `json:"kind"`
	Func     string `json:"func,omitempty"`
	Text     string `json:"text,omitempty"`
	Status   string `json:"status"` // proved | refuted | unknown | trivially-true
	Backend  string `json:"backend,omitempty"`
	SolverMs int64  `json:"solver_ms"`
	Insts    int    `json:"instances"`
	Model    string `json:"model,omitempty"`
	Where    string `json:"where,omitempty"`
	Raw      string `json:"raw,omitempty"`
	Script   string `json:"-"`
	Expect   string `json:"expect,omitempty"` // for canaries: "refuted"
}

type UnitResult struct {
	Unit        string      // function key or lemma name
	Kind        string      // func | lemma
	Status      string      // ok | outside-subset | unbound | error
	Reason      string      // for non-ok
	Obls        []OblResult // discharged or not
	Notes       []string
	Trusted     []string
	Contracts   []string // callee contracts used
	Inlined     []string
	Observers   []string
	Havocked    []string
	Skipped     []string
	Paths       int
	Assumed     bool
	ElapsedMs   int64
	SampleQuery string
}

var pEventRe = regexp.MustCompile(`count\("P:([^"]+)"\)`)
var pfEventRe = regexp.MustCompile(`count\("p:([^"]+)"\)`)

type VerifyOpts struct {
	Safety  bool
	Bounds  bool // safety obligations without nil-dereference sites (protogen non-nil pointers are a trusted input invariant)
	Events  bool
	Timeout time.Duration
	Only    func(name string) bool // filter obligations by name
	Closure int                    // >0: verify the n-th function literal of the function
	ExpectFail func(name string) bool // obligations listed as known findings: a model of the quantifier-free part suffices
}

func (w *World) contractFor(fi *FuncInfo) *Contract {
	if c := w.Contracts[shortKey(fi.Obj)]; c != nil && !c.Emitted {
		return c
	}
	if w.EmittedPaths[fi.Obj.Pkg().Path()] {
		return w.emittedContract(fi.Obj)
	}
	return nil
}

// emittedContract finds the `emitted func` contract of a function or method of an extracted package.
func (w *World) emittedContract(fn *types.Func) *Contract {
	if fn.Origin() != nil {
		fn = fn.Origin()
	}
	sk := shortKey(fn) // pkg.Func or pkg.Type.Method
	if i := strings.Index(sk, "."); i >= 0 {
		if c := w.Contracts["emitted"+sk[i:]]; c != nil {
			return c
		}
	}
	return w.Contracts["emitted."+fn.Name()]
}

// VerifyFunc symbolically executes a function against its contract.
func (w *World) VerifyFunc(fi *FuncInfo, c *Contract, opts VerifyOpts) (res *UnitResult) {
	start := time.Now()
	key := shortKey(fi.Obj)
	if c != nil && c.Emitted {
		key = c.Key
	}
	res = &UnitResult{Unit: key, Kind: "func", Status: "ok"}
	ctx := NewCtx()
	ex := NewExec(w, ctx)
	ex.fi, ex.contract, ex.funcKey = fi, c, key
	ex.info, ex.pkg = fi.Pkg.TypesInfo, fi.Pkg.Types
	ex.safety, ex.traceEvents = opts.Safety || opts.Bounds, opts.Events || (c != nil && len(c.AtCall) > 0)
	ex.pEvents = nil
	ex.pfEvents = nil
	if c != nil {
		seenP := map[string]bool{}
		var texts []string
		for _, cl := range c.Ensures {
			texts = append(texts, cl.Text)
		}
		for _, cls := range c.Loops {
			for _, cl := range cls {
				texts = append(texts, cl.Text)
			}
		}
		for _, ac := range c.AtCall {
			texts = append(texts, ac.Clause.Text)
			// at-call P:<substring> requires ...: the P calls whose literal text contains the substring
			if strings.HasPrefix(ac.Callee, "P:") && !seenP[ac.Callee[2:]] {
				seenP[ac.Callee[2:]] = true
				ex.pEvents = append(ex.pEvents, ac.Callee[2:])
			}
			// the same for a printf-style printer passed as a function value named p: "p:<substring of the format>"
			if strings.HasPrefix(ac.Callee, "p:") && !seenP["\x00"+ac.Callee[2:]] {
				seenP["\x00"+ac.Callee[2:]] = true
				ex.pfEvents = append(ex.pfEvents, ac.Callee[2:])
			}
		}
		for _, t := range texts {
			for _, m := range pfEventRe.FindAllStringSubmatch(t, -1) {
				if !seenP["\x00"+m[1]] {
					seenP["\x00"+m[1]] = true
					ex.pfEvents = append(ex.pfEvents, m[1])
				}
			}
		}
		if len(ex.pfEvents) > 0 {
			sort.Strings(ex.pfEvents)
			ex.traceEvents = true
		}
		for _, t := range texts {
			for _, m := range pEventRe.FindAllStringSubmatch(t, -1) {
				if !seenP[m[1]] {
					seenP[m[1]] = true
					ex.pEvents = append(ex.pEvents, m[1])
				}
			}
		}
		if len(ex.pEvents) > 0 {
			sort.Strings(ex.pEvents)
			ex.traceEvents = true
		}
	}
	ex.boundsOnly = opts.Bounds && !opts.Safety
	ex.oblCalls = true
	sig := fi.Obj.Type().(*types.Signature)
	ex.curFnSig = sig
	body := fi.Decl.Body
	var closureSig *types.Signature
	if opts.Closure > 0 {
		n := 0
		var lit *ast.FuncLit
		ast.Inspect(fi.Decl.Body, func(nd ast.Node) bool {
			if l, ok := nd.(*ast.FuncLit); ok {
				n++
				if n == opts.Closure && lit == nil {
					lit = l
				}
			}
			return true
		})
		if lit == nil {
			res.Status = "unbound"
			res.Reason = fmt.Sprintf("function literal #%d not found in %s", opts.Closure, key)
			return res
		}
		body = lit.Body
		closureSig = fi.Pkg.TypesInfo.TypeOf(lit).(*types.Signature)
		key = fmt.Sprintf("%s_closure%d", key, opts.Closure)
		if c != nil {
			key = c.Key
		}
		res.Unit = key
		ex.funcKey = key
	}
	ex.localOrd, _ = localOrdinals(fi.Pkg.TypesInfo, fi.Decl.Body)
	// loops are numbered in source order (function literals included), independent of the paths explored
	ex.loopOrdinals = map[ast.Node]int{}
	ast.Inspect(body, func(n ast.Node) bool {
		switch n.(type) {
		case *ast.RangeStmt, *ast.ForStmt:
			ex.loopOrdinals[n] = len(ex.loopOrdinals) + 1
		}
		return true
	})
	if opts.Closure == 0 {
		ex.remapLoopOrdinals(body)
		if c != nil && len(c.Loops) > 0 && !c.Emitted {
			ex.remapMovedLoops(fi, body)
		}
	}
	defer func() {
		if r := recover(); r != nil {
			if u, ok := r.(unsupported); ok {
				res.Status = "outside-subset"
				res.Reason = fmt.Sprintf("%s (%s)", u.msg, w.pos(u.pos))
			} else {
				res.Status = "error"
				res.Reason = fmt.Sprintf("%v\n%s", r, debug.Stack())
			}
		}
		res.ElapsedMs = time.Since(start).Milliseconds()
		res.Notes = ex.notes
		res.Trusted = sortedNames(ctx.trusted)
		res.Contracts = sortedNames(ex.usedContract)
		res.Inlined = sortedNames(ex.inlined)
		res.Observers = sortedNames(ex.observers)
		res.Havocked = sortedNames(ex.havocked)
		res.Skipped = sortedNames(ex.skipped)
	}()
	if c != nil && c.Assume {
		res.Assumed = true
		return res
	}
	p := NewPath()
	// parameters
	bindParam := func(v *types.Var, cname string) {
		val := Value{ctx.Const("arg:"+v.Name(), ctx.SortOf(v.Type())), v.Type()}
		if v.Name() == "" || v.Name() == "_" {
			val = Value{ctx.Fresh("arg", ctx.SortOf(v.Type())), v.Type()}
		}
		p.vars[v] = val
		p.Assume(ctx.typeInvariant(val))
		if ctx.SortOf(v.Type()) == "Ref" {
			ex.bornBefore(p, val.T)
		}
		if w.EmittedPaths[fi.Obj.Pkg().Path()] {
			ex.requestWellFormed(p, val)
		}
		if sl, ok := v.Type().Underlying().(*types.Slice); ok {
			if ptr, ok := sl.Elem().Underlying().(*types.Pointer); ok {
				if n, ok := types.Unalias(ptr.Elem()).(*types.Named); ok && n.Obj().Pkg() != nil && strings.HasSuffix(n.Obj().Pkg().Path(), "compiler/protogen") {
					// protogen never puts nil entries into its lists: a list of descriptors handed to a function has none
					ctx.Trust("a parameter of type []*protogen.T holds no nil entry (protogen's lists never do)")
					p.Assume("(forall ((k!p Int)) (=> (and (<= 0 k!p) (< k!p " + ctx.sliceLen(val) + ")) (not (= " + ctx.sliceAt(val, "k!p") + " null))))")
				}
			}
		}
		if cname != "" && cname != "_" {
			p.entry[cname] = val
			if ex.paramAlias == nil {
				ex.paramAlias = map[string]*types.Var{}
			}
			ex.paramAlias[cname] = v // the contract's name for this parameter, whatever the code calls it
		}
		if v.Name() != "" {
			if _, ok := p.entry[v.Name()]; !ok {
				p.entry[v.Name()] = val
			}
		}
	}
	if sig.Recv() != nil {
		cn := ""
		if c != nil {
			cn = c.RecvName
		}
		bindParam(sig.Recv(), cn)
		if ptr, ok := sig.Recv().Type().(*types.Pointer); ok {
			_ = ptr
			p.Assume("(not (= " + p.vars[sig.Recv()].T + " null))")
		}
	}
	for i := 0; i < sig.Params().Len(); i++ {
		cn := ""
		if c != nil && i < len(c.ParamNames) {
			cn = c.ParamNames[i]
		}
		bindParam(sig.Params().At(i), cn)
	}
	for i := 0; i < sig.Results().Len(); i++ {
		r := sig.Results().At(i)
		if r.Name() != "" && r.Name() != "_" {
			p.vars[r] = Value{ctx.Zero(r.Type()), r.Type()}
		}
	}
	if closureSig != nil {
		// the closure's own parameters; the enclosing function's parameters are the captured variables
		for i := 0; i < closureSig.Params().Len(); i++ {
			bindParam(closureSig.Params().At(i), "")
		}
		sig = closureSig
		ex.curFnSig = closureSig
	}
	// requires
	if c != nil {
		for _, r := range c.Requires {
			p.Assume(ex.evalClause(p, r.E, true))
		}
		// entry-state lets are visible to at-call clauses and invariants
		for _, l := range c.Lets {
			p.names[l.Name] = ex.evalClauseValue(p, l.E)
		}
	}
	if opts.Closure == 0 {
		ex.setupFrame(p, c)
	}
	if c != nil && len(c.Requires) > 0 {
		ex.addObl(p, key+"#cover.requires", "cover", "precondition is satisfiable", "false", fi.Decl.Pos(), "")
	}
	entryHeap := map[string]string{}
	p.oldHeap, p.oldGen = entryHeap, ""
	outs := ex.execBlock(p, body.List)
	res.Paths = len(outs)
	for _, o := range outs {
		switch o.kind {
		case oReturn, oNormal:
			if o.kind == oNormal && sig.Results().Len() > 0 {
				continue // unreachable fall-off (Go requires terminating statement)
			}
			if c == nil {
				continue
			}
			q := o.p
			q.names = map[string]Value{}
			for i, v := range o.rets {
				if i < len(c.ResultNames) {
					q.names[c.ResultNames[i]] = v
				}
			}
			if len(o.rets) == 1 {
				q.names["result"] = o.rets[0]
			}
			// map parameters named in `modifies` are references: ensures see their final content, old() the entry content
			for _, mname := range c.Modifies {
				for obj, val := range q.vars {
					if alias := ex.paramAlias[mname]; (alias != nil && obj == alias) || (alias == nil && obj.Name() == mname) {
						if _, isMap := val.Ty.Underlying().(*types.Map); isMap {
							if _, isParam := q.entry[mname]; isParam {
								q.names[mname] = val
							}
						}
					}
				}
			}
			// hide current values of reassigned parameters: ensures talk about entry values
			for k, v := range q.entry {
				if _, ok := q.names[k]; !ok {
					q.names[k] = v
				}
			}
			hide := map[types.Object]Value{}
			for obj, v := range q.vars {
				if _, isEntry := q.entry[obj.Name()]; isEntry {
					hide[obj] = v
					delete(q.vars, obj)
				}
			}
			q.oldHeap, q.oldGen = entryHeap, ""
			if os.Getenv("GOVC_DEBUG") != "" {
				var ks []string
				for k, t := range q.heap {
					if strings.HasPrefix(k, "ghost:cnt") {
						ks = append(ks, k+"="+t)
					}
				}
				sort.Strings(ks)
				fmt.Fprintf(os.Stderr, "DEBUG return path: events=%d %v\n", len(q.events), ks)
			}
			for _, l := range c.Lets {
				q.names[l.Name] = ex.evalClauseValue(q, l.E)
			}
			for i, e := range c.Ensures {
				nm := e.Name
				if nm == "" {
					nm = fmt.Sprint(i)
				}
				g := ex.evalClause(q, e.E, false)
				ex.addObl(q, fmt.Sprintf("%s#ensures[%s]", key, nm), "ensures", e.Text, g, fi.Decl.Pos(), "")
			}
			ex.checkFrame(q, fi.Decl.Pos(), "exit")
		case oPanic:
		default:
			panic(unsupported{"stray break/continue at function level", token.NoPos})
		}
	}
	if opts.Events {
		res.Notes = append(res.Notes, fmt.Sprintf("%d paths", len(outs)))
	}
	if os.Getenv("GOVC_DEBUG") != "" {
		fmt.Fprintf(os.Stderr, "DEBUG %s: symbolic execution took %dms, prelude %d bytes\n", key, time.Since(start).Milliseconds(), len(ctx.Prelude()))
	}
	res.Obls = ex.discharge(opts)
	for i := range res.Obls {
		if res.Obls[i].Kind == "cover" {
			res.Obls[i].Expect = "refuted"
		}
	}
	if len(res.Obls) > 0 {
		res.SampleQuery = res.Obls[0].Script
	}
	return res
}

// installAxioms adds the trusted axioms of the spec files to the unit. An axiom is relevant only if every
// heap field, observer and spec symbol it mentions already occurs in the unit (otherwise it cannot take part
// in any proof of this unit); irrelevant axioms are left out to keep the queries small.
func (ex *Exec) installAxioms() {
	for round := 0; round < 3; round++ {
		added := false
		for _, ax := range ex.w.Axioms {
			if ex.c.axiomSeen["axiom:"+ax.Name] || ex.axiomSkipped[ax.Name] == round+1 {
				continue
			}
			before := map[string]bool{}
			for k := range ex.c.funSeen {
				before[k] = true
			}
			nDecl, nAx := len(ex.c.funDecls), len(ex.c.axioms)
			ex.installAxiom(ax)
			relevant := true
			for _, d := range ex.c.funDecls[nDecl:] {
				// a symbol first declared by the axiom itself: the unit never mentioned it
				if strings.Contains(d, "|H:") || strings.Contains(d, "|obs:") || strings.Contains(d, "|spec:") || strings.Contains(d, "|fn:") {
					relevant = false
				}
			}
			if !relevant {
				// roll back
				for _, d := range ex.c.funDecls[nDecl:] {
					name := firstArg(strings.TrimPrefix(strings.TrimPrefix(d, "(declare-fun "), "(declare-const "))
					delete(ex.c.funSeen, name)
				}
				ex.c.funDecls = ex.c.funDecls[:nDecl]
				for _, n := range ex.c.axiomName[nAx:] {
					delete(ex.c.axiomSeen, n)
				}
				ex.c.axioms = ex.c.axioms[:nAx]
				ex.c.axiomName = ex.c.axiomName[:nAx]
				delete(ex.c.trusted, "axiom:"+ax.Name+" ("+ax.File+")")
				ex.axiomSkipped[ax.Name] = round + 1
				continue
			}
			added = true
		}
		if !added {
			break
		}
	}
}

func (ex *Exec) installAxiom(ax *SpecAxiom) {
	if ex.c.axiomSeen["axiom:"+ax.Name] {
		return
	}
	q := NewPath()
	var binders []string
	var axInvs []string
	for _, b := range ax.Params {
		t, err := ex.w.ResolveType(b.Type, nil)
		if err != nil {
			panic(unsupported{"axiom " + ax.Name + ": " + err.Error(), token.NoPos})
		}
		ex.qvarCounter++
		vn := fmt.Sprintf("|%s?%d|", b.Name, ex.qvarCounter)
		q.names[b.Name] = Value{vn, t}
		binders = append(binders, "("+vn+" "+ex.c.SortOf(t)+")")
		if inv := ex.c.typeInvariant(Value{vn, t}); inv != "true" {
			if bt, ok := t.Underlying().(*types.Basic); !ok || bt.Kind() == types.Float32 || bt.Info()&types.IsUnsigned != 0 {
				axInvs = append(axInvs, inv)
			}
		}
	}
	outer := ex.quantFacts
	var facts []string
	ex.quantFacts = &facts
	saveGuards, savePkg := ex.guards, ex.pkg
	ex.guards, ex.pkg = nil, nil
	ex.contractMode++
	saveObl := ex.oblCalls
	ex.oblCalls = false
	ex.noBirth++
	body := ex.evalCE(q, ax.Body)
	ex.noBirth--
	if len(axInvs) > 0 {
		body.T = implies(and(axInvs...), body.T)
	}
	ex.oblCalls = saveObl
	ex.contractMode--
	ex.guards, ex.pkg = saveGuards, savePkg
	ex.quantFacts = outer
	f := body.T
	if len(binders) > 0 {
		f = "(forall (" + strings.Join(binders, " ") + ") " + f + ")"
	}
	ex.c.Axiom("axiom:"+ax.Name, f)
	for i, fct := range facts {
		g := fct
		if len(binders) > 0 {
			g = "(forall (" + strings.Join(binders, " ") + ") " + fct + ")"
		}
		ex.c.Axiom(fmt.Sprintf("axiom:%s.fact%d", ax.Name, i), g)
	}
	ex.c.Trust("axiom:" + ax.Name + " (" + ax.File + ")")
}

// discharge turns recorded obligations into solver queries (one per obligation name).
func (ex *Exec) discharge(opts VerifyOpts) []OblResult {
	timeout := opts.Timeout
	if timeout == 0 {
		timeout = 10 * time.Second
	}
	ex.installAxioms()
	prelude := ex.c.Prelude()
	results := make([]OblResult, len(ex.oblOrder))
	var wg sync.WaitGroup
	for i, name := range ex.oblOrder {
		o := ex.obls[name]
		if opts.Only != nil && !opts.Only(name) {
			results[i] = OblResult{Name: name, Status: "skipped"}
			continue
		}
		var disj, weak, reach, reachFull []string
		var where []string
		hasQuant := ex.c.HasQuantAxioms()
		for _, in := range o.Insts {
			if in.PC == "false" {
				continue
			}
			if in.Goal == "true" {
				// holds syntactically on this path: nothing to refute, but the path counts for the reachability (vacuity) guard
				var qf []string
				for _, c := range in.PCs {
					if !isQuantified(c) {
						qf = append(qf, c)
					}
				}
				reach = append(reach, and(qf...))
				reachFull = append(reachFull, in.PC)
				continue
			}
			disj = append(disj, and(in.PC, not(in.Goal)))
			var qf []string
			for _, c := range in.PCs {
				if isQuantified(c) {
					hasQuant = true
					continue
				}
				qf = append(qf, c)
			}
			weak = append(weak, and(and(qf...), not(in.Goal)))
			reach = append(reach, and(qf...))
			reachFull = append(reachFull, in.PC)
			where = append(where, in.Pos)
		}
		r := OblResult{Name: name, Kind: o.Kind, Func: o.Func, Text: o.Text, Insts: len(o.Insts), Where: strings.Join(uniq(where), ",")}
		if len(disj) == 0 {
			r.Status = "proved"
			r.Backend = "syntactic (goal reduced to true)"
			results[i] = r
			continue
		}
		script := prelude + "(assert " + or(disj...) + ")\n"
		weakScript := ""
		if hasQuant {
			weakScript = ex.c.PreludeNoQuantAxioms() + "(assert " + or(weak...) + ")\n"
		}
		r.Script = script
		reachScript, reachFullScript := "", ""
		switch o.Kind {
		case "ensures", "at-call", "invariant", "decreases", "requires", "frame", "lemma":
			reachScript = ex.c.PreludeNoQuantAxioms() + "(assert " + or(reach...) + ")\n"
			reachFullScript = prelude + "(assert " + or(reachFull...) + ")\n"
		}
		wg.Add(1)
		go func(i int, r OblResult, o *Obligation, script, weakScript string) {
			defer wg.Done()
			defer func() {
				// vacuity guard: a proved obligation whose every instance sits on a contradictory path proves nothing
				if results[i].Status == "proved" && reachScript != "" {
					rr := Solve(reachScript, 5*time.Second, false)
					results[i].SolverMs += rr.Ms
					if rr.Status == "unsat" {
						if d := os.Getenv("GOVC_DUMP_VACUOUS"); d != "" {
							os.WriteFile(filepath.Join(d, safeName(results[i].Name)+".reach.smt2"), []byte(reachScript), 0o644)
						}
						results[i].Status = "vacuous"
						results[i].Raw = "every path that reaches this obligation has contradictory hypotheses (quantifier-free part already unsatisfiable): nothing is proved"
					} else if reachFullScript != "" && !strings.Contains(results[i].Backend, "without quantified assumptions") {
						// the proof used quantified assumptions (axioms, callee postconditions, invariants): if those, together
						// with the path conditions, are refutable by themselves, the proof shows nothing either
						rf := Solve(reachFullScript, 2*time.Second, false)
						results[i].SolverMs += rf.Ms
						if rf.Status == "unsat" {
							results[i].Status = "vacuous"
							results[i].Raw = "the hypotheses of this obligation (path conditions with the quantified assumptions and axioms) are contradictory by themselves: nothing is proved"
						}
					}
				}
			}()
			var weakRes *SolverResult
			if weakScript != "" {
				// first without the quantified assumptions: unsat there is unsat with them
				wr := Solve(weakScript, timeout, true)
				r.SolverMs += wr.Ms
				if wr.Status == "unsat" {
					r.Status = "proved"
					r.Backend = wr.Solver + " (without quantified assumptions)"
					results[i] = r
					return
				}
				weakRes = &wr
				if wr.Status == "sat" && (o.Kind == "cover" || o.Kind == "canary") {
					r.Status = "refuted-weak"
					r.Backend = wr.Solver + " (model of the quantifier-free part)"
					r.Model = trimModel(wr.Model)
					results[i] = r
					return
				}
			}
			sr := Solve(script, timeout, true)
			r.SolverMs += sr.Ms
			if sr.Status != "unsat" && sr.Status != "sat" && (loadScale() > 1.05 || sr.Status == "timeout") && o.Kind != "cover" && o.Kind != "canary" {
				// undecided because time ran out, or on a busy machine: once more, with three times the budget, before anything
				// is reported (an undischarged obligation on a tree where it holds is a false alarm; a second attempt costs
				// time only on trees where something is wrong anyway)
				sr2 := Solve(script, 3*timeout, true)
				r.SolverMs += sr2.Ms
				if sr2.Status == "unsat" || sr2.Status == "sat" {
					sr = sr2
				}
			}
			r.Backend = sr.Solver
			switch sr.Status {
			case "unsat":
				r.Status = "proved"
			case "sat":
				r.Status = "refuted"
				r.Model = trimModel(sr.Model)
			default:
				if weakRes != nil && weakRes.Status == "sat" {
					r.Status = "refuted-weak"
					r.Backend = weakRes.Solver + " (model of the quantifier-free part; full query: " + sr.Status + ")"
					r.Model = trimModel(weakRes.Model)
				} else {
					r.Status = "unknown"
					r.Raw = sr.Status + ": " + firstLines(sr.Raw, 4)
				}
			}
			results[i] = r
		}(i, r, o, script, weakScript)
	}
	wg.Wait()
	var out []OblResult
	for _, r := range results {
		if r.Status != "skipped" {
			out = append(out, r)
		}
	}
	return out
}

func isQuantified(c string) bool {
	return strings.Contains(c, "(forall ") || strings.Contains(c, "(exists ")
}

func uniq(xs []string) []string {
	seen := map[string]bool{}
	var out []string
	for _, x := range xs {
		if !seen[x] {
			seen[x] = true
			out = append(out, x)
		}
	}
	return out
}

// trimModel keeps the interesting part of a model: argument and fresh constants, not arrays of closures.
func trimModel(m string) string {
	if len(m) > 6000 {
		m = m[:6000] + "\n...(truncated)"
	}
	return m
}

// ---------------------------------------------------------------------------------------
// lemmas

func (w *World) VerifyLemma(l *Lemma, opts VerifyOpts) (res *UnitResult) {
	start := time.Now()
	res = &UnitResult{Unit: l.Name, Kind: "lemma", Status: "ok"}
	ctx := NewCtx()
	ex := NewExec(w, ctx)
	ex.funcKey = l.Name
	ex.lemmaMode = true
	ex.oblCalls = true
	defer func() {
		if r := recover(); r != nil {
			if u, ok := r.(unsupported); ok {
				res.Status = "unbound"
				res.Reason = u.msg
			} else {
				res.Status = "error"
				res.Reason = fmt.Sprintf("%v\n%s", r, debug.Stack())
			}
		}
		res.ElapsedMs = time.Since(start).Milliseconds()
		res.Notes = ex.notes
		res.Trusted = sortedNames(ctx.trusted)
		res.Contracts = sortedNames(ex.usedContract)
		res.Inlined = sortedNames(ex.inlined)
		res.Observers = sortedNames(ex.observers)
		res.Havocked = sortedNames(ex.havocked)
	}()
	p := NewPath()
	for _, b := range l.Params {
		t, err := w.ResolveType(b.Type, nil)
		if err != nil {
			panic(unsupported{fmt.Sprintf("lemma %s: parameter %s: %v", l.Name, b.Name, err), token.NoPos})
		}
		v := Value{ctx.Const("arg:"+b.Name, ctx.SortOf(t)), t}
		p.names[b.Name] = v
		p.Assume(ctx.typeInvariant(v))
		if _, isPtr := t.Underlying().(*types.Pointer); isPtr {
			p.Assume("(not (= " + v.T + " null))")
		}
	}
	ex.contractMode = 1
	nEns := 0
	var concl []string
	for _, s := range l.Steps {
		switch s.Kind {
		case "requires":
			p.Assume(ex.evalCE(p, s.E).T)
		case "let":
			if strings.Contains(s.Name, ",") {
				if s.E.Kind != "go" {
					panic(unsupported{"multi-value let needs a call expression", token.NoPos})
				}
				ex.subsStack = append(ex.subsStack, s.E.Subs)
				vals := ex.evalMulti(p, s.E.Go)
				ex.subsStack = ex.subsStack[:len(ex.subsStack)-1]
				names := strings.Split(s.Name, ",")
				if len(names) != len(vals) {
					panic(unsupported{fmt.Sprintf("let %s: %d values", s.Name, len(vals)), token.NoPos})
				}
				for i, n := range names {
					p.names[strings.TrimSpace(n)] = vals[i]
				}
			} else {
				p.names[s.Name] = ex.evalCE(p, s.E)
			}
		case "call":
			ex.subsStack = append(ex.subsStack, s.E.Subs)
			ex.evalMulti(p, s.E.Go)
			ex.subsStack = ex.subsStack[:len(ex.subsStack)-1]
		case "witness":
			val := ex.evalCE(p, s.E)
			wc := ctx.Const("w:"+s.Name, ctx.SortOf(val.Ty))
			p.Assume("(= " + wc + " " + val.T + ")")
		case "ensures", "canary":
			nm := s.Name
			if nm == "" {
				nm = fmt.Sprint(nEns)
			}
			nEns++
			g := ex.evalCE(p, s.E).T
			kind := "lemma"
			if s.Kind == "canary" {
				kind = "canary"
			}
			// earlier conclusions may be used by later ones, but never by the vacuity check
			ex.guards = append(ex.guards, concl...)
			ex.addObl(p, l.Name+"#"+nm, kind, s.Text, g, token.NoPos, "")
			ex.guards = ex.guards[:len(ex.guards)-len(concl)]
			if s.Kind == "ensures" {
				concl = append(concl, g)
			}
		}
	}
	// vacuity: the hypotheses must be satisfiable
	ex.addObl(p, l.Name+"#cover", "cover", "hypotheses are satisfiable", "false", token.NoPos, "")
	ex.contractMode = 0
	res.Obls = ex.discharge(opts)
	for i := range res.Obls {
		o := &res.Obls[i]
		if o.Kind == "canary" || o.Kind == "cover" {
			o.Expect = "refuted"
		}
	}
	if len(res.Obls) > 0 {
		res.SampleQuery = res.Obls[0].Script
	}
	return res
}

func sortResults(rs []*UnitResult) {
	sort.Slice(rs, func(i, j int) bool { return rs[i].Unit < rs[j].Unit })
}

// ---------------------------------------------------------------------------------------
// Frame conditions. A contract's `modifies` clause is what callers rely on when they keep their knowledge of
// the heap across a call, so the body is checked against it: at every exit (and inductively through every
// loop) each heap cell of an object that existed at entry and is not named by `modifies` holds its entry value.

type frameInfo struct {
	all     bool              // modifies *
	objects []frameObj        // objects (entry values of pointer parameters) that may change
}

type frameObj struct {
	ref    string // entry value
	prefix string // heap keys of this object: "~pkg.Type." (named struct) or the deref key
	field  string // "" = every field
}

func (ex *Exec) setupFrame(p *Path, c *Contract) {
	ex.frame = nil
	if c == nil || c.Assume {
		return
	}
	fr := &frameInfo{}
	for _, m := range c.Modifies {
		if m == "*" {
			fr.all = true
			continue
		}
		name, field := m, ""
		if i := strings.Index(m, "."); i >= 0 {
			name, field = m[:i], m[i+1:]
		}
		v, ok := p.entry[name]
		if !ok {
			v, ok = p.names[name]
		}
		if !ok {
			continue
		}
		ptr, isPtr := v.Ty.Underlying().(*types.Pointer)
		if !isPtr {
			continue // maps and values: not heap cells
		}
		if named, ok := types.Unalias(ptr.Elem()).(*types.Named); ok {
			if _, isStruct := named.Underlying().(*types.Struct); isStruct {
				fr.objects = append(fr.objects, frameObj{ref: v.T, prefix: heapKeyOf(named, ""), field: field})
				continue
			}
		}
		fr.objects = append(fr.objects, frameObj{ref: v.T, prefix: "deref:" + sortToken(ex.c.SortOf(ptr.Elem()))})
	}
	ex.frame = fr
}

// frameCond states that heap key k, whose current term is cur, agrees with the entry heap on every object that
// existed at entry and that the contract does not allow to change.
func (ex *Exec) frameCond(k, cur string) string {
	s := ex.sortOfHeapTerm(cur)
	if s == "" {
		return ""
	}
	base := ex.c.Const("H:"+k, s)
	if cur == base {
		return ""
	}
	guard := []string{"(< (" + ex.birthFun() + " r!f) 0)", "(not (= r!f null))"}
	for _, o := range ex.frame.objects {
		kk := strings.TrimPrefix(k, "~")
		if strings.HasPrefix(kk, o.prefix) && (o.field == "" || kk == o.prefix+o.field) {
			guard = append(guard, "(not (= r!f "+o.ref+"))")
		}
	}
	return "(forall ((r!f Ref)) (=> " + and(guard...) + " (= (select " + cur + " r!f) (select " + base + " r!f))))"
}

func (ex *Exec) frameKeys(p *Path) []string {
	var ks []string
	for k := range p.heap {
		if strings.HasPrefix(k, "ghost:") {
			continue
		}
		ks = append(ks, k)
	}
	sort.Strings(ks)
	return ks
}

// checkFrame records the frame obligations of the current state.
func (ex *Exec) checkFrame(p *Path, pos token.Pos, where string) {
	if ex.frame == nil || ex.frame.all || ex.inContract() {
		return
	}
	if p.heapGen != "" {
		ex.addObl(p, ex.funcKey+"#frame[*]", "frame", "the body reaches code that may write any heap cell, so the contract must say `modifies *`: "+strings.Join(uniqSorted(ex.havocWhy), "; "), "false", pos, where)
		return
	}
	for _, k := range ex.frameKeys(p) {
		if g := ex.frameCond(k, p.heap[k]); g != "" {
			ex.addObl(p, ex.funcKey+"#frame["+strings.TrimPrefix(k, "~")+"]", "frame", "objects that existed at entry and are not named by `modifies` keep their "+strings.TrimPrefix(k, "~"), g, pos, where)
		}
	}
}

// assumeFrame: after a loop havoc, the (inductively checked) frame condition of the havocked keys.
func (ex *Exec) assumeFrame(p *Path) {
	if ex.frame == nil || ex.frame.all || p.heapGen != "" {
		return
	}
	for _, k := range ex.frameKeys(p) {
		if g := ex.frameCond(k, p.heap[k]); g != "" {
			p.Assume(g)
		}
	}
}
