#!/usr/bin/env python3
"""Reads {"cases":[{"id":..,"schema":{..},"instances":[..]}]} on stdin and reports, per instance, whether it
validates under JSON Schema 2020-12 (or that the schema itself is invalid)."""
import json, sys
from jsonschema import Draft202012Validator
from jsonschema.exceptions import SchemaError

data = json.load(sys.stdin)
out = []
for c in data["cases"]:
    res = {"id": c["id"], "schema_error": None, "accepts": []}
    try:
        Draft202012Validator.check_schema(c["schema"])
    except SchemaError as e:
        res["schema_error"] = str(e).split("\n")[0][:200]
    v = Draft202012Validator(c["schema"])
    for inst in c["instances"]:
        try:
            res["accepts"].append(v.is_valid(inst))
        except Exception as e:  # invalid schema keywords can raise at validation time
            res["accepts"].append(None)
            if res["schema_error"] is None:
                res["schema_error"] = "validation raised: " + str(e)[:160]
    out.append(res)
json.dump(out, sys.stdout)
