package main

// Calls: builtins, library models, contracts (modular), inlining, uninterpreted observers, havoc.

import (
	"strconv"
	"sort"
	"fmt"
	"go/ast"
	"go/token"
	"go/types"
	"strings"
)

func (ex *Exec) evalCall(p *Path, call *ast.CallExpr, multi bool) []Value {
	if ex.inContract() {
		return ex.evalCallC(p, call, multi)
	}
	// conversion
	if tv, ok := ex.info.Types[call.Fun]; ok && tv.IsType() {
		v := ex.eval(p, call.Args[0])
		return []Value{ex.convertExplicit(p, v, tv.Type, call.Pos())}
	}
	// builtin
	fun := call.Fun
	if pe, ok := fun.(*ast.ParenExpr); ok {
		fun = pe.X
	}
	if id, ok := fun.(*ast.Ident); ok {
		if b, ok := ex.info.Uses[id].(*types.Builtin); ok {
			return ex.evalBuiltin(p, b.Name(), call)
		}
	}
	fn := ex.calleeOf(call)
	if fn != nil {
		var recv *Value
		if sel, ok := unparen(call.Fun).(*ast.SelectorExpr); ok {
			if s := ex.info.Selections[sel]; s != nil && s.Kind() == types.MethodVal {
				rv := ex.eval(p, sel.X)
				// walk embedded fields to the method's receiver
				idx := s.Index()
				for _, i := range idx[:len(idx)-1] {
					rv = ex.fieldByIndex(p, rv, i, call.Pos())
				}
				recv = &rv
			}
		}
		args := ex.evalArgs(p, call, fn.Type().(*types.Signature))
		return ex.callFunc(p, fn, recv, args, call)
	}
	// function value
	fv := ex.eval(p, call.Fun)
	sig, _ := fv.Ty.Underlying().(*types.Signature)
	var args []Value
	if sig != nil {
		args = ex.evalArgs(p, call, sig)
	} else {
		for _, a := range call.Args {
			args = append(args, ex.eval(p, a))
		}
	}
	return ex.callValue(p, fv, args, call)
}

func unparen(e ast.Expr) ast.Expr {
	for {
		switch x := e.(type) {
		case *ast.ParenExpr:
			e = x.X
			continue
		case *ast.IndexExpr:
			// generic instantiation
			return unparenIdx(x)
		}
		return e
	}
}

func unparenIdx(x *ast.IndexExpr) ast.Expr { return unparen(x.X) }

func (ex *Exec) evalArgs(p *Path, call *ast.CallExpr, sig *types.Signature) []Value {
	if len(call.Args) == 1 && sig.Params().Len() > 1 {
		// f(g()) with multi-value g
		return ex.evalMulti(p, call.Args[0])
	}
	var vals []Value
	for _, a := range call.Args {
		vals = append(vals, ex.eval(p, a))
	}
	return ex.packArgs(p, sig, vals, call.Ellipsis.IsValid(), call.Pos())
}

func (ex *Exec) convertExplicit(p *Path, v Value, to types.Type, pos token.Pos) Value {
	return ex.convert(p, v, to, pos)
}

func (ex *Exec) evalBuiltin(p *Path, name string, call *ast.CallExpr) []Value {
	intT := types.Typ[types.Int]
	switch name {
	case "len", "cap":
		v := ex.eval(p, call.Args[0])
		return []Value{ex.lenOf(v, call.Pos())}
	case "append":
		base := ex.eval(p, call.Args[0])
		st := base.Ty
		if isUntypedNil(base) {
			st = ex.info.TypeOf(call)
			base = Value{ex.c.Zero(st), st}
		}
		mk, arr, ln := ex.c.sliceParts(st)
		et := elemType(st)
		if call.Ellipsis.IsValid() {
			other := ex.eval(p, call.Args[1])
			if b, ok := other.Ty.Underlying().(*types.Basic); ok && b.Info()&types.IsString != 0 {
				other = ex.convert(p, other, st, call.Pos())
			}
			f := ex.c.Fun("concat:"+sortToken(ex.c.SortOf(st)), []string{ex.c.SortOf(st), ex.c.SortOf(st)}, ex.c.SortOf(st))
			r := Value{app(f, base.T, other.T), st}
			// axioms: length and elements
			ex.assumeFact(p, "(= "+app(ln, r.T)+" (+ "+app(ln, base.T)+" "+app(ln, other.T)+"))")
			es := ex.c.SortOf(et)
			ex.c.Axiom("concat:"+sortToken(ex.c.SortOf(st)), fmt.Sprintf(
				"(forall ((a %s) (b %s) (i Int)) (! (= (select (%s (%s a b)) i) (ite (< i (%s a)) (select (%s a) i) (select (%s b) (- i (%s a))))) :pattern ((select (%s (%s a b)) i))))",
				ex.c.SortOf(st), ex.c.SortOf(st), arr, f, ln, arr, arr, ln, arr, f))
			_ = es
			return []Value{r}
		}
		a := app(arr, base.T)
		n := app(ln, base.T)
		for i, ae := range call.Args[1:] {
			v := ex.convert(p, ex.eval(p, ae), et, ae.Pos())
			if i == 0 {
				a = "(store " + a + " " + n + " " + v.T + ")"
			} else {
				a = "(store " + a + " (+ " + n + " " + fmt.Sprint(i) + ") " + v.T + ")"
			}
		}
		nn := "(+ " + n + " " + fmt.Sprint(len(call.Args)-1) + ")"
		return []Value{{app(mk, a, nn), st}}
	case "make":
		t := ex.info.TypeOf(call.Args[0])
		switch ut := t.Underlying().(type) {
		case *types.Slice:
			mk, _, _ := ex.c.sliceParts(t)
			n := "0"
			if len(call.Args) > 1 {
				n = ex.eval(p, call.Args[1]).T
			}
			// make panics on a negative length or capacity, and on a capacity below the length
			if ex.safety && !ex.inContract() && ex.quantFacts == nil {
				if _, isLit := strconv.Atoi(n); isLit != nil {
					ex.addObl(p, ex.funcKey+"#nopanic:make@"+ex.siteLabel(call.Pos()), "safety", "make: length is not negative", "(>= "+n+" 0)", call.Pos(), "")
				}
				if len(call.Args) > 2 {
					c := ex.eval(p, call.Args[2]).T
					if _, isLit := strconv.Atoi(c); isLit != nil || c < "0" {
						ex.addObl(p, ex.funcKey+"#nopanic:makecap@"+ex.siteLabel(call.Pos()), "safety", "make: capacity is not negative and not below the length", "(and (>= "+c+" 0) (>= "+c+" "+n+"))", call.Pos(), "")
					}
				}
			}
			return []Value{{app(mk, ex.c.constArray("Int", ex.c.SortOf(ut.Elem()), ex.c.Zero(ut.Elem())), n), t}}
		case *types.Map:
			mk, _, _, _ := ex.c.mapParts(t)
			return []Value{{app(mk, ex.c.constArray(ex.c.SortOf(ut.Key()), "Bool", "false"),
				ex.c.constArray(ex.c.SortOf(ut.Key()), ex.c.SortOf(ut.Elem()), ex.c.Zero(ut.Elem())), "false"), t}}
		}
		ex.unsupp(call.Pos(), "make(%s)", t)
	case "new":
		t := ex.info.TypeOf(call.Args[0])
		if _, isStruct := t.Underlying().(*types.Struct); isStruct {
			return []Value{ex.allocStruct(p, Value{ex.c.Zero(t), t}, call.Pos())}
		}
		r := ex.alloc(p, "new")
		if _, isTP := t.(*types.TypeParam); !isTP {
			ex.heapWrite(p, "deref:"+sortToken(ex.c.SortOf(t)), t, r, ex.c.Zero(t))
		}
		return []Value{{r, types.NewPointer(t)}}
	case "delete":
		base := ex.eval(p, call.Args[0])
		k := ex.eval(p, call.Args[1])
		mk, dom, val, isnil := ex.c.mapParts(base.Ty)
		nm := app(mk, "(store "+app(dom, base.T)+" "+k.T+" false)", app(val, base.T), app(isnil, base.T))
		ex.assignTo(p, call.Args[0], Value{nm, base.Ty})
		return nil
	case "copy":
		ex.unsupp(call.Pos(), "builtin copy")
	case "min", "max":
		a := ex.eval(p, call.Args[0])
		b := ex.eval(p, call.Args[1])
		op := "<="
		if name == "max" {
			op = ">="
		}
		return []Value{{ite("("+op+" "+a.T+" "+b.T+")", a.T, b.T), a.Ty}}
	case "panic":
		ex.unsupp(call.Pos(), "panic in expression position")
	}
	_ = intT
	ex.unsupp(call.Pos(), "builtin %s", name)
	return nil
}

func (ex *Exec) lenOf(v Value, pos token.Pos) Value {
	intT := types.Typ[types.Int]
	switch t := v.Ty.Underlying().(type) {
	case *types.Basic:
		if t.Info()&types.IsString != 0 {
			return Value{"(str.len " + v.T + ")", intT}
		}
	case *types.Slice, *types.Array:
		return Value{ex.c.sliceLen(v), intT}
	case *types.Map:
		f := ex.c.Fun("maplen:"+sortToken(ex.c.SortOf(v.Ty)), []string{ex.c.SortOf(v.Ty)}, "Int")
		// the number of entries of a map is not negative (language fact)
		srt := ex.c.SortOf(v.Ty)
		ex.c.Axiom("maplen-nonneg:"+srt, "(forall ((m "+srt+")) (! (>= ("+f+" m) 0) :pattern (("+f+" m))))")
		return Value{app(f, v.T), intT}
	case *types.Pointer:
		if a, ok := t.Elem().Underlying().(*types.Array); ok {
			return Value{fmt.Sprint(a.Len()), intT}
		}
	}
	ex.unsupp(pos, "len of %s", v.Ty)
	return Value{}
}

// ---------------------------------------------------------------------------------------

type libModel func(ex *Exec, p *Path, recv *Value, args []Value, call *ast.CallExpr) []Value

var libModels = map[string]libModel{}
var libWritesHeap = map[string]bool{}

func (ex *Exec) isObserverPkg(fn *types.Func) bool {
	if fn.Pkg() == nil {
		return true
	}
	path := fn.Pkg().Path()
	for _, pre := range []string{
		"google.golang.org/protobuf/reflect/protoreflect",
		"google.golang.org/protobuf/compiler/protogen",
		"google.golang.org/protobuf/types/descriptorpb",
		"google.golang.org/protobuf/types/known/",
		"google.golang.org/protobuf/proto",
		"buf.build/gen/go/bufbuild/protovalidate",
		"strings", "strconv", "unicode", "path", "math", "regexp", "errors", "fmt", "encoding/base64", "encoding/hex", "slices", "maps", "sort", "time",
		"github.com/pb33f/libopenapi/orderedmap",
	} {
		if path == pre || strings.HasPrefix(path, pre) {
			return true
		}
	}
	return false
}

func (ex *Exec) callFunc(p *Path, fn *types.Func, recv *Value, args []Value, call *ast.CallExpr) []Value {
	if !ex.inContract() {
		ex.decoderTarget, ex.decoderFn = ex.libraryDecoderTarget(p, fn, args), fn
		ex.escapeArgs(p, recv, args)
	}
	pos := token.NoPos
	if call != nil {
		pos = call.Pos()
	}
	if evName, isEvent := ex.eventName(fn, call); isEvent {
		// a P call is an event under every emitted-text substring the contract names that its literal text contains
		names := []string{evName}
		if strings.HasPrefix(evName, "P:") {
			names = ex.textEventNames(call)
		}
		for _, n := range names {
			ex.atCallObligations(p, n, args, pos)
		}
		res := ex.callFuncInner(p, fn, recv, args, call)
		for _, n := range names {
			ex.recordEvent(p, n, args, res, pos)
		}
		return res
	}
	return ex.callFuncInner(p, fn, recv, args, call)
}

func (ex *Exec) callFuncInner(p *Path, fn *types.Func, recv *Value, args []Value, call *ast.CallExpr) []Value {
	saveCall := ex.curCall
	ex.curCall = call
	defer func() { ex.curCall = saveCall }()
	full := fn.FullName()
	if fn.Origin() != nil {
		full = fn.Origin().FullName()
	}
	pos := token.NoPos
	if call != nil {
		pos = call.Pos()
	}
	if m, ok := libModels[full]; ok {
		return m(ex, p, recv, args, call)
	}
	key := shortKey(fn)
	if c := ex.w.Contracts[key]; c != nil && ex.contractApplies(c, fn) {
		return ex.applyContract(p, c, fn, recv, args, pos)
	}
	if ex.emittedPkg(fn) {
		if c := ex.w.emittedContract(fn); c != nil {
			return ex.applyContract(p, c, fn, recv, args, pos)
		}
	}
	if fi := ex.w.Funcs[full]; fi != nil && fi.Decl.Body != nil {
		if fn.Type().(*types.Signature).Results().Len() == 0 && !ex.traceEvents && !ex.safety && !ex.emittedPkg(fn) && ex.bodyIsHeapPure(fi, 0) && !ex.writesThroughParams(fi) {
			// no results and no write to modelled state: the call cannot influence any functional obligation
			ex.skipped[key] = true
			return nil
		}
		if ex.canInline(full) && !ex.generatedPlumbing(fi) {
			if vals, ok := ex.tryInline(p, fi, recv, args, pos); ok {
				return vals
			}
			pure := ex.bodyIsHeapPure(fi, 0)
			ex.note("call to %s at %s abstracted (body outside the subset): results havocked, mutable heap %s", key, ex.w.pos(pos), map[bool]string{true: "kept (callee writes no modelled state)", false: "havocked"}[pure])
			return ex.havocCall(p, fn, !pure)
		}
		ex.note("call to %s at %s abstracted (recursive or too deep): results havocked", key, ex.w.pos(pos))
		if ex.contract != nil && ex.contract.Decreases != nil && !ex.inContract() && ex.w.onCallCycle(full) {
			// a helper on the unit's call cycle that could not be inlined: its recursive calls are not seen, so the
			// termination argument has a hole
			ex.addObl(p, fmt.Sprintf("%s#decreases@%s", ex.funcKey, ex.siteLabel(pos)), "decreases", "call to "+key+" (on a call cycle, no measure, not inlinable)", "false", pos, "call to "+key)
		}
		return ex.havocCall(p, fn, true)
	}
	sig := fn.Type().(*types.Signature)
	if pure, known := ex.isPureLibrary(full); known {
		if pure {
			return ex.observerCall(p, fn, full, recv, args, sig)
		}
		// effectful library call: results unknown, modelled heap untouched (effects are on library objects)
		ex.havocked[full] = true
		ex.havocSliceArgs(p, call)
		var out []Value
		for i := 0; i < sig.Results().Len(); i++ {
			rt := sig.Results().At(i).Type()
			v := Value{ex.c.Fresh("lib:"+fn.Name(), ex.c.SortOf(rt)), rt}
			p.Assume(ex.c.typeInvariant(v))
			out = append(out, v)
		}
		ex.libraryPostFacts(p, full, out)
		return out
	}
	if ex.isObserverPkg(fn) || ex.isGeneratedGetter(fn) {
		return ex.observerCall(p, fn, full, recv, args, sig)
	}
	// interface method of a repository-declared interface or unknown library call
	if ex.traceEvents {
		ev := Event{Name: "CALL:" + key, Pos: pos}
		for _, a := range args {
			ev.Args = append(ev.Args, a.T)
		}
		p.events = append(p.events, ev)
	}
	if !ex.w.IsRepoFunc(fn) {
		ex.havocSliceArgs(p, call)
	}
	return ex.havocCall(p, fn, !ex.w.IsRepoFunc(fn))
}

// havocSliceArgs: a library function may reorder or overwrite the elements of a slice it is handed (sort.Slice,
// copy-like helpers); the length of the caller's slice value cannot change.
func (ex *Exec) havocSliceArgs(p *Path, call *ast.CallExpr) {
	if call == nil || ex.inContract() {
		return
	}
	for _, a := range call.Args {
		id, ok := unparen(a).(*ast.Ident)
		if !ok {
			continue
		}
		obj, _ := ex.info.Uses[id].(*types.Var)
		if obj == nil {
			continue
		}
		if _, isSlice := obj.Type().Underlying().(*types.Slice); !isSlice {
			continue
		}
		cur, ok := p.vars[obj]
		if !ok {
			continue
		}
		v := Value{ex.c.Fresh("libw:"+obj.Name(), ex.c.SortOf(cur.Ty)), cur.Ty}
		p.Assume(eq(ex.c.sliceLen(v), ex.c.sliceLen(cur)))
		p.Assume(ex.c.typeInvariant(v))
		p.vars[obj] = v
	}
}

func (ex *Exec) emittedPkg(fn *types.Func) bool {
	return fn.Pkg() != nil && ex.w.EmittedPaths[fn.Pkg().Path()]
}

func (ex *Exec) contractApplies(c *Contract, fn *types.Func) bool {
	if c.Emitted {
		return ex.emittedPkg(fn)
	}
	return true
}

func (ex *Exec) isGeneratedGetter(fn *types.Func) bool {
	// protoc-gen-go getters Get*/Has* on message types outside the repository
	sig := fn.Type().(*types.Signature)
	if sig.Recv() == nil {
		return false
	}
	return strings.HasPrefix(fn.Name(), "Get") || strings.HasPrefix(fn.Name(), "Has") || fn.Name() == "String" || fn.Name() == "Number" || fn.Name() == "Enum"
}

func (ex *Exec) observerCall(p *Path, fn *types.Func, full string, recv *Value, args []Value, sig *types.Signature) []Value {
	ex.observers[full] = true
	var sorts, terms []string
	if recv != nil {
		sorts = append(sorts, ex.c.SortOf(recv.Ty))
		terms = append(terms, recv.T)
	}
	for _, a := range args {
		sorts = append(sorts, ex.c.SortOf(a.Ty))
		terms = append(terms, a.T)
	}
	var out []Value
	for i := 0; i < sig.Results().Len(); i++ {
		rt := sig.Results().At(i).Type()
		name := "obs:" + full
		if sig.Results().Len() > 1 {
			name += fmt.Sprintf("#%d", i)
		}
		// receiver-sort may vary between call sites for interface methods; key on the sorts
		f := ex.c.Fun(name+"/"+strings.Join(mapStr(sorts, sortToken), ","), sorts, ex.c.SortOf(rt))
		v := Value{app(f, terms...), rt}
		ex.assumeFact(p, ex.c.typeInvariant(v))
		if recv != nil && ex.c.SortOf(recv.Ty) == "Ref" && strings.HasPrefix(fn.Name(), "Get") && len(args) == 0 && ex.isGeneratedGetter(fn) && !ex.w.IsRepoFunc(fn) {
			if _, isPtr := recv.Ty.Underlying().(*types.Pointer); isPtr {
				// protoc-gen-go getters are nil-receiver safe: on a nil message they return the zero value
				ex.c.Trust("protoc-gen-go getters (Get*) return the zero value on a nil receiver")
				ex.assumeFact(p, implies(eq(recv.T, "null"), eq(v.T, ex.c.Zero(rt))))
			}
		}
		out = append(out, v)
	}
	return out
}

func mapStr(xs []string, f func(string) string) []string {
	out := make([]string, len(xs))
	for i, x := range xs {
		out[i] = f(x)
	}
	return out
}

func (ex *Exec) havocCall(p *Path, fn *types.Func, mayWriteHeap bool) []Value {
	sig := fn.Type().(*types.Signature)
	ex.havocked[fn.FullName()] = true
	if t := ex.decoderTarget; t != "" && ex.decoderFn == fn && mayWriteHeap && !ex.w.IsRepoFunc(fn) {
		ex.decoderTarget = ""
		ex.pointHavoc(p, t)
		mayWriteHeap = false
	}
	if mayWriteHeap && !ex.isObserverPkg(fn) {
		keep := ex.keepPrivate(p)
		if !ex.havocCalleeWrites(p, fn) {
			ex.havocWhy = append(ex.havocWhy, "call to "+shortKey(fn)+" (no contract, body not inlined)")
			ex.havocMutableHeap(p)
		}
		keep()
	}
	var out []Value
	for i := 0; i < sig.Results().Len(); i++ {
		rt := sig.Results().At(i).Type()
		v := Value{ex.c.Fresh("havoc:"+fn.Name(), ex.c.SortOf(rt)), rt}
		p.Assume(ex.c.typeInvariant(v))
		out = append(out, v)
	}
	return out
}

// generatedPlumbing: protoc-gen-go output other than the nil-safe getters (Descriptor, Enum, String, ProtoReflect, ...)
// is library code to the verifier, not code under contract.
func (ex *Exec) generatedPlumbing(fi *FuncInfo) bool {
	if fi.Obj.Pkg() == nil || !strings.HasPrefix(fi.Obj.Pkg().Path(), modPath) || !strings.HasSuffix(ex.w.Fset.Position(fi.Decl.Pos()).Filename, ".pb.go") {
		return false
	}
	return !strings.HasPrefix(fi.Decl.Name.Name, "Get")
}

func (ex *Exec) canInline(full string) bool {
	if len(ex.inlineStack) >= 4 {
		return false
	}
	for _, s := range ex.inlineStack {
		if s == full {
			return false
		}
	}
	if ex.fi != nil && ex.fi.Obj.FullName() == full {
		return false
	}
	return true
}

// tryInline inlines a callee; if its body leaves the accepted subset the path is restored and ok=false.
func (ex *Exec) tryInline(p *Path, fi *FuncInfo, recv *Value, args []Value, pos token.Pos) (vals []Value, ok bool) {
	backup := p.Clone()
	nObl := len(ex.oblOrder)
	oblCounts := map[string]int{}
	for k, o := range ex.obls {
		oblCounts[k] = len(o.Insts)
	}
	stackLen := len(ex.inlineStack)
	guardLen := len(ex.guards)
	loopOrd := ex.loopOrd
	defer func() {
		if r := recover(); r != nil {
			u, isUnsupp := r.(unsupported)
			if !isUnsupp {
				panic(r)
			}
			ex.note("inlining %s failed: %s (%s)", shortKey(fi.Obj), u.msg, ex.w.pos(u.pos))
			*p = *backup
			// drop obligations recorded inside the failed inline
			for _, name := range ex.oblOrder[nObl:] {
				delete(ex.obls, name)
			}
			ex.oblOrder = ex.oblOrder[:nObl]
			for k, n := range oblCounts {
				if o := ex.obls[k]; o != nil && len(o.Insts) > n {
					o.Insts = o.Insts[:n]
				}
			}
			ex.inlineStack = ex.inlineStack[:stackLen]
			ex.guards = ex.guards[:guardLen]
			ex.loopOrd = loopOrd
			vals, ok = nil, false
		}
	}()
	nPC := len(p.pc)
	vals = ex.inlineCall(p, fi, recv, args, pos)
	if ex.quantFacts != nil && len(p.pc) > nPC {
		// inside a quantifier body: what the inlined code assumed may mention bound variables
		extra := append([]string(nil), p.pc[nPC:]...)
		p.pc = p.pc[:nPC]
		*ex.quantFacts = append(*ex.quantFacts, extra...)
	}
	return vals, true
}

func (ex *Exec) inlineCall(p *Path, fi *FuncInfo, recv *Value, args []Value, pos token.Pos) []Value {
	full := fi.Obj.FullName()
	ex.inlined[shortKey(fi.Obj)] = true
	ex.inlineStack = append(ex.inlineStack, full)
	saveInfo, savePkg, saveSig := ex.info, ex.pkg, ex.curFnSig
	saveCM := ex.contractMode
	ex.contractMode = 0
	ex.info, ex.pkg = fi.Pkg.TypesInfo, fi.Pkg.Types
	sig := fi.Obj.Type().(*types.Signature)
	ex.curFnSig = sig
	defer func() {
		ex.info, ex.pkg, ex.curFnSig = saveInfo, savePkg, saveSig
		ex.contractMode = saveCM
		ex.inlineStack = ex.inlineStack[:len(ex.inlineStack)-1]
	}()
	// bind params
	if recv != nil && sig.Recv() != nil {
		p.vars[sig.Recv()] = ex.convert(p, *recv, sig.Recv().Type(), pos)
		if fi.Decl.Recv != nil && len(fi.Decl.Recv.List) > 0 && len(fi.Decl.Recv.List[0].Names) > 0 {
			if o := ex.info.Defs[fi.Decl.Recv.List[0].Names[0]]; o != nil {
				p.vars[o] = p.vars[sig.Recv()]
			}
		}
	}
	for i := 0; i < sig.Params().Len() && i < len(args); i++ {
		p.vars[sig.Params().At(i)] = ex.convert(p, args[i], sig.Params().At(i).Type(), pos)
	}
	for i := 0; i < sig.Results().Len(); i++ {
		r := sig.Results().At(i)
		if r.Name() != "" {
			p.vars[r] = Value{ex.c.Zero(r.Type()), r.Type()}
		}
	}
	outs := ex.execBlock(p, fi.Decl.Body.List)
	// join all return paths back into p (ite-merge of results)
	var rets []outcome
	for _, o := range outs {
		switch o.kind {
		case oReturn:
			rets = append(rets, o)
		case oNormal:
			if sig.Results().Len() == 0 {
				rets = append(rets, o)
			} else {
				ex.unsupp(pos, "inlined function %s falls off the end", full)
			}
		case oPanic:
			// path ends
		default:
			ex.unsupp(pos, "inlined function %s: stray break/continue", full)
		}
	}
	if len(rets) == 0 {
		// all paths panic: the caller's path is dead
		p.Assume("false")
		return ex.zeroResults(sig)
	}
	n := sig.Results().Len()
	merged := rets[0].p
	vals := append([]Value(nil), rets[0].rets...)
	for _, o := range rets[1:] {
		// merge o.p into merged with result ites
		m, newVals := ex.mergeWithRets(merged, vals, o.p, o.rets, n)
		if m == nil {
			ex.unsupp(pos, "cannot merge return paths of inlined %s", full)
		}
		merged, vals = m, newVals
	}
	*p = *merged
	return vals
}

func (ex *Exec) zeroResults(sig *types.Signature) []Value {
	var out []Value
	for i := 0; i < sig.Results().Len(); i++ {
		t := sig.Results().At(i).Type()
		out = append(out, Value{ex.c.Zero(t), t})
	}
	return out
}

func (ex *Exec) mergeWithRets(a *Path, av []Value, b *Path, bv []Value, n int) (*Path, []Value) {
	// stash return values in names so tryMerge handles them
	a2, b2 := a.Clone(), b.Clone()
	for i := 0; i < n; i++ {
		a2.names[fmt.Sprintf("\x00ret%d", i)] = av[i]
		b2.names[fmt.Sprintf("\x00ret%d", i)] = bv[i]
	}
	// events must match for merging; if they do not, give up on merging (caller reports)
	if !sameEvents(a2.events, b2.events) {
		return nil, nil
	}
	m := ex.tryMergeLoose(a2, b2)
	if m == nil {
		return nil, nil
	}
	vals := make([]Value, n)
	for i := 0; i < n; i++ {
		k := fmt.Sprintf("\x00ret%d", i)
		vals[i] = m.names[k]
		delete(m.names, k)
	}
	return m, vals
}

// tryMergeLoose is tryMerge but tolerates heap keys present on one side only by materialising the base array.
func (ex *Exec) tryMergeLoose(a, b *Path) *Path {
	if a.heapGen != b.heapGen {
		// different havoc generations: tryMerge moves both to a common fresh generation
		return ex.tryMerge(a, b)
	}
	for k, t := range a.heap {
		if _, ok := b.heap[k]; !ok {
			b.heap[k] = ex.baseOf(t, k, b)
		}
	}
	for k, t := range b.heap {
		if _, ok := a.heap[k]; !ok {
			a.heap[k] = ex.baseOf(t, k, a)
		}
	}
	return ex.tryMerge(a, b)
}

// baseOf returns the base heap array for key k on path q, given a term t of the same sort from the other side.
func (ex *Exec) baseOf(t, k string, q *Path) string {
	name := "H:" + k
	if ex.isMutableKey(k) && q.heapGen != "" {
		name += "@" + q.heapGen
	}
	qn := quote(name)
	if _, ok := ex.c.funSeen[qn]; ok {
		return qn
	}
	// find the sort from the store chain's innermost array
	inner := t
	for strings.HasPrefix(inner, "(store ") || strings.HasPrefix(inner, "(ite ") {
		if strings.HasPrefix(inner, "(store ") {
			inner = firstArg(inner[len("(store "):])
		} else {
			// (ite c a b) -> a
			rest := inner[len("(ite "):]
			c := firstArg(rest)
			inner = firstArg(strings.TrimSpace(rest[len(c):]))
		}
	}
	if s, ok := ex.c.funSeen[inner]; ok {
		return ex.c.Const(name, s)
	}
	panic(unsupported{"cannot determine heap array sort for " + k, token.NoPos})
}

func firstArg(s string) string {
	s = strings.TrimLeft(s, " ")
	if s == "" {
		return ""
	}
	if s[0] == '(' {
		d := 0
		inStr := false
		inBar := false
		for i := 0; i < len(s); i++ {
			ch := s[i]
			if inStr {
				if ch == '"' {
					inStr = false
				}
				continue
			}
			if inBar {
				if ch == '|' {
					inBar = false
				}
				continue
			}
			switch ch {
			case '"':
				inStr = true
			case '|':
				inBar = true
			case '(':
				d++
			case ')':
				d--
				if d == 0 {
					return s[:i+1]
				}
			}
		}
		return s
	}
	if s[0] == '|' {
		j := strings.IndexByte(s[1:], '|')
		return s[:j+2]
	}
	if s[0] == '"' {
		for i := 1; i < len(s); i++ {
			if s[i] == '"' {
				if i+1 < len(s) && s[i+1] == '"' {
					i++
					continue
				}
				return s[:i+1]
			}
		}
	}
	for i := 0; i < len(s); i++ {
		if s[i] == ' ' || s[i] == ')' {
			return s[:i]
		}
	}
	return s
}

// callValue calls a function value (closure, bound method, parameter of function type).
func (ex *Exec) callValue(p *Path, fv Value, args []Value, call *ast.CallExpr) []Value {
	if cl, ok := ex.closures[fv.T]; ok {
		return ex.inlineClosure(p, cl, args, call.Pos())
	}
	if bm, ok := ex.boundMethods[fv.T]; ok {
		return ex.callFunc(p, bm.fn, &bm.recv, args, call)
	}
	sig, _ := fv.Ty.Underlying().(*types.Signature)
	if sig == nil {
		ex.unsupp(call.Pos(), "call of non-function value %s", fv.Ty)
	}
	// unknown function value: an event plus havocked results
	name := "FUNCVAL"
	if id, ok := unparen(call.Fun).(*ast.Ident); ok {
		name = id.Name
	} else if sel, ok := unparen(call.Fun).(*ast.SelectorExpr); ok {
		name = sel.Sel.Name
	}
	names := []string{name}
	if name == "p" && len(ex.pfEvents) > 0 && len(args) > 0 {
		// emitted text through a printf-style printer: also an event under every substring of its literal format the
		// contract names (count("p:<substring>"), at-call "p:<substring>")
		if f, ok := smtStringLiteral(args[0].T); ok {
			for _, want := range ex.pfEvents {
				if strings.Contains(f, want) {
					names = append(names, "p:"+want)
				}
			}
		}
	}
	if ex.traceEvents {
		for _, n := range names {
			ex.atCallObligations(p, n, args, call.Pos())
		}
	}
	ex.havocMutableHeap(p)
	defer func() {}()
	var out []Value
	defer func() {
		if ex.traceEvents {
			for _, n := range names {
				ex.recordEvent(p, n, args, out, call.Pos())
			}
		}
	}()
	for i := 0; i < sig.Results().Len(); i++ {
		rt := sig.Results().At(i).Type()
		v := Value{ex.c.Fresh("fv:"+name, ex.c.SortOf(rt)), rt}
		p.Assume(ex.c.typeInvariant(v))
		out = append(out, v)
	}
	return out
}

func (ex *Exec) inlineClosure(p *Path, cl *closure, args []Value, pos token.Pos) []Value {
	if len(ex.inlineStack) >= 5 {
		ex.unsupp(pos, "closure inlining too deep")
	}
	ex.inlineStack = append(ex.inlineStack, fmt.Sprintf("closure@%d", cl.lit.Pos()))
	saveInfo, savePkg, saveSig := ex.info, ex.pkg, ex.curFnSig
	ex.info, ex.pkg = cl.info, cl.pkg
	sig := cl.info.TypeOf(cl.lit).(*types.Signature)
	ex.curFnSig = sig
	defer func() {
		ex.info, ex.pkg, ex.curFnSig = saveInfo, savePkg, saveSig
		ex.inlineStack = ex.inlineStack[:len(ex.inlineStack)-1]
	}()
	for i := 0; i < sig.Params().Len() && i < len(args); i++ {
		p.vars[sig.Params().At(i)] = args[i]
	}
	outs := ex.execBlock(p, cl.lit.Body.List)
	var rets []outcome
	for _, o := range outs {
		if o.kind == oReturn || o.kind == oNormal {
			rets = append(rets, o)
		}
	}
	if len(rets) == 0 {
		p.Assume("false")
		return ex.zeroResults(sig)
	}
	n := sig.Results().Len()
	merged := rets[0].p
	vals := append([]Value(nil), rets[0].rets...)
	for len(vals) < n {
		vals = append(vals, Value{ex.c.Zero(sig.Results().At(len(vals)).Type()), sig.Results().At(len(vals)).Type()})
	}
	for _, o := range rets[1:] {
		m, nv := ex.mergeWithRets(merged, vals, o.p, o.rets, n)
		if m == nil {
			ex.unsupp(pos, "cannot merge closure return paths")
		}
		merged, vals = m, nv
	}
	*p = *merged
	return vals
}

// ---------------------------------------------------------------------------------------
// contracts at call sites

func (ex *Exec) bindContractNames(q *Path, c *Contract, sig *types.Signature, recv *Value, args []Value) {
	if recv != nil && c.RecvName != "" {
		q.names[c.RecvName] = *recv
		q.entry[c.RecvName] = *recv
	}
	for i, n := range c.ParamNames {
		if i < len(args) && n != "_" {
			q.names[n] = args[i]
		}
	}
}

// pureSym returns the function symbol for result i of a pure contracted function.
func (ex *Exec) pureSym(c *Contract, sig *types.Signature, i int, recv *Value, args []Value) string {
	var sorts []string
	if recv != nil {
		sorts = append(sorts, ex.c.SortOf(recv.Ty))
	}
	for _, a := range args {
		sorts = append(sorts, ex.c.SortOf(a.Ty))
	}
	name := "fn:" + c.Key
	if sig.Results().Len() > 1 {
		name += fmt.Sprintf("#%d", i)
	}
	return ex.c.Fun(name, sorts, ex.c.SortOf(sig.Results().At(i).Type()))
}

func (ex *Exec) applyContract(p *Path, c *Contract, fn *types.Func, recv *Value, args []Value, pos token.Pos) []Value {
	sig := fn.Type().(*types.Signature)
	ex.usedContract[c.Key] = true
	// evaluate clauses in a scratch name scope
	saveNames := p.names
	saveEntry := p.entry
	p.names = map[string]Value{}
	p.entry = map[string]Value{}
	for k, v := range saveNames {
		if strings.HasPrefix(k, "sub__") {
			p.names[k] = v
		}
	}
	ex.bindContractNames(p, c, sig, recv, args)
	savePkg := ex.pkg
	if fn.Pkg() != nil {
		ex.pkg = fn.Pkg()
	}
	ex.contractMode++
	asObl := ex.oblCalls
	ex.oblCalls = false
	defer func() {
		ex.contractMode--
		ex.oblCalls = asObl
		ex.pkg = savePkg
		p.names = saveNames
		p.entry = saveEntry
	}()
	// recursion: termination measure
	if ex.fi != nil && ex.contract != nil && c.Decreases != nil &&
		(shortKey(ex.fi.Obj) == c.Key || ex.mutualGroup[c.Key]) && ex.contract.Decreases != nil {
		callee := ex.evalClause(p, c.Decreases.E, false)
		// caller's measure at entry
		saved := p.names
		p.names = map[string]Value{}
		for k, v := range saveEntry {
			p.names[k] = v
		}
		saveInOld := p.inOld
		p.inOld = true // ... in the heap at entry
		caller := ex.evalClause(p, ex.contract.Decreases.E, false)
		p.inOld = saveInOld
		p.names = saved
		ex.addObl(p, fmt.Sprintf("%s#decreases@%s", ex.funcKey, ex.siteLabel(pos)), "decreases", c.Decreases.Text,
			"(and (>= "+callee+" 0) (< "+callee+" "+caller+"))", pos, "recursive call to "+c.Key)
	}
	// preconditions
	for i, r := range c.Requires {
		g := ex.evalClause(p, r.E, false)
		if ex.quantFacts != nil || !asObl {
			// inside a specification expression: the fact is conditional on the precondition
			ex.guards = append(ex.guards, g)
			defer func() { ex.guards = ex.guards[:len(ex.guards)-1] }()
			continue
		}
		nm := r.Name
		if nm == "" {
			nm = fmt.Sprint(i)
		}
		ex.addObl(p, fmt.Sprintf("%s#call:%s.requires[%s]@%s", ex.funcKey, c.Key, nm, ex.siteLabel(pos)), "requires", r.Text, g, pos, "")
	}
	// entry values of the parameters (for old())
	for i, n := range c.ParamNames {
		if i < len(args) && n != "_" {
			p.entry[n] = args[i]
		}
	}
	type mapResult struct {
		name string
		val  Value
	}
	var mapResults []mapResult
	// pre-state for old()
	oldHeap := map[string]string{}
	for k, v := range p.heap {
		oldHeap[k] = v
	}
	oldGen := p.heapGen
	// effects
	if ex.traceEvents && c.Emitted {
		f2 := fn
		if fn.Origin() != nil {
			f2 = fn.Origin()
		}
		if fi := ex.w.Funcs[f2.FullName()]; fi != nil && fi.Decl.Body != nil {
			ex.havocEventsOf(p, fi)
		}
	}
	// the events the callee's own contract talks about happen inside the call: their ghost cells are unknown afterwards
	// (whether or not the caller itself counts events: the callee's postcondition is stated over them)
	ex.havocNamedEvents(p, contractEventNames(c))
	for _, m := range c.Modifies {
		if m == "*" {
			keep := ex.keepPrivate(p)
			if ex.havocCalleeWrites(p, fn) {
				keep()
				continue
			}
			ex.havocWhy = append(ex.havocWhy, "call to "+c.Key+" (modifies *)")
			ex.havocMutableHeap(p)
			keep()
			continue
		}
		field := ""
		if i := strings.Index(m, "."); i >= 0 {
			m, field = m[:i], m[i+1:]
		}
		mv, ok := p.names[m]
		if !ok {
			ex.unsupp(pos, "contract %s: modifies %s: unknown name", c.Key, m)
		}
		if _, isMap := mv.Ty.Underlying().(*types.Map); isMap && field == "" {
			// maps are references: the callee's writes are visible through the caller's variable (value-result)
			fresh := Value{ex.c.Fresh("mapres:"+m, ex.c.SortOf(mv.Ty)), mv.Ty}
			p.names[m] = fresh
			mapResults = append(mapResults, mapResult{name: m, val: fresh})
			continue
		}
		if field != "" {
			ex.havocField(p, mv, field, pos)
		} else {
			ex.havocObject(p, mv, pos)
		}
	}
	// the callee may allocate
	nowBefore := p.now
	if !c.Pure && ex.quantFacts == nil {
		ex.advanceClock(p)
	}
	// results
	var results []Value
	for i := 0; i < sig.Results().Len(); i++ {
		rt := sig.Results().At(i).Type()
		var v Value
		if c.Pure {
			f := ex.pureSym(c, sig, i, recv, args)
			var terms []string
			if recv != nil {
				terms = append(terms, recv.T)
			}
			for _, a := range args {
				terms = append(terms, a.T)
			}
			v = Value{app(f, terms...), rt}
		} else {
			v = Value{ex.c.Fresh("r:"+fn.Name(), ex.c.SortOf(rt)), rt}
		}
		ex.assumeFact(p, ex.c.typeInvariant(v))
		if ex.c.SortOf(rt) == "Ref" && !c.Pure {
			ex.bornBefore(p, v.T)
		}
		// freshly allocated result objects
		if ptr, ok := rt.Underlying().(*types.Pointer); ok && !c.Existing {
			if named, ok := types.Unalias(ptr.Elem()).(*types.Named); ok {
				if _, isStruct := named.Underlying().(*types.Struct); isStruct && ex.isMutableKey(ex.heapKey(named, "x")) {
					ex.havocObject(p, v, pos)
					if ex.quantFacts == nil && ex.contractMode == 1 {
						// a result object the contract does not declare `existing` was allocated by the call
						p.Assume("(or (= " + v.T + " null) (>= (" + ex.birthFun() + " " + v.T + ") " + nowBefore + "))")
					}
					if !c.Pure && ex.quantFacts == nil {
						for _, a := range p.allocs {
							p.Assume("(not (= " + v.T + " " + a + "))")
						}
						if c.Fresh {
							p.allocs = append(p.allocs, v.T)
						}
					}
				}
			}
		}
		results = append(results, v)
		if i < len(c.ResultNames) {
			p.names[c.ResultNames[i]] = v
		}
	}
	if len(results) == 1 {
		p.names["result"] = results[0]
	}
	saveOld, saveOldGen := p.oldHeap, p.oldGen
	p.oldHeap, p.oldGen = oldHeap, oldGen
	for _, l := range c.Lets {
		t := ex.evalClauseValue(p, l.E)
		p.names[l.Name] = t
	}
	if !(c.Pure && ex.contract != nil && ex.contract.Opaque[c.Key]) {
		for _, e := range c.Ensures {
			ex.assumeFact(p, ex.evalClause(p, e.E, true))
		}
	}
	p.oldHeap, p.oldGen = saveOld, saveOldGen
	// write the callee's final maps back into the caller's variables
	for _, mr := range mapResults {
		idx := -1
		for i, n := range c.ParamNames {
			if n == mr.name {
				idx = i
			}
		}
		if ex.curCall == nil || idx < 0 || idx >= len(ex.curCall.Args) || ex.inContract() && ex.contractMode > 1 {
			continue
		}
		if id, ok := ex.curCall.Args[idx].(*ast.Ident); ok {
			saveCM := ex.contractMode
			ex.contractMode = 0
			func() {
				defer func() { ex.contractMode = saveCM }()
				if obj := ex.info.Uses[id]; obj != nil {
					p.vars[obj] = mr.val
				}
			}()
		} else if _, isLit := ast.Unparen(ex.curCall.Args[idx]).(*ast.CompositeLit); isLit {
			// a map literal passed directly: nothing else refers to it after the call
		} else {
			ex.unsupp(pos, "contract %s: map argument %s must be a variable (reference semantics)", c.Key, mr.name)
		}
	}
	return results
}

// havocObject forgets the fields of the object a pointer value refers to.
func (ex *Exec) havocObject(p *Path, v Value, pos token.Pos) {
	ptr, ok := v.Ty.Underlying().(*types.Pointer)
	if !ok {
		ex.unsupp(pos, "modifies on non-pointer %s", v.Ty)
	}
	named, ok := types.Unalias(ptr.Elem()).(*types.Named)
	if !ok {
		et := ptr.Elem()
		ex.heapWrite(p, "deref:"+sortToken(ex.c.SortOf(et)), et, v.T, ex.c.Fresh("hv", ex.c.SortOf(et)))
		return
	}
	st, ok := named.Underlying().(*types.Struct)
	if !ok {
		return
	}
	for i := 0; i < st.NumFields(); i++ {
		f := st.Field(i)
		fv := Value{ex.c.Fresh("hv:"+f.Name(), ex.c.SortOf(f.Type())), f.Type()}
		ex.heapWrite(p, ex.heapKey(named, f.Name()), f.Type(), v.T, fv.T)
		ex.assumeFact(p, ex.c.typeInvariant(Value{"(select " + ex.heapArr(p, ex.heapKey(named, f.Name()), ex.c.SortOf(f.Type())) + " " + v.T + ")", f.Type()}))
	}
}

// writesThroughParams: does the function assign through a pointer parameter (e.g. *contexts = append(...))?
func (ex *Exec) writesThroughParams(fi *FuncInfo) bool {
	found := false
	ast.Inspect(fi.Decl.Body, func(n ast.Node) bool {
		if as, ok := n.(*ast.AssignStmt); ok {
			for _, l := range as.Lhs {
				switch l.(type) {
				case *ast.StarExpr:
					found = true
				}
			}
		}
		return true
	})
	return found
}

// havocField forgets one field of the object a pointer value refers to.
func (ex *Exec) havocField(p *Path, v Value, field string, pos token.Pos) {
	ptr, ok := v.Ty.Underlying().(*types.Pointer)
	if !ok {
		ex.unsupp(pos, "modifies on non-pointer %s", v.Ty)
	}
	named, ok := types.Unalias(ptr.Elem()).(*types.Named)
	if !ok {
		ex.unsupp(pos, "modifies field of unnamed type")
	}
	st, ok := named.Underlying().(*types.Struct)
	if !ok {
		ex.unsupp(pos, "modifies field of non-struct")
	}
	for i := 0; i < st.NumFields(); i++ {
		f := st.Field(i)
		if f.Name() != field {
			continue
		}
		fv := ex.c.Fresh("hv:"+f.Name(), ex.c.SortOf(f.Type()))
		ex.heapWrite(p, ex.heapKey(named, f.Name()), f.Type(), v.T, fv)
		ex.assumeFact(p, ex.c.typeInvariant(Value{fv, f.Type()}))
		return
	}
	ex.unsupp(pos, "modifies: no field %s", field)
}

// havocCalleeWrites forgets exactly the heap cells a repository function of the generator packages may write
// according to the static write summary of its call tree (modref.go). It returns false when no such summary
// exists (emitted code, unresolved calls): the caller then forgets the whole mutable heap.
func (ex *Exec) havocCalleeWrites(p *Path, fn *types.Func) bool {
	if fn == nil || !ex.w.IsRepoFunc(fn) || ex.emittedPkg(fn) {
		return false
	}
	f := fn
	if f.Origin() != nil {
		f = f.Origin()
	}
	keys, derefs, globals, ok, why := ex.w.WriteSetOf(f.FullName())
	if !ok {
		ex.havocWhy = append(ex.havocWhy, "write set of "+shortKey(fn)+" is not static: "+why)
		return false
	}
	fresh := func(k string, t types.Type) {
		if !ex.isMutableKey(k) {
			return
		}
		p.heap[k] = ex.c.Fresh("H:"+k, "(Array Ref "+ex.c.SortOf(t)+")")
	}
	var ks []string
	for k := range keys {
		ks = append(ks, k)
	}
	sort.Strings(ks)
	for _, k := range ks {
		fresh("~"+k, keys[k])
	}
	for _, t := range derefs {
		fresh("deref:"+sortToken(ex.c.SortOf(t)), t)
	}
	for _, v := range globals {
		fresh("global:"+v.Pkg().Name()+"."+v.Name(), v.Type())
	}
	ex.c.Trust("static write sets (modref): a call of a generator function changes only cells its call tree assigns, plus fields of types that escape to reflection-based library code")
	return true
}
