package main

// C19 replay family: rules vs emitted JSON-Schema keywords, decided by an independent JSON-Schema validator
// (python jsonschema, Draft 2020-12) on probe values around every bound.

import (
	"encoding/json"
	"fmt"
	"math"
	"path/filepath"
	"sort"
	"strings"
)

type c19Case struct {
	ID     string
	Kind   string         // proto scalar kind
	Rules  map[string]any // protojson of buf.validate.FieldRules
	Opts   map[string]any // extra field options
	Probes []float64      // numeric probes (ints are integral floats)
	SProbe []string       // string probes
	Sat    func(v float64, s string) bool
	Class  string // witness class for known findings
}

func numProbes(bounds ...float64) []float64 {
	set := map[float64]bool{}
	for _, b := range bounds {
		for _, d := range []float64{-1, 0, 1} {
			set[b+d] = true
		}
	}
	var out []float64
	for v := range set {
		out = append(out, v)
	}
	sort.Float64s(out)
	return out
}

func c19Cases() []c19Case {
	var cases []c19Case
	type numKind struct{ kind, rules, class string }
	for _, k := range []numKind{{"int32", "int32", "int32"}, {"sint32", "sint32", "kind:sint32"}, {"sfixed32", "sfixed32", "kind:sfixed32"}, {"uint32", "uint32", "kind:uint32"}, {"fixed32", "fixed32", "kind:fixed32"},
		{"float", "float", "float"}, {"double", "double", "double"}} {
		k := k
		cases = append(cases,
			c19Case{ID: k.kind + ".gte_lte", Kind: k.kind, Rules: M{k.rules: M{"gte": 2, "lte": 10}}, Probes: numProbes(2, 10), Sat: func(v float64, _ string) bool { return v >= 2 && v <= 10 }, Class: k.class},
			c19Case{ID: k.kind + ".gt_lt", Kind: k.kind, Rules: M{k.rules: M{"gt": 2, "lt": 10}}, Probes: numProbes(2, 10), Sat: func(v float64, _ string) bool { return v > 2 && v < 10 }, Class: k.class + ":exclusive"},
			c19Case{ID: k.kind + ".const", Kind: k.kind, Rules: M{k.rules: M{"const": 7}}, Probes: numProbes(7), Sat: func(v float64, _ string) bool { return v == 7 }, Class: k.class},
			c19Case{ID: k.kind + ".in", Kind: k.kind, Rules: M{k.rules: M{"in": []any{3, 5}}}, Probes: numProbes(3, 5), Sat: func(v float64, _ string) bool { return v == 3 || v == 5 }, Class: k.class},
		)
	}
	// 64-bit kinds: JSON strings by default, numbers with int64_encoding = NUMBER
	for _, k := range []numKind{{"int64", "int64", "int64"}, {"uint64", "uint64", "kind:uint64"}, {"sint64", "sint64", "kind:sint64"}, {"fixed64", "fixed64", "kind:fixed64"}, {"sfixed64", "sfixed64", "kind:sfixed64"}} {
		k := k
		cases = append(cases,
			c19Case{ID: k.kind + ".gte_lte[string-encoded]", Kind: k.kind, Rules: M{k.rules: M{"gte": "2", "lte": "10"}}, Probes: numProbes(2, 10), Sat: func(v float64, _ string) bool { return v >= 2 && v <= 10 }, Class: k.class + ":string-encoded"},
			c19Case{ID: k.kind + ".gte_lte[number-encoded]", Kind: k.kind, Rules: M{k.rules: M{"gte": "2", "lte": "10"}}, Opts: M{"[sebuf.http.int64_encoding]": "INT64_ENCODING_NUMBER"}, Probes: numProbes(2, 10), Sat: func(v float64, _ string) bool { return v >= 2 && v <= 10 }, Class: k.class + ":number-encoded"},
			c19Case{ID: k.kind + ".gt_lt[number-encoded]", Kind: k.kind, Rules: M{k.rules: M{"gt": "2", "lt": "10"}}, Opts: M{"[sebuf.http.int64_encoding]": "INT64_ENCODING_NUMBER"}, Probes: numProbes(2, 10), Sat: func(v float64, _ string) bool { return v > 2 && v < 10 }, Class: k.class + ":number-encoded:exclusive"},
		)
	}
	// double const/in with many significant digits
	cases = append(cases,
		c19Case{ID: "double.const.precise", Kind: "double", Rules: M{"double": M{"const": 3.141592653589793}}, Probes: []float64{3.141592653589793, 3.1415927, 3}, Sat: func(v float64, _ string) bool { return v == 3.141592653589793 }, Class: "double"},
		c19Case{ID: "double.in.large", Kind: "double", Rules: M{"double": M{"in": []any{16777217.0, 0.5}}}, Probes: []float64{16777217, 16777216, 0.5}, Sat: func(v float64, _ string) bool { return v == 16777217 || v == 0.5 }, Class: "double"},
		c19Case{ID: "float.const.half", Kind: "float", Rules: M{"float": M{"const": 0.5}}, Probes: []float64{0.5, 0.25}, Sat: func(v float64, _ string) bool { return v == 0.5 }, Class: "float"},
	)
	// strings
	strs := []string{"", "a", "ab", "abc", "abcd", "abcde", "123", "true", "x"}
	cases = append(cases,
		c19Case{ID: "string.max_len_zero", Kind: "string", Rules: M{"string": M{"max_len": "0"}}, SProbe: []string{"", "a", "ab"}, Sat: func(_ float64, s string) bool { return len(s) == 0 }, Class: "zero-size-bound"},
		c19Case{ID: "string.len", Kind: "string", Rules: M{"string": M{"min_len": "2", "max_len": "4"}}, SProbe: strs, Sat: func(_ float64, s string) bool { return len(s) >= 2 && len(s) <= 4 }, Class: "string"},
		c19Case{ID: "string.const", Kind: "string", Rules: M{"string": M{"const": "abc"}}, SProbe: strs, Sat: func(_ float64, s string) bool { return s == "abc" }, Class: "string"},
		c19Case{ID: "string.in", Kind: "string", Rules: M{"string": M{"in": []any{"ab", "x"}}}, SProbe: strs, Sat: func(_ float64, s string) bool { return s == "ab" || s == "x" }, Class: "string"},
		c19Case{ID: "string.const[numeric-looking]", Kind: "string", Rules: M{"string": M{"const": "123"}}, SProbe: strs, Sat: func(_ float64, s string) bool { return s == "123" }, Class: "string:untagged-scalar"},
		c19Case{ID: "string.in[boolean-looking]", Kind: "string", Rules: M{"string": M{"in": []any{"true", "x"}}}, SProbe: strs, Sat: func(_ float64, s string) bool { return s == "true" || s == "x" }, Class: "string:untagged-scalar"},
	)
	return cases
}

type c19Deviation struct {
	Case   string `json:"case"`
	Class  string `json:"class"`
	What   string `json:"what"`
	Schema string `json:"schema"`
}

func jsonFormOf(kind string, numberEncoded bool, v float64) any {
	switch kind {
	case "int64", "uint64", "sint64", "fixed64", "sfixed64":
		if !numberEncoded {
			return fmt.Sprintf("%d", int64(v))
		}
		return int64(v)
	case "float", "double":
		return v
	}
	return int64(v)
}

func runC19Family() (n int, devs []c19Deviation, err error) {
	t, err := GetTools()
	if err != nil {
		return 0, nil, err
	}
	type pyCase struct {
		ID        string `json:"id"`
		Schema    any    `json:"schema"`
		Instances []any  `json:"instances"`
	}
	var py []pyCase
	cases := c19Cases()
	schemas := map[string]string{}
	for _, c := range cases {
		f := protoFile("t/v1/t.proto", "t.v1", "example.com/t/v1;tv1")
		fld := field("x", c.Kind)
		withOpt(fld, "buf.validate.field", c.Rules)
		for k, v := range c.Opts {
			fld["options"].(M)[k] = v
		}
		addMessage(f, message("W", fld))
		addMessage(f, message("Req"))
		addService(f, service("Svc", method("Do", ".t.v1.Req", ".t.v1.W")))
		s := &Schema{Files: []map[string]any{f}, Parameter: "format=json"}
		req, rerr := t.MakeRequest(s)
		if rerr != nil {
			devs = append(devs, c19Deviation{Case: c.ID, Class: "family", What: "schema rejected by protodesc: " + firstLines(rerr.Error(), 2)})
			continue
		}
		o, perr := t.RunPlugin("protoc-gen-openapiv3", req)
		if perr != nil {
			return n, devs, perr
		}
		if o.Error != "" || o.Crash != "" || len(o.Files) == 0 {
			devs = append(devs, c19Deviation{Case: c.ID, Class: c.Class, What: "openapi plugin failed: " + o.Error + o.Crash})
			continue
		}
		var doc map[string]any
		if jerr := json.Unmarshal([]byte(o.Files[0].Content), &doc); jerr != nil {
			devs = append(devs, c19Deviation{Case: c.ID, Class: c.Class, What: "emitted JSON does not parse: " + jerr.Error()})
			continue
		}
		prop := dig(doc, "components", "schemas", "W", "properties", "x")
		if prop == nil {
			devs = append(devs, c19Deviation{Case: c.ID, Class: c.Class, What: "no property schema for field x"})
			continue
		}
		pb, _ := json.Marshal(prop)
		schemas[c.ID] = string(pb)
		pc := pyCase{ID: c.ID, Schema: prop}
		numberEnc := c.Opts != nil
		for _, v := range c.Probes {
			pc.Instances = append(pc.Instances, jsonFormOf(c.Kind, numberEnc, v))
		}
		for _, sv := range c.SProbe {
			pc.Instances = append(pc.Instances, sv)
		}
		py = append(py, pc)
	}
	in, _ := json.Marshal(map[string]any{"cases": py})
	out, perr := runCmd(verifDir(), in, "python3-vt", filepath.Join(verifDir(), "harness", "py", "schemasat.py"))
	if perr != nil {
		return n, devs, fmt.Errorf("python jsonschema: %v", perr)
	}
	var res []struct {
		ID          string  `json:"id"`
		SchemaError *string `json:"schema_error"`
		Accepts     []*bool `json:"accepts"`
	}
	if jerr := json.Unmarshal(out, &res); jerr != nil {
		return n, devs, jerr
	}
	byID := map[string]c19Case{}
	for _, c := range cases {
		byID[c.ID] = c
	}
	for _, r := range res {
		c := byID[r.ID]
		if r.SchemaError != nil {
			devs = append(devs, c19Deviation{Case: c.ID, Class: c.Class, What: "emitted schema is not valid JSON Schema 2020-12: " + *r.SchemaError, Schema: schemas[c.ID]})
		}
		var bad []string
		i := 0
		for _, v := range c.Probes {
			n++
			want := c.Sat(v, "")
			if r.Accepts[i] != nil && *r.Accepts[i] != want {
				bad = append(bad, fmt.Sprintf("value %v: rule says %v, schema says %v", trimFloat(v), want, *r.Accepts[i]))
			}
			i++
		}
		for _, sv := range c.SProbe {
			n++
			want := c.Sat(0, sv)
			if r.Accepts[i] != nil && *r.Accepts[i] != want {
				bad = append(bad, fmt.Sprintf("value %q: rule says %v, schema says %v", sv, want, *r.Accepts[i]))
			}
			i++
		}
		if len(bad) > 0 {
			devs = append(devs, c19Deviation{Case: c.ID, Class: c.Class, What: strings.Join(bad, "; "), Schema: schemas[c.ID]})
		}
	}
	sort.Slice(devs, func(i, j int) bool { return devs[i].Case+devs[i].What < devs[j].Case+devs[j].What })
	return n, devs, nil
}

func trimFloat(v float64) string {
	if v == math.Trunc(v) && math.Abs(v) < 1e15 {
		return fmt.Sprintf("%d", int64(v))
	}
	return fmt.Sprintf("%g", v)
}

func dig(m map[string]any, path ...string) any {
	var cur any = m
	for _, k := range path {
		mm, ok := cur.(map[string]any)
		if !ok {
			return nil
		}
		cur = mm[k]
	}
	return cur
}

func init() {
	replayers["c19-family"] = func(w *World, v violation) map[string]any {
		n, devs, err := runC19Family()
		res := map[string]any{"probes": n}
		if err != nil {
			res["confirmed"] = false
			res["reason"] = err.Error()
			return res
		}
		kf, _ := loadKnownFindings()
		known := map[string]bool{}
		for _, k := range kf {
			if k.Property == "C19" && k.Status == "known" && k.FamilyClass != "" {
				for _, c := range strings.Split(k.FamilyClass, ",") {
					known[strings.TrimSpace(c)] = true
				}
			}
		}
		var fresh []c19Deviation
		for _, d := range devs {
			if !known[d.Class] {
				fresh = append(fresh, d)
			}
		}
		res["deviations_not_listed_as_known"] = fresh
		res["confirmed"] = len(fresh) > 0
		if len(fresh) == 0 {
			res["reason"] = "on every member of the rule family the emitted schema accepts exactly the probe values the rules accept (apart from classes already recorded as known findings)"
		}
		return res
	}
	boundedChecks["c19-family"] = func(w *World, seed int64) map[string]any {
		n, devs, err := runC19Family()
		out := map[string]any{"name": "c19-family", "bounded": true, "bound": "rule kinds x field kinds of c19Cases(), probe values at and around every bound, judged by python jsonschema Draft 2020-12", "probes": n}
		if err != nil {
			out["status"] = "error: " + err.Error()
			return out
		}
		out["deviations"] = devs
		by := map[string][]c19Deviation{}
		for _, d := range devs {
			by[d.Class] = append(by[d.Class], d)
		}
		var ks []string
		for k := range by {
			ks = append(ks, k)
		}
		sort.Strings(ks)
		var fl []map[string]any
		for _, k := range ks {
			var cs []string
			for _, d := range by[k] {
				cs = append(cs, d.Case)
			}
			fl = append(fl, map[string]any{"name": "C19.family." + k, "case": strings.Join(cs, ", "), "observed": by[k][0].What + " | " + by[k][0].Schema, "parameter": ""})
		}
		out["failures"] = fl
		out["status"] = "ran"
		return out
	}
	debugCmds["c19family"] = func(args []string) int {
		n, devs, err := runC19Family()
		fmt.Println("probes:", n, "err:", err)
		for _, d := range devs {
			fmt.Printf("%-34s %-32s %s\n      %s\n", d.Case, d.Class, d.What, d.Schema)
		}
		return 0
	}
}
