package main

// S2: event-trace obligations on the emitted runtime. Calls with observable effect are events; each
// event updates ghost cells (count, nil-ness of the first result, arguments) that contracts can read with
// count("f"), lastNil("f"), lastArg("f", i), and constrain with `at-call f requires <expr>` clauses.

import (
	"go/constant"
	"os"
	"sort"
	"regexp"
	"fmt"
	"go/ast"
	"go/token"
	"go/types"
	"strings"

	"golang.org/x/tools/go/packages"
)

func ghostKey(kind, name string) string { return "ghost:" + kind + ":" + name }

var stableGhostKinds = map[string]string{"cnt": "Int", "at": "Int", "seq": "Int", "nil": "Bool", "errnil": "Bool"}

func (ex *Exec) ghostRead(p *Path, kind, name, sort string) string {
	key := ghostKey(kind, name)
	heap := p.heap
	if p.inOld && p.oldHeap != nil {
		heap = p.oldHeap
	}
	if _, ok := heap[key]; !ok && !p.inOld {
		if _, stable := stableGhostKinds[kind]; !stable {
			// argument/result cells have no meaning before the event was recorded on this path
			p.heap[key] = ex.c.Fresh("H:"+key, "(Array Ref "+sort+")")
		}
	}
	arr := ex.heapArr(p, key, sort)
	if rec, ok := ex.ghostTerms[arr]; ok {
		// the cell was last written by ghostWrite: read the written value instead of selecting from the store term
		// (select-of-store chains otherwise double with every event)
		return rec.val
	}
	return "(select " + arr + " null)"
}

func (ex *Exec) ghostWrite(p *Path, kind, name, sort, val string) {
	key := ghostKey(kind, name)
	if _, ok := p.heap[key]; !ok {
		if _, stable := stableGhostKinds[kind]; !stable {
			p.heap[key] = ex.c.Fresh("H:"+key, "(Array Ref "+sort+")")
		}
	}
	// ghost cells live at the single address null: a store overrides every earlier store, so the new term is built on the
	// base array, not on the previous store
	base := ex.heapArr(p, key, sort)
	if rec, ok := ex.ghostTerms[base]; ok {
		base = rec.base
	}
	nt := "(store " + base + " null " + val + ")"
	if ex.ghostTerms == nil {
		ex.ghostTerms = map[string]ghostRec{}
	}
	ex.ghostTerms[nt] = ghostRec{base: base, val: val}
	p.heap[key] = nt
}

type ghostRec struct{ base, val string }

// havocGhostBody forgets the ghost cells of the events a loop body may raise.
func (ex *Exec) havocGhostBody(p *Path, body ast.Node) {
	evs := map[string]bool{}
	tmp := &FuncInfo{Obj: ex.fi.Obj, Decl: &ast.FuncDecl{Body: &ast.BlockStmt{List: []ast.Stmt{&ast.ExprStmt{X: &ast.FuncLit{Type: &ast.FuncType{}, Body: bodyBlock(body)}}}}}, Pkg: ex.curPkgInfo()}
	ex.reachableEvents(tmp, map[string]bool{}, evs)
	if os.Getenv("GOVC_DEBUG_LOOPS") != "" {
		fmt.Fprintln(os.Stderr, "LOOP-EVENTS", ex.funcKey, evs)
	}
	if len(evs) == 0 {
		return
	}
	evs["*"] = true
	for name := range evs {
		for kind, sort := range stableGhostKinds {
			if (kind == "seq") != (name == "*") {
				continue
			}
			key := ghostKey(kind, name)
			var before string
			if kind == "seq" || kind == "cnt" {
				before = ex.ghostRead(p, kind, name, sort)
			}
			p.heap[key] = ex.c.Fresh("H:"+key, "(Array Ref "+sort+")")
			if before != "" {
				// sequence numbers and counters never decrease
				p.Assume("(>= (select " + p.heap[key] + " null) " + before + ")")
			}
		}
	}
	for k := range p.heap {
		if !strings.HasPrefix(k, "ghost:") {
			continue
		}
		parts := strings.SplitN(k, ":", 3)
		if len(parts) == 3 && evs[parts[2]] {
			if _, stable := stableGhostKinds[parts[1]]; stable {
				continue
			}
			if sortOf := ex.sortOfHeapTerm(p.heap[k]); sortOf != "" {
				p.heap[k] = ex.c.Fresh("H:"+k, sortOf)
			} else {
				delete(p.heap, k)
			}
		}
	}
}

func bodyBlock(n ast.Node) *ast.BlockStmt {
	if b, ok := n.(*ast.BlockStmt); ok {
		return b
	}
	if s, ok := n.(ast.Stmt); ok {
		return &ast.BlockStmt{List: []ast.Stmt{s}}
	}
	return &ast.BlockStmt{}
}

// curPkgInfo returns a package wrapper for the types.Info currently in use.
func (ex *Exec) curPkgInfo() *packages.Package {
	for _, p := range ex.w.ByPath {
		if p.TypesInfo == ex.info {
			return p
		}
	}
	return ex.fi.Pkg
}

// havocGhost forgets all ghost cells.
func (ex *Exec) havocGhost(p *Path) {
	for k := range p.heap {
		if strings.HasPrefix(k, "ghost:") {
			ex.c.fresh++
			// re-point the cell at a fresh array of the same sort
			sortOf := ex.c.funSeen[quote("H:"+k)]
			if sortOf == "" {
				sortOf = ex.sortOfHeapTerm(p.heap[k])
			}
			if sortOf == "" {
				panic(unsupported{"cannot havoc ghost cell " + k, token.NoPos})
			}
			p.heap[k] = ex.c.Fresh("H:"+k, sortOf)
		}
	}
	p.ghostGen++
}

func (ex *Exec) sortOfHeapTerm(t string) string {
	inner := t
	for strings.HasPrefix(inner, "(store ") || strings.HasPrefix(inner, "(ite ") {
		if strings.HasPrefix(inner, "(store ") {
			inner = firstArg(inner[len("(store "):])
		} else {
			rest := inner[len("(ite "):]
			c := firstArg(rest)
			inner = firstArg(strings.TrimSpace(rest[len(c):]))
		}
	}
	return ex.c.funSeen[inner]
}

// recordEvent updates the ghost cells of an event after the call was evaluated.
func (ex *Exec) recordEvent(p *Path, name string, args []Value, results []Value, pos token.Pos) {
	if !ex.traceEvents {
		return
	}
	cnt := ex.ghostRead(p, "cnt", name, "Int")
	ex.ghostWrite(p, "cnt", name, "Int", "(+ "+cnt+" 1)")
	// global sequence number: lets contracts order events
	seq := ex.ghostRead(p, "seq", "*", "Int")
	ex.ghostWrite(p, "seq", "*", "Int", "(+ "+seq+" 1)")
	ex.ghostWrite(p, "at", name, "Int", "(+ "+seq+" 1)")
	if len(results) > 0 {
		ex.ghostWrite(p, "ret", name, ex.c.SortOf(results[0].Ty), results[0].T)
		r := results[0]
		switch ex.c.SortOf(r.Ty) {
		case "Ref", "Iface":
			ex.ghostWrite(p, "nil", name, "Bool", ex.isNilTerm(r))
		}
		if len(results) > 1 {
			last := results[len(results)-1]
			if s := ex.c.SortOf(last.Ty); s == "Iface" || s == "Ref" {
				ex.ghostWrite(p, "errnil", name, "Bool", ex.isNilTerm(last))
				ex.ghostWrite(p, "err", name, s, last.T)
			}
		} else if s := ex.c.SortOf(r.Ty); s == "Iface" || s == "Ref" {
			ex.ghostWrite(p, "errnil", name, "Bool", ex.isNilTerm(r))
			ex.ghostWrite(p, "err", name, s, r.T)
		}
	}
	for i, a := range args {
		if a.Ty == nil {
			continue
		}
		ex.ghostWrite(p, fmt.Sprintf("arg%d", i), name, ex.c.SortOf(a.Ty), a.T)
	}
	p.events = append(p.events, Event{Name: name, Pos: pos})
}

// atCallObligations checks the `at-call <name> requires` clauses of the contract under verification.
func (ex *Exec) atCallObligations(p *Path, name string, args []Value, pos token.Pos) {
	if ex.contract == nil || len(ex.inlineStack) > 0 && !ex.inClosureOfUnit() {
		return
	}
	variadic := append([]Value(nil), ex.lastVariadic...)
	for i, ac := range ex.contract.AtCall {
		if ac.Callee != name {
			continue
		}
		saved := map[string]*Value{}
		if strings.Contains(ac.Clause.Text, "line") {
			// `line`: the text a printer call emits - P(a, b, ...) prints the %v renderings of its arguments one after the
			// other; a printf-style printer p(format, a, ...) prints the formatted text
			if lv, ok := ex.printedLine(p, name, args, variadic); ok {
				if old, ok := p.names["line"]; ok {
					o := old
					saved["line"] = &o
				} else {
					saved["line"] = nil
				}
				p.names["line"] = lv
			}
		}
		for j, a := range args {
			k := fmt.Sprintf("arg%d", j)
			if old, ok := p.names[k]; ok {
				o := old
				saved[k] = &o
			} else {
				saved[k] = nil
			}
			p.names[k] = a
		}
		ex.evaluatingAtCall = true
		g := ex.evalClause(p, ac.Clause.E, false)
		ex.evaluatingAtCall = false
		for k, o := range saved {
			if o == nil {
				delete(p.names, k)
			} else {
				p.names[k] = *o
			}
		}
		nm := ac.Clause.Name
		if nm == "" {
			nm = fmt.Sprint(i)
		}
		ex.addObl(p, fmt.Sprintf("%s#at-call:%s[%s]", ex.funcKey, name, nm), "at-call", ac.Clause.Text, g, pos, "")
	}
}

func (ex *Exec) inClosureOfUnit() bool { return false }

// textEventNames: every "P:<substring>" event of a P call (the substrings the contract under verification names).
func (ex *Exec) textEventNames(call *ast.CallExpr) []string {
	var out []string
	if call == nil {
		return out
	}
	runs := ex.literalRuns(call)
	for _, want := range ex.pEvents {
		for _, r := range runs {
			if strings.Contains(r, want) {
				out = append(out, "P:"+want)
				break
			}
		}
	}
	return out
}

// printedLine models the text of one printer call (see atCallObligations).
func (ex *Exec) printedLine(p *Path, name string, args []Value, variadic []Value) (Value, bool) {
	strT := types.Typ[types.String]
	if name == "P" || strings.HasPrefix(name, "P:") {
		var parts []string
		for _, v := range variadic {
			parts = append(parts, ex.fmtVerb(p, 'v', v))
		}
		ex.c.Trust("protogen GeneratedFile.P: prints the %v renderings of its arguments one after the other, then a newline")
		return Value{concatT(parts), strT}, true
	}
	if len(args) >= 1 && ex.c.SortOf(args[0].Ty) == "String" {
		if _, ok := smtStringLiteral(args[0].T); ok {
			return Value{ex.sprintf(p, args[0], variadic, nil), strT}, true
		}
	}
	return Value{}, false
}

// eventName decides whether a call is an event and under which name.
func (ex *Exec) eventName(fn *types.Func, call *ast.CallExpr) (string, bool) {
	if !ex.traceEvents || ex.inContract() {
		// a call written inside a specification expression is a term, not an event of the execution
		return "", false
	}
	if fn != nil {
		if fn.Name() == "P" && len(ex.pEvents) > 0 && call != nil {
			// emitted text: a P call whose literal arguments contain a substring the contract counts (count("P:<substring>"))
			runs := ex.literalRuns(call)
			for _, want := range ex.pEvents {
				for _, r := range runs {
					if strings.Contains(r, want) {
						return "P:" + want, true
					}
				}
			}
		}
		if ex.contract != nil {
			// (also inside a helper without a contract that was inlined: its calls are the unit's calls)
			// a callee named by an at-call clause of the unit under verification is an event of that unit
			for _, ac := range ex.contract.AtCall {
				qualified := ""
				if fn.Pkg() != nil {
					qualified = fn.Pkg().Name() + "." + fn.Name()
					if sig, ok := fn.Type().(*types.Signature); ok && sig.Recv() != nil {
						rt := sig.Recv().Type()
						if p, ok := rt.(*types.Pointer); ok {
							rt = p.Elem()
						}
						if n, ok := rt.(*types.Named); ok {
							qualified = fn.Pkg().Name() + "." + n.Obj().Name() + "." + fn.Name()
						}
					}
				}
				if ac.Callee == fn.Name() || ac.Callee == qualified {
					return ac.Callee, true
				}
			}
		}
		if ex.emittedPkg(fn) {
			return fn.Name(), true
		}
		if fn.Pkg() == nil {
			return "", false
		}
		switch fn.Pkg().Path() {
		case "net/http":
			switch fn.Name() {
			case "Set":
				// header writes are named after a literal key: Set:Content-Type
				if call != nil && len(call.Args) == 2 {
					if bl, ok := call.Args[0].(*ast.BasicLit); ok && bl.Kind == token.STRING {
						return "Set:" + strings.Trim(bl.Value, "\"`"), true
					}
				}
				return "Set", true
			case "WriteHeader", "Write", "ServeHTTP", "Error", "Do", "NewRequestWithContext", "Handle":
				return fn.Name(), true
			}
		case "io":
			if fn.Name() == "ReadAll" {
				return "ReadAll", true
			}
		case "google.golang.org/protobuf/encoding/protojson":
			if sig, ok := fn.Type().(*types.Signature); ok && sig.Recv() != nil {
				// MarshalOptions{...}.Marshal / UnmarshalOptions{...}.Unmarshal: not the strict default codec
				rt := sig.Recv().Type()
				if p, ok := rt.(*types.Pointer); ok {
					rt = p.Elem()
				}
				if n, ok := rt.(*types.Named); ok {
					return "protojson." + n.Obj().Name() + "." + fn.Name(), true
				}
			}
			return "protojson." + fn.Name(), true
		case "google.golang.org/protobuf/proto":
			if fn.Name() == "Marshal" || fn.Name() == "Unmarshal" {
				return "proto." + fn.Name(), true
			}
		case "google.golang.org/protobuf/reflect/protoreflect":
			switch fn.Name() {
			case "Set", "Mutable", "Append":
				return "reflect." + fn.Name(), true
			}
		case "encoding/json":
			if fn.Name() == "MarshalJSON" || fn.Name() == "UnmarshalJSON" {
				return fn.Name(), true
			}
			return "json." + fn.Name(), true
		case "sync":
			return "sync." + fn.Name(), true
		}
		if fn.Name() == "MarshalJSON" || fn.Name() == "UnmarshalJSON" || fn.Name() == "Validate" {
			return fn.Name(), true
		}
	}
	return "", false
}

// ---------------------------------------------------------------------------------------
// contract builtins for ghost state

func (ex *Exec) ghostBuiltin(p *Path, name string, call *ast.CallExpr) ([]Value, bool) {
	strArg := func(i int) string {
		bl, ok := call.Args[i].(*ast.BasicLit)
		if !ok || bl.Kind != token.STRING {
			ex.unsupp(call.Pos(), "%s: argument %d must be a string literal", name, i)
		}
		return strings.Trim(bl.Value, "\"`")
	}
	switch name {
	case "count":
		return []Value{{ex.ghostRead(p, "cnt", strArg(0), "Int"), types.Typ[types.Int]}}, true
	case "at":
		// sequence number of the most recent occurrence (0 = never)
		return []Value{{ex.ghostRead(p, "at", strArg(0), "Int"), types.Typ[types.Int]}}, true
	case "lastNil":
		return []Value{{ex.ghostRead(p, "nil", strArg(0), "Bool"), types.Typ[types.Bool]}}, true
	case "lastErrNil":
		return []Value{{ex.ghostRead(p, "errnil", strArg(0), "Bool"), types.Typ[types.Bool]}}, true
	case "lastArgInt":
		return []Value{{ex.ghostRead(p, "arg"+strArg(1), strArg(0), "Int"), types.Typ[types.Int]}}, true
	case "lastArgString":
		return []Value{{ex.ghostRead(p, "arg"+strArg(1), strArg(0), "String"), types.Typ[types.String]}}, true
	case "lastArgIface":
		return []Value{{ex.ghostRead(p, "arg"+strArg(1), strArg(0), "Iface"), types.NewInterfaceType(nil, nil)}}, true
	case "lastErr":
		return []Value{{ex.ghostRead(p, "err", strArg(0), "Iface"), types.Universe.Lookup("error").Type()}}, true
	case "lastRetAs":
		t, err := ex.w.ResolveType(call.Args[1], ex.pkg)
		if err != nil {
			ex.unsupp(call.Pos(), "%v", err)
		}
		return []Value{{ex.ghostRead(p, "ret", strArg(0), ex.c.SortOf(t)), t}}, true
	case "lastArgAs":
		t, err := ex.w.ResolveType(call.Args[2], ex.pkg)
		if err != nil {
			ex.unsupp(call.Pos(), "%v", err)
		}
		return []Value{{ex.ghostRead(p, "arg"+strArg(1), strArg(0), ex.c.SortOf(t)), t}}, true
	case "lastRetIface":
		return []Value{{ex.ghostRead(p, "ret", strArg(0), "Iface"), types.NewInterfaceType(nil, nil)}}, true
	case "lastRetRef":
		return []Value{{ex.ghostRead(p, "ret", strArg(0), "Ref"), types.Typ[types.UnsafePointer]}}, true
	case "errorsAs":
		// errorsAs(err, T): would errors.As(err, &target) with target of type T succeed?
		t, err := ex.w.ResolveType(call.Args[1], ex.pkg)
		if err != nil {
			ex.unsupp(call.Pos(), "%v", err)
		}
		v := ex.eval(p, call.Args[0])
		okF := ex.c.Fun("errors.As#ok", []string{"Iface", "Int"}, "Bool")
		return []Value{{app(okF, v.T, fmt.Sprint(ex.c.TID(t))), types.Typ[types.Bool]}}, true
	case "lastArgRef":
		return []Value{{ex.ghostRead(p, "arg"+strArg(1), strArg(0), "Ref"), types.Typ[types.UnsafePointer]}}, true
	}
	return nil, false
}

// reachableEvents: the event names a call to the function may raise (transitively through emitted functions).
func (ex *Exec) reachableEvents(fi *FuncInfo, seen map[string]bool, out map[string]bool) {
	full := fi.Obj.FullName()
	if seen[full] {
		return
	}
	seen[full] = true
	info := fi.Pkg.TypesInfo
	ast.Inspect(fi.Decl.Body, func(n ast.Node) bool {
		call, ok := n.(*ast.CallExpr)
		if !ok {
			return true
		}
		saveInfo := ex.info
		ex.info = info
		fn := ex.calleeOf(call)
		ex.info = saveInfo
		if fn != nil {
			saveT, saveCM := ex.traceEvents, ex.contractMode
			ex.traceEvents, ex.contractMode = true, 0 // a syntactic scan of code, not the evaluation of a specification
			name, isEv := ex.eventName(fn, call)
			ex.traceEvents, ex.contractMode = saveT, saveCM
			if isEv {
				out[name] = true
				if strings.HasPrefix(name, "P:") {
					// one print call raises every text event whose fragment it contains
					for _, n := range ex.textEventNames(call) {
						out[n] = true
					}
				}
			}
			if ex.emittedPkg(fn) || ex.w.IsRepoFunc(fn) {
				// (repository helpers too: a helper that prints is inlined or havocked at the call, and either way the events
				// it raises are events of the loop body / callee that is being summarised)
				f2 := fn
				if fn.Origin() != nil {
					f2 = fn.Origin()
				}
				if callee := ex.w.Funcs[f2.FullName()]; callee != nil && callee.Decl != nil && callee.Decl.Body != nil {
					ex.reachableEvents(callee, seen, out)
				}
			}
			return true
		}
		// function value call: named after the identifier
		switch f := unparen(call.Fun).(type) {
		case *ast.Ident:
			if tv, ok := info.Types[call.Fun]; ok && !tv.IsType() && !tv.IsBuiltin() {
				out[f.Name] = true
				if f.Name == "p" && len(ex.pfEvents) > 0 && len(call.Args) > 0 {
					// printf-style printer: also the text events of its literal format (as at the call itself, calls.go)
					if tvf, ok := info.Types[call.Args[0]]; ok && tvf.Value != nil && tvf.Value.Kind() == constant.String {
						format := constant.StringVal(tvf.Value)
						for _, want := range ex.pfEvents {
							if strings.Contains(format, want) {
								out["p:"+want] = true
							}
						}
					} else {
						// a format that is not a constant: any of the printer's text events may be raised
						for _, want := range ex.pfEvents {
							out["p:"+want] = true
						}
					}
				}
			}
		case *ast.SelectorExpr:
			if tv, ok := info.Types[call.Fun]; ok && !tv.IsType() {
				out[f.Sel.Name] = true
			}
		}
		return true
	})
}

// havocEventsOf forgets the ghost cells of every event the callee may raise.
func (ex *Exec) havocEventsOf(p *Path, fi *FuncInfo) {
	evs := map[string]bool{}
	ex.reachableEvents(fi, map[string]bool{}, evs)
	if len(evs) == 0 {
		return
	}
	evs["*"] = true
	for name := range evs {
		for kind, sort := range stableGhostKinds {
			if (kind == "seq") != (name == "*") {
				continue
			}
			key := ghostKey(kind, name)
			var before string
			if kind == "seq" || kind == "cnt" {
				before = ex.ghostRead(p, kind, name, sort)
			}
			p.heap[key] = ex.c.Fresh("H:"+key, "(Array Ref "+sort+")")
			if before != "" {
				// sequence numbers and counters never decrease
				p.Assume("(>= (select " + p.heap[key] + " null) " + before + ")")
			}
		}
	}
	for k := range p.heap {
		if !strings.HasPrefix(k, "ghost:") {
			continue
		}
		parts := strings.SplitN(k, ":", 3)
		if len(parts) == 3 && evs[parts[2]] {
			if _, stable := stableGhostKinds[parts[1]]; stable {
				continue
			}
			if sortOf := ex.sortOfHeapTerm(p.heap[k]); sortOf != "" {
				p.heap[k] = ex.c.Fresh("H:"+k, sortOf)
			} else {
				delete(p.heap, k)
			}
		}
	}
}

var ghostRefRe = regexp.MustCompile(`\b(?:count|at|lastNil|lastErrNil|lastErr|lastArg\w*|lastRet\w*)\("([^"]+)"`)

// contractEventNames: the event names a contract's postconditions and at-call clauses mention.
func contractEventNames(c *Contract) []string {
	seen := map[string]bool{}
	var out []string
	add := func(t string) {
		for _, m := range ghostRefRe.FindAllStringSubmatch(t, -1) {
			if !seen[m[1]] {
				seen[m[1]] = true
				out = append(out, m[1])
			}
		}
	}
	for _, e := range c.Ensures {
		add(e.Text)
	}
	for _, ac := range c.AtCall {
		if !seen[ac.Callee] {
			seen[ac.Callee] = true
			out = append(out, ac.Callee)
		}
		add(ac.Clause.Text)
	}
	sort.Strings(out)
	return out
}

// havocNamedEvents forgets the ghost cells of the named events (counters and sequence numbers only grow).
func (ex *Exec) havocNamedEvents(p *Path, names []string) {
	if len(names) == 0 {
		return
	}
	evs := map[string]bool{"*": true}
	for _, n := range names {
		evs[n] = true
	}
	for name := range evs {
		for kind, sortName := range stableGhostKinds {
			if (kind == "seq") != (name == "*") {
				continue
			}
			key := ghostKey(kind, name)
			var before string
			if kind == "seq" || kind == "cnt" {
				before = ex.ghostRead(p, kind, name, sortName)
			}
			p.heap[key] = ex.c.Fresh("H:"+key, "(Array Ref "+sortName+")")
			if before != "" {
				p.Assume("(>= (select " + p.heap[key] + " null) " + before + ")")
			}
		}
	}
	for k := range p.heap {
		if !strings.HasPrefix(k, "ghost:") {
			continue
		}
		parts := strings.SplitN(k, ":", 3)
		if len(parts) == 3 && evs[parts[2]] {
			if _, stable := stableGhostKinds[parts[1]]; stable {
				continue
			}
			if sortOf := ex.sortOfHeapTerm(p.heap[k]); sortOf != "" {
				p.heap[k] = ex.c.Fresh("H:"+k, sortOf)
			}
		}
	}
}


// literalRuns: the maximal runs of literal text of the line a P call prints. Adjacent string literals are joined, across
// `+` and across a local string variable that is assigned exactly once from literals and other text (so
// `x := "req." + name; P("if ", x, ...)` prints the run "if req."); anything else ends a run.
func (ex *Exec) literalRuns(call *ast.CallExpr) []string {
	var runs []string
	cur := ""
	open := false
	flush := func() {
		if open {
			runs = append(runs, cur)
		}
		cur, open = "", false
	}
	var walk func(e ast.Expr, depth int)
	walk = func(e ast.Expr, depth int) {
		switch x := unparen(e).(type) {
		case *ast.BasicLit:
			if x.Kind == token.STRING && len(x.Value) >= 2 {
				cur += x.Value[1 : len(x.Value)-1] // source text between the quotes (escapes as written)
				open = true
				return
			}
		case *ast.BinaryExpr:
			if x.Op == token.ADD {
				walk(x.X, depth)
				walk(x.Y, depth)
				return
			}
		case *ast.Ident:
			if depth < 4 && ex.info != nil && ex.fi != nil && ex.fi.Decl != nil && ex.fi.Decl.Body != nil {
				if v, ok := ex.info.Uses[x].(*types.Var); ok && v.Pkg() != nil && v.Parent() != v.Pkg().Scope() {
					if b, isB := v.Type().Underlying().(*types.Basic); isB && b.Info()&types.IsString != 0 {
						if def := ex.singleDefinition(v); def != nil {
							walk(def, depth+1)
							return
						}
					}
				}
			}
		}
		flush()
	}
	for _, a := range call.Args {
		walk(a, 0)
	}
	flush()
	return runs
}

// singleDefinition: the right-hand side of the only assignment to a local variable of the unit (nil if it is assigned
// more than once, is a parameter, or is assigned by a multi-value statement).
func (ex *Exec) singleDefinition(v *types.Var) ast.Expr {
	var def ast.Expr
	n := 0
	ast.Inspect(ex.fi.Decl.Body, func(nd ast.Node) bool {
		switch st := nd.(type) {
		case *ast.AssignStmt:
			for i, l := range st.Lhs {
				id, ok := l.(*ast.Ident)
				if !ok {
					continue
				}
				obj := ex.info.Defs[id]
				if obj == nil {
					obj = ex.info.Uses[id]
				}
				if obj == v {
					n++
					if len(st.Lhs) == len(st.Rhs) && st.Tok != token.ADD_ASSIGN {
						def = st.Rhs[i]
					} else {
						n++
					}
				}
			}
		case *ast.ValueSpec:
			for i, id := range st.Names {
				if ex.info.Defs[id] == v {
					n++
					if i < len(st.Values) {
						def = st.Values[i]
					} else {
						n++
					}
				}
			}
		case *ast.IncDecStmt, *ast.RangeStmt:
		}
		return true
	})
	if n != 1 {
		return nil
	}
	return def
}
