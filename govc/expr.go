package main

// Expression evaluation (code mode with go/types info; contract mode by name resolution).

import (
	"math/big"
	"fmt"
	"go/ast"
	"go/constant"
	"go/token"
	"go/types"
	"strconv"
	"strings"
)

type closure struct {
	lit  *ast.FuncLit
	info *types.Info
	pkg  *types.Package
}


type boundMethod struct {
	fn   *types.Func
	recv Value
}


func (ex *Exec) inContract() bool { return ex.contractMode > 0 }

func (ex *Exec) eval(p *Path, e ast.Expr) Value {
	vs := ex.evalN(p, e, false)
	if len(vs) != 1 {
		ex.unsupp(e.Pos(), "expected single value, got %d", len(vs))
	}
	return vs[0]
}

func (ex *Exec) evalMulti(p *Path, e ast.Expr) []Value {
	return ex.evalN(p, e, true)
}

func (ex *Exec) evalN(p *Path, e ast.Expr, multi bool) []Value {
	// constants first (code mode)
	if !ex.inContract() && ex.info != nil {
		if tv, ok := ex.info.Types[e]; ok && tv.Value != nil {
			return []Value{ex.constValue(tv.Value, tv.Type)}
		}
	}
	switch x := e.(type) {
	case *ast.ParenExpr:
		return ex.evalN(p, x.X, multi)
	case *ast.BasicLit:
		return []Value{ex.evalLit(x)}
	case *ast.Ident:
		return []Value{ex.evalIdent(p, x)}
	case *ast.UnaryExpr:
		return []Value{ex.evalUnary(p, x)}
	case *ast.BinaryExpr:
		return []Value{ex.evalBinary(p, x)}
	case *ast.CallExpr:
		return ex.evalCall(p, x, multi)
	case *ast.SelectorExpr:
		return []Value{ex.evalSelector(p, x)}
	case *ast.IndexExpr:
		return ex.evalIndex(p, x, multi)
	case *ast.SliceExpr:
		return []Value{ex.evalSlice(p, x)}
	case *ast.StarExpr:
		ptr := ex.eval(p, x.X)
		et := elemType(ptr.Ty)
		if _, isStruct := et.Underlying().(*types.Struct); isStruct {
			return []Value{ex.loadStruct(p, ptr, et, x.Pos())}
		}
		ex.nilObl(p, ptr, x.Pos())
		return []Value{ex.heapRead(p, "deref:"+sortToken(ex.c.SortOf(et)), et, ptr.T)}
	case *ast.CompositeLit:
		return []Value{ex.evalComposite(p, x, nil)}
	case *ast.TypeAssertExpr:
		return ex.evalTypeAssert(p, x, multi)
	case *ast.FuncLit:
		p.noPrivate, p.private = true, nil
		r := ex.c.Fresh("closure", "Ref")
		ex.closures[r] = &closure{lit: x, info: ex.info, pkg: ex.pkg}
		var t types.Type
		if ex.info != nil {
			t = ex.info.TypeOf(x)
		}
		if t == nil {
			t = types.NewSignatureType(nil, nil, nil, nil, nil, false)
		}
		p.Assume("(not (= " + r + " null))")
		return []Value{{r, t}}
	case *ast.KeyValueExpr:
		ex.unsupp(e.Pos(), "key-value outside composite literal")
	}
	ex.unsupp(e.Pos(), "expression %T", e)
	return nil
}

func (ex *Exec) evalLit(x *ast.BasicLit) Value {
	switch x.Kind {
	case token.INT:
		cv := constant.MakeFromLiteral(x.Value, token.INT, 0)
		return Value{bigIntLit(cv.ExactString()), types.Typ[types.Int]}
	case token.FLOAT:
		cv := constant.MakeFromLiteral(x.Value, token.FLOAT, 0)
		return Value{realLit(cv), types.Typ[types.Float64]}
	case token.STRING:
		s, err := strconv.Unquote(x.Value)
		if err != nil {
			ex.unsupp(x.Pos(), "bad string literal")
		}
		return Value{strLit(s), types.Typ[types.String]}
	case token.CHAR:
		s, _, _, err := strconv.UnquoteChar(x.Value[1:len(x.Value)-1], '\'')
		if err != nil {
			ex.unsupp(x.Pos(), "bad char literal")
		}
		return Value{fmt.Sprint(int(s)), types.Typ[types.Rune]}
	}
	ex.unsupp(x.Pos(), "literal kind %s", x.Kind)
	return Value{}
}

func (ex *Exec) evalIdent(p *Path, id *ast.Ident) Value {
	switch id.Name {
	case "true":
		return Value{"true", types.Typ[types.Bool]}
	case "false":
		return Value{"false", types.Typ[types.Bool]}
	case "nil":
		return Value{"nil", types.Typ[types.UntypedNil]}
	}
	if ex.inContract() {
		return ex.evalIdentC(p, id)
	}
	obj := ex.info.Uses[id]
	if obj == nil {
		obj = ex.info.Defs[id]
	}
	if obj == nil {
		ex.unsupp(id.Pos(), "unresolved identifier %s", id.Name)
	}
	return ex.objValue(p, obj, id.Pos())
}

func (ex *Exec) objValue(p *Path, obj types.Object, pos token.Pos) Value {
	switch o := obj.(type) {
	case *types.Var:
		if r, ok := p.cells[o]; ok {
			return ex.heapRead(p, "deref:"+sortToken(ex.c.SortOf(o.Type())), o.Type(), r)
		}
		if v, ok := p.vars[o]; ok {
			return v
		}
		if o.Pkg() != nil && o.Parent() == o.Pkg().Scope() {
			return ex.globalValue(p, o)
		}
		// variable declared but not yet assigned (e.g. named result) -> zero
		v := Value{ex.c.Zero(o.Type()), o.Type()}
		p.vars[o] = v
		return v
	case *types.Const:
		return ex.constValue(o.Val(), o.Type())
	case *types.Func:
		r := ex.c.Const("fn:"+o.FullName(), "Ref")
		return Value{r, o.Type()}
	case *types.Nil:
		return Value{"nil", types.Typ[types.UntypedNil]}
	}
	ex.unsupp(pos, "identifier object %T", obj)
	return Value{}
}

func (ex *Exec) globalValue(p *Path, o *types.Var) Value {
	// extension descriptors and similar package-level singletons are constants
	if _, isPtr := o.Type().Underlying().(*types.Pointer); isPtr && !ex.w.RepoPaths[o.Pkg().Path()] || strings.HasPrefix(o.Name(), "E_") || strings.HasPrefix(o.Name(), "File_") {
		r := ex.c.Const("global:"+o.Pkg().Name()+"."+o.Name(), ex.c.SortOf(o.Type()))
		if ex.c.SortOf(o.Type()) == "Ref" {
			ex.assumeFact(p, "(not (= "+r+" null))")
		}
		return Value{r, o.Type()}
	}
	key := "global:" + o.Pkg().Name() + "." + o.Name()
	v := ex.heapRead(p, key, o.Type(), "null")
	if o.Pkg().Path() == "os" && o.Name() == "Args" {
		ex.c.Trust("os.Args holds at least the program name (execve convention; protoc starts plugins that way)")
		ex.assumeFact(p, "(>= "+ex.c.sliceLen(v)+" 1)")
	}
	return v
}

func (ex *Exec) evalUnary(p *Path, x *ast.UnaryExpr) Value {
	switch x.Op {
	case token.NOT:
		v := ex.eval(p, x.X)
		return Value{not(v.T), v.Ty}
	case token.SUB:
		v := ex.eval(p, x.X)
		return Value{"(- " + v.T + ")", v.Ty}
	case token.ADD:
		return ex.eval(p, x.X)
	case token.AND:
		switch in := x.X.(type) {
		case *ast.CompositeLit:
			var t types.Type
			if !ex.inContract() {
				t = ex.info.TypeOf(in)
			}
			sv := ex.evalComposite(p, in, t)
			rv := ex.allocStruct(p, sv, x.Pos())
			if len(in.Elts) == 0 && p.private[rv.T] {
				if p.blank == nil {
					p.blank = map[string]bool{}
				}
				p.blank[rv.T] = true
			}
			return rv
		case *ast.Ident:
			// &local: allocate a cell initialised with the current value
			v := ex.eval(p, in)
			if _, isStruct := v.Ty.Underlying().(*types.Struct); isStruct {
				return ex.allocStruct(p, v, x.Pos())
			}
			obj, _ := ex.info.Uses[in].(*types.Var)
			if obj != nil {
				if r, ok := p.cells[obj]; ok {
					return Value{r, types.NewPointer(obj.Type())}
				}
			}
			r := ex.alloc(p, in.Name)
			if obj != nil && !ex.inContract() && (obj.Pkg() == nil || obj.Parent() != obj.Pkg().Scope()) {
				// from now on the local lives in the cell: reads and writes of the variable go through it
				cv := ex.convert(p, v, obj.Type(), x.Pos())
				ex.heapWrite(p, "deref:"+sortToken(ex.c.SortOf(obj.Type())), obj.Type(), r, cv.T)
				if p.cells == nil {
					p.cells = map[types.Object]string{}
				}
				p.cells[obj] = r
				return Value{r, types.NewPointer(obj.Type())}
			}
			ex.heapWrite(p, "deref:"+sortToken(ex.c.SortOf(v.Ty)), v.Ty, r, v.T)
			ex.note("&%s at %s: cell initialised with the current value (later writes to the variable are not reflected)", in.Name, ex.w.pos(x.Pos()))
			return Value{r, types.NewPointer(v.Ty)}
		case *ast.SelectorExpr, *ast.IndexExpr:
			v := ex.eval(p, in)
			if _, isStruct := v.Ty.Underlying().(*types.Struct); isStruct {
				return ex.allocStruct(p, v, x.Pos())
			}
			r := ex.alloc(p, "addr")
			ex.heapWrite(p, "deref:"+sortToken(ex.c.SortOf(v.Ty)), v.Ty, r, v.T)
			ex.note("address-of at %s: copy semantics", ex.w.pos(x.Pos()))
			return Value{r, types.NewPointer(v.Ty)}
		}
		ex.unsupp(x.Pos(), "address-of %T", x.X)
	}
	ex.unsupp(x.Pos(), "unary operator %s", x.Op)
	return Value{}
}

// allocStruct stores a struct value into fresh heap cells and returns the pointer.
func (ex *Exec) allocStruct(p *Path, sv Value, pos token.Pos) Value {
	named, ok := types.Unalias(sv.Ty).(*types.Named)
	if !ok {
		ex.unsupp(pos, "pointer to unnamed struct")
	}
	st := named.Underlying().(*types.Struct)
	r := ex.alloc(p, named.Obj().Name())
	for i := 0; i < st.NumFields(); i++ {
		f := st.Field(i)
		sel, ft, _ := ex.c.structFieldSel(sv.Ty, f.Name())
		ex.heapWrite(p, ex.heapKey(named, f.Name()), ft, r, app(sel, sv.T))
	}
	return Value{r, types.NewPointer(sv.Ty)}
}

// loadStruct reads a struct value out of the heap (dereference of pointer to struct).
func (ex *Exec) loadStruct(p *Path, ptr Value, et types.Type, pos token.Pos) Value {
	named, ok := types.Unalias(et).(*types.Named)
	if !ok {
		ex.unsupp(pos, "deref of pointer to unnamed struct")
	}
	st := named.Underlying().(*types.Struct)
	mk, _ := ex.c.structMk(et)
	var args []string
	for i := 0; i < st.NumFields(); i++ {
		f := st.Field(i)
		args = append(args, ex.heapRead(p, ex.heapKey(named, f.Name()), f.Type(), ptr.T).T)
	}
	return Value{app(mk, args...), et}
}

func (ex *Exec) evalBinary(p *Path, x *ast.BinaryExpr) Value {
	switch x.Op {
	case token.LAND:
		l := ex.eval(p, x.X)
		ex.guards = append(ex.guards, l.T)
		r := ex.eval(p, x.Y)
		ex.guards = ex.guards[:len(ex.guards)-1]
		return Value{and(l.T, r.T), types.Typ[types.Bool]}
	case token.LOR:
		l := ex.eval(p, x.X)
		ex.guards = append(ex.guards, not(l.T))
		r := ex.eval(p, x.Y)
		ex.guards = ex.guards[:len(ex.guards)-1]
		return Value{or(l.T, r.T), types.Typ[types.Bool]}
	}
	l := ex.eval(p, x.X)
	r := ex.eval(p, x.Y)
	return ex.binop(p, x.Op, l, r, x.Pos())
}

func isUntypedNil(v Value) bool {
	if v.T != "nil" {
		return false
	}
	b, ok := v.Ty.(*types.Basic)
	return ok && b.Kind() == types.UntypedNil
}

func (ex *Exec) binop(p *Path, op token.Token, l, r Value, pos token.Pos) Value {
	boolT := types.Typ[types.Bool]
	// nil comparisons
	if isUntypedNil(l) || isUntypedNil(r) {
		other := l
		if isUntypedNil(l) {
			other = r
		}
		if isUntypedNil(other) {
			if op == token.EQL {
				return Value{"true", boolT}
			}
			return Value{"false", boolT}
		}
		t := ex.isNilTerm(other)
		switch op {
		case token.EQL:
			return Value{t, boolT}
		case token.NEQ:
			return Value{not(t), boolT}
		}
		ex.unsupp(pos, "operator %s with nil", op)
	}
	ls, rs := ex.c.SortOf(l.Ty), ex.c.SortOf(r.Ty)
	if ls != rs {
		switch {
		case ls == "Int" && rs == "Real":
			l = Value{"(to_real " + l.T + ")", r.Ty}
			ls = "Real"
		case ls == "Real" && rs == "Int":
			r = Value{"(to_real " + r.T + ")", l.Ty}
			rs = "Real"
		case ls == "Iface" && rs != "Iface":
			r = ex.convert(p, r, l.Ty, pos)
			rs = "Iface"
		case rs == "Iface" && ls != "Iface":
			l = ex.convert(p, l, r.Ty, pos)
			ls = "Iface"
		default:
			ex.unsupp(pos, "operands of different sorts %s (%s) and %s (%s)", ls, l.Ty, rs, r.Ty)
		}
	}
	resTy := l.Ty
	switch op {
	case token.EQL:
		return Value{eq(l.T, r.T), boolT}
	case token.NEQ:
		return Value{not(eq(l.T, r.T)), boolT}
	case token.LSS, token.LEQ, token.GTR, token.GEQ:
		if ls == "String" {
			switch op {
			case token.LSS:
				return Value{"(str.< " + l.T + " " + r.T + ")", boolT}
			case token.LEQ:
				return Value{"(str.<= " + l.T + " " + r.T + ")", boolT}
			case token.GTR:
				return Value{"(str.< " + r.T + " " + l.T + ")", boolT}
			case token.GEQ:
				return Value{"(str.<= " + r.T + " " + l.T + ")", boolT}
			}
		}
		o := map[token.Token]string{token.LSS: "<", token.LEQ: "<=", token.GTR: ">", token.GEQ: ">="}[op]
		return Value{"(" + o + " " + l.T + " " + r.T + ")", boolT}
	case token.ADD:
		if ls == "String" {
			return Value{"(str.++ " + l.T + " " + r.T + ")", resTy}
		}
		return Value{"(+ " + l.T + " " + r.T + ")", resTy}
	case token.SUB:
		return Value{"(- " + l.T + " " + r.T + ")", resTy}
	case token.MUL:
		return Value{"(* " + l.T + " " + r.T + ")", resTy}
	case token.QUO:
		if ls == "Real" {
			return Value{"(/ " + l.T + " " + r.T + ")", resTy}
		}
		ex.c.Trust("integer division modelled as SMT div (agrees with Go for non-negative operands)")
		return Value{"(div " + l.T + " " + r.T + ")", resTy}
	case token.REM:
		ex.c.Trust("integer remainder modelled as SMT mod (agrees with Go for non-negative operands)")
		return Value{"(mod " + l.T + " " + r.T + ")", resTy}
	case token.AND, token.OR, token.XOR, token.SHL, token.SHR, token.AND_NOT:
		if ls == "Bool" {
			break
		}
		f := ex.c.Fun("bitop:"+op.String(), []string{"Int", "Int"}, "Int")
		return Value{app(f, l.T, r.T), resTy}
	}
	ex.unsupp(pos, "binary operator %s on %s", op, ls)
	return Value{}
}

// ---------------------------------------------------------------------------------------
// conversion

func (ex *Exec) convert(p *Path, v Value, to types.Type, pos token.Pos) Value {
	if to == nil {
		return v
	}
	if isUntypedNil(v) {
		return Value{ex.c.Zero(to), to}
	}
	if v.Ty == nil {
		return Value{v.T, to}
	}
	from := ex.c.SortOf(v.Ty)
	toS := ex.c.SortOf(to)
	if from == toS {
		if from == "Iface" {
			// interface -> interface, or type-param values
			return Value{v.T, to}
		}
		if from == "Int" {
			// integer -> narrower or differently signed integer type: two's complement wrap-around
			if w := wrapInt(v, to); w != "" {
				return Value{w, to}
			}
		}
		return Value{v.T, to}
	}
	if toS == "Iface" {
		b := Value{ex.box(v), to}
		ex.linkErrorMethod(p, v, b)
		return b
	}
	if from == "Iface" {
		// generic value flowing into a concrete slot (instantiated generic) -- unbox
		return ex.assertedValue(v, to)
	}
	switch {
	case from == "Int" && toS == "Real":
		if b, ok := v.Ty.Underlying().(*types.Basic); ok {
			switch b.Kind() {
			case types.Int64, types.Uint64, types.Int, types.Uint, types.Uintptr:
				// 64-bit integer -> float64 rounds: exact only up to 2^53
				f := ex.c.Fun("f64of", []string{"Int"}, "Real")
				ex.c.Axiom("f64of.exact", "(forall ((x Int)) (! (=> (and (<= (- 9007199254740992) x) (<= x 9007199254740992)) (= ("+f+" x) (to_real x))) :pattern (("+f+" x))))")
				ex.c.Axiom("f64of.monotone", "(forall ((x Int) (y Int)) (! (=> (<= x y) (<= ("+f+" x) ("+f+" y))) :pattern (("+f+" x) ("+f+" y))))")
				ex.c.Trust("float64(int64): exact for |x| <= 2^53, monotone otherwise (IEEE rounding not modelled further)")
				if lit := strings.TrimPrefix(strings.TrimSuffix(strings.TrimPrefix(v.T, "(- "), ")"), ""); isDigits(lit) && len(lit) <= 15 {
					return Value{"(to_real " + v.T + ")", to}
				}
				return Value{app(f, v.T), to}
			}
		}
		return Value{"(to_real " + v.T + ")", to}
	case from == "Real" && toS == "Int":
		ex.c.Trust("float->int conversion modelled as to_int (floor); exact for non-negative values")
		return Value{"(to_int " + v.T + ")", to}
	case from == "Int" && toS == "String":
		return Value{"(str.from_code " + v.T + ")", to}
	case toS == "String" && strings.HasPrefix(from, "|Slice:"):
		f := ex.c.Fun("bytes2str", []string{from}, "String")
		return Value{app(f, v.T), to}
	case from == "String" && strings.HasPrefix(toS, "|Slice:"):
		f := ex.c.Fun("str2bytes:"+sortToken(toS), []string{"String"}, toS)
		// language semantics: string([]byte(s)) == s
		g := ex.c.Fun("bytes2str", []string{toS}, "String")
		ex.c.Axiom("str-bytes-str:"+toS, "(forall ((s String)) (! (= "+app(g, app(f, "s"))+" s) :pattern ("+app(f, "s")+")))")
		return Value{app(f, v.T), to}
	}
	ex.unsupp(pos, "conversion from %s (%s) to %s (%s)", v.Ty, from, to, toS)
	return Value{}
}

// box wraps a concrete value into the interface datatype (dynamic type id, reference payload).
// Non-reference payloads go through an injective boxing function per sort.
func (ex *Exec) box(v Value) string {
	tid := fmt.Sprint(ex.c.TID(v.Ty))
	s := ex.c.SortOf(v.Ty)
	if s == "Ref" {
		return "(mk_iface " + tid + " " + v.T + ")"
	}
	f := ex.c.Fun("box:"+sortToken(s), []string{s}, "Ref")
	u := ex.c.Fun("unbox:"+sortToken(s), []string{"Ref"}, s)
	fact := "(= " + app(u, app(f, v.T)) + " " + v.T + ")"
	if ex.quantFacts != nil {
		*ex.quantFacts = append(*ex.quantFacts, fact)
	} else {
		ex.c.Axiom("unbox-box:"+fact, fact)
	}
	return "(mk_iface " + tid + " " + app(f, v.T) + ")"
}

// assertedValue extracts the payload of an interface value as type t (no check).
func (ex *Exec) assertedValue(v Value, t types.Type) Value {
	switch s := ex.c.SortOf(t); s {
	case "Iface":
		return Value{v.T, t}
	case "Ref":
		return Value{"(iref " + v.T + ")", t}
	default:
		// statically visible boxing: (mk_iface tid (box x)) -> x
		if inner, is := unboxTerm(v.T); inner != "" && is == s {
			return Value{inner, t}
		}
		f := ex.c.Fun("unbox:"+sortToken(s), []string{"Ref"}, s)
		return Value{app(f, "(iref "+v.T+")"), t}
	}
}

// typeTest: does interface value v hold dynamic type t (concrete) / implement t (interface)?
func (ex *Exec) typeTest(p *Path, v Value, t types.Type) string {
	if ex.c.SortOf(v.Ty) != "Iface" {
		ex.unsupp(token.NoPos, "type test on non-interface %s", v.Ty)
	}
	if _, isIface := t.Underlying().(*types.Interface); isIface {
		f := ex.c.Fun("implements", []string{"Int", "Int"}, "Bool")
		if tp, ok := t.(*types.TypeParam); ok {
			_ = tp
		}
		return and("(not (= (ityp "+v.T+") 0))", app(f, "(ityp "+v.T+")", fmt.Sprint(ex.c.TID(t))))
	}
	if _, isTP := t.(*types.TypeParam); isTP {
		f := ex.c.Fun("is-typeparam", []string{"Int", "Int"}, "Bool")
		return app(f, "(ityp "+v.T+")", fmt.Sprint(ex.c.TID(t)))
	}
	return "(= (ityp " + v.T + ") " + fmt.Sprint(ex.c.TID(t)) + ")"
}

func (ex *Exec) evalTypeAssert(p *Path, x *ast.TypeAssertExpr, multi bool) []Value {
	v := ex.eval(p, x.X)
	var t types.Type
	if ex.inContract() {
		var err error
		t, err = ex.w.ResolveType(x.Type, ex.pkg)
		if err != nil {
			ex.unsupp(x.Pos(), "%v", err)
		}
	} else {
		t = ex.info.TypeOf(x.Type)
	}
	ok := ex.typeTest(p, v, t)
	val := ex.assertedValue(v, t)
	if multi {
		return []Value{{ite(ok, val.T, ex.c.Zero(t)), t}, {ok, types.Typ[types.Bool]}}
	}
	if ex.safety && !ex.inContract() {
		ex.addObl(p, ex.funcKey+"#nopanic:assert@"+ex.siteLabel(x.Pos()), "safety", "type assertion holds", ok, x.Pos(), "")
	}
	return []Value{val}
}

// ---------------------------------------------------------------------------------------
// selectors, indexing, slicing, composite literals

func pkgOfType(t types.Type) *types.Package {
	if p, ok := t.(*types.Pointer); ok {
		t = p.Elem()
	}
	if n, ok := types.Unalias(t).(*types.Named); ok {
		return n.Obj().Pkg()
	}
	return nil
}

func (ex *Exec) evalSelector(p *Path, x *ast.SelectorExpr) Value {
	// qualified identifier?
	if id, ok := x.X.(*ast.Ident); ok {
		if ex.inContract() {
			if _, isLocal := ex.lookupNameC(p, id.Name); !isLocal {
				if pkg := ex.w.ByName[id.Name]; pkg != nil {
					obj := pkg.Scope().Lookup(x.Sel.Name)
					if obj == nil {
						ex.unsupp(x.Pos(), "unknown %s.%s", id.Name, x.Sel.Name)
					}
					return ex.objValue(p, obj, x.Pos())
				}
			}
		} else if _, isPkg := ex.info.Uses[id].(*types.PkgName); isPkg {
			obj := ex.info.Uses[x.Sel]
			return ex.objValue(p, obj, x.Pos())
		}
	}
	base := ex.eval(p, x.X)
	return ex.selectMember(p, base, x.Sel.Name, x.Pos())
}

// selectMember selects a field (or method value) of a value.
func (ex *Exec) selectMember(p *Path, base Value, name string, pos token.Pos) Value {
	pkg := pkgOfType(base.Ty)
	if pkg == nil {
		pkg = ex.pkg
	}
	obj, index, _ := types.LookupFieldOrMethod(base.Ty, true, pkg, name)
	if obj == nil {
		ex.unsupp(pos, "no field or method %s on %s", name, base.Ty)
	}
	switch o := obj.(type) {
	case *types.Var:
		cur := base
		for _, idx := range index {
			cur = ex.fieldByIndex(p, cur, idx, pos)
		}
		return cur
	case *types.Func:
		r := ex.c.Fresh("mval:"+o.Name(), "Ref")
		ex.boundMethods[r] = &boundMethod{fn: o, recv: base}
		return Value{r, o.Type()}
	}
	ex.unsupp(pos, "selector object %T", obj)
	return Value{}
}

func (ex *Exec) fieldByIndex(p *Path, base Value, idx int, pos token.Pos) Value {
	t := base.Ty
	if ptr, ok := t.Underlying().(*types.Pointer); ok {
		named, ok := types.Unalias(ptr.Elem()).(*types.Named)
		if !ok {
			ex.unsupp(pos, "field of pointer to unnamed struct")
		}
		st, ok := named.Underlying().(*types.Struct)
		if !ok {
			ex.unsupp(pos, "field of non-struct pointer %s", t)
		}
		f := st.Field(idx)
		ex.nilObl(p, base, pos)
		return ex.heapRead(p, ex.heapKey(named, f.Name()), f.Type(), base.T)
	}
	st, ok := t.Underlying().(*types.Struct)
	if !ok {
		ex.unsupp(pos, "field of non-struct %s", t)
	}
	f := st.Field(idx)
	sel, ft, _ := ex.c.structFieldSel(t, f.Name())
	return Value{app(sel, base.T), ft}
}

func (ex *Exec) evalIndex(p *Path, x *ast.IndexExpr, multi bool) []Value {
	// generic instantiation f[T]
	if !ex.inContract() {
		if tv, ok := ex.info.Types[x.X]; ok {
			if _, isSig := tv.Type.Underlying().(*types.Signature); isSig {
				return ex.evalN(p, x.X, multi)
			}
		}
	}
	base := ex.eval(p, x.X)
	idx := ex.eval(p, x.Index)
	return ex.indexValue(p, base, idx, multi, x.Pos())
}

func (ex *Exec) indexValue(p *Path, base, idx Value, multi bool, pos token.Pos) []Value {
	switch bt := base.Ty.Underlying().(type) {
	case *types.Slice, *types.Array:
		ex.boundsObl(p, idx.T, ex.c.sliceLen(base), pos)
		v := Value{ex.c.sliceAt(base, idx.T), elemType(base.Ty)}
		ex.assumeFact(p, ex.c.typeInvariant(v))
		if ex.c.SortOf(v.Ty) == "Ref" && !p.inOld {
			ex.bornBefore(p, v.T)
		}
		return []Value{v}
	case *types.Pointer:
		if _, isArr := bt.Elem().Underlying().(*types.Array); isArr {
			ex.unsupp(pos, "index through pointer to array")
		}
	case *types.Map:
		_, dom, val, isnil := ex.c.mapParts(base.Ty)
		k := ex.convert(p, idx, bt.Key(), pos)
		present := "(select " + app(dom, base.T) + " " + k.T + ")"
		// a nil map has no entries (language fact): a key that is present witnesses a non-nil map
		if ex.quantFacts == nil {
			ex.assumeFact(p, implies(present, not(app(isnil, base.T))))
		}
		stored := Value{"(select " + app(val, base.T) + " " + k.T + ")", bt.Elem()}
		if inv := ex.c.typeInvariant(stored); inv != "true" {
			ex.assumeFact(p, implies(present, inv))
		}
		v := Value{ite(present, stored.T, ex.c.Zero(bt.Elem())), bt.Elem()}
		if multi {
			return []Value{v, {present, types.Typ[types.Bool]}}
		}
		return []Value{v}
	case *types.Basic:
		if bt.Info()&types.IsString != 0 {
			ex.boundsObl(p, idx.T, "(str.len "+base.T+")", pos)
			return []Value{{"(str.to_code (str.at " + base.T + " " + idx.T + "))", types.Typ[types.Byte]}}
		}
	}
	ex.unsupp(pos, "index on %s", base.Ty)
	return nil
}

func (ex *Exec) evalSlice(p *Path, x *ast.SliceExpr) Value {
	base := ex.eval(p, x.X)
	lo := "0"
	if x.Low != nil {
		lo = ex.eval(p, x.Low).T
	}
	if b, ok := base.Ty.Underlying().(*types.Basic); ok && b.Info()&types.IsString != 0 {
		hi := "(str.len " + base.T + ")"
		if x.High != nil {
			hi = ex.eval(p, x.High).T
		}
		if ex.safety && !ex.inContract() {
			ex.addObl(p, ex.funcKey+"#nopanic:slice@"+ex.siteLabel(x.Pos()), "safety", "slice bounds in range",
				"(and (<= 0 "+lo+") (<= "+lo+" "+hi+") (<= "+hi+" (str.len "+base.T+")))", x.Pos(), "")
		}
		return Value{"(str.substr " + base.T + " " + lo + " (- " + hi + " " + lo + "))", base.Ty}
	}
	if _, ok := base.Ty.Underlying().(*types.Slice); ok {
		mk, arr, ln := ex.c.sliceParts(base.Ty)
		hi := app(ln, base.T)
		if x.High != nil {
			hi = ex.eval(p, x.High).T
		}
		if ex.safety && !ex.inContract() {
			ex.addObl(p, ex.funcKey+"#nopanic:slice@"+ex.siteLabel(x.Pos()), "safety", "slice bounds in range",
				"(and (<= 0 "+lo+") (<= "+lo+" "+hi+") (<= "+hi+" "+app(ln, base.T)+"))", x.Pos(), "")
		}
		if lo == "0" {
			return Value{app(mk, app(arr, base.T), hi), base.Ty}
		}
		es := ex.c.SortOf(elemType(base.Ty))
		sh := ex.c.Fun("shift:"+sortToken(es), []string{"(Array Int " + es + ")", "Int"}, "(Array Int "+es+")")
		ex.c.Axiom("shift:"+sortToken(es), fmt.Sprintf("(forall ((a (Array Int %s)) (k Int) (i Int)) (! (= (select (%s a k) i) (select a (+ i k))) :pattern ((select (%s a k) i))))", es, sh, sh))
		return Value{app(mk, app(sh, app(arr, base.T), lo), "(- "+hi+" "+lo+")"), base.Ty}
	}
	ex.unsupp(x.Pos(), "slice expression on %s", base.Ty)
	return Value{}
}

func (ex *Exec) evalComposite(p *Path, x *ast.CompositeLit, t types.Type) Value {
	if t == nil {
		if ex.inContract() {
			var err error
			t, err = ex.w.ResolveType(x.Type, ex.pkg)
			if err != nil {
				ex.unsupp(x.Pos(), "%v", err)
			}
		} else {
			t = ex.info.TypeOf(x)
		}
	}
	switch ut := t.Underlying().(type) {
	case *types.Struct:
		mk, st := ex.c.structMk(t)
		vals := make([]string, st.NumFields())
		for i := range vals {
			vals[i] = ex.c.Zero(st.Field(i).Type())
		}
		for i, el := range x.Elts {
			if kv, ok := el.(*ast.KeyValueExpr); ok {
				name := kv.Key.(*ast.Ident).Name
				found := false
				for j := 0; j < st.NumFields(); j++ {
					if st.Field(j).Name() == name {
						vals[j] = ex.convert(p, ex.evalElt(p, kv.Value, st.Field(j).Type()), st.Field(j).Type(), kv.Pos()).T
						found = true
					}
				}
				if !found {
					ex.unsupp(kv.Pos(), "unknown field %s", name)
				}
			} else {
				vals[i] = ex.convert(p, ex.evalElt(p, el, st.Field(i).Type()), st.Field(i).Type(), el.Pos()).T
			}
		}
		return Value{app(mk, vals...), t}
	case *types.Slice, *types.Array:
		et := elemType(t)
		mk, _, _ := ex.c.sliceParts(t)
		arr := ex.c.constArray("Int", ex.c.SortOf(et), ex.c.Zero(et))
		n := 0
		for _, el := range x.Elts {
			if _, ok := el.(*ast.KeyValueExpr); ok {
				ex.unsupp(el.Pos(), "keyed slice literal")
			}
			v := ex.convert(p, ex.evalElt(p, el, et), et, el.Pos())
			arr = "(store " + arr + " " + fmt.Sprint(n) + " " + v.T + ")"
			n++
		}
		if a, ok := ut.(*types.Array); ok {
			n = int(a.Len())
		}
		return Value{app(mk, arr, fmt.Sprint(n)), t}
	case *types.Map:
		mk, _, _, _ := ex.c.mapParts(t)
		dom := ex.c.constArray(ex.c.SortOf(ut.Key()), "Bool", "false")
		val := ex.c.constArray(ex.c.SortOf(ut.Key()), ex.c.SortOf(ut.Elem()), ex.c.Zero(ut.Elem()))
		for _, el := range x.Elts {
			kv := el.(*ast.KeyValueExpr)
			k := ex.convert(p, ex.evalElt(p, kv.Key, ut.Key()), ut.Key(), kv.Pos())
			v := ex.convert(p, ex.evalElt(p, kv.Value, ut.Elem()), ut.Elem(), kv.Pos())
			dom = "(store " + dom + " " + k.T + " true)"
			val = "(store " + val + " " + k.T + " " + v.T + ")"
		}
		return Value{app(mk, dom, val, "false"), t}
	}
	ex.unsupp(x.Pos(), "composite literal of %s", t)
	return Value{}
}

// evalElt evaluates a composite-literal element whose type may be elided.
func (ex *Exec) evalElt(p *Path, e ast.Expr, t types.Type) Value {
	if cl, ok := e.(*ast.CompositeLit); ok && cl.Type == nil {
		if ptr, isPtr := t.Underlying().(*types.Pointer); isPtr {
			sv := ex.evalComposite(p, cl, ptr.Elem())
			return ex.allocStruct(p, sv, e.Pos())
		}
		return ex.evalComposite(p, cl, t)
	}
	return ex.eval(p, e)
}

// linkErrorMethod: when a repository type with an Error() string method is boxed into an interface, the
// uninterpreted errmsg of the boxed value is the method's result on the current heap.
func (ex *Exec) linkErrorMethod(p *Path, v Value, boxed Value) {
	if ex.linking {
		return
	}
	pkg := pkgOfType(v.Ty)
	if pkg == nil || !ex.w.RepoPaths[pkg.Path()] {
		return
	}
	obj, _, _ := types.LookupFieldOrMethod(v.Ty, true, pkg, "Error")
	fn, ok := obj.(*types.Func)
	if !ok {
		return
	}
	sig := fn.Type().(*types.Signature)
	if sig.Params().Len() != 0 || sig.Results().Len() != 1 || ex.c.SortOf(sig.Results().At(0).Type()) != "String" {
		return
	}
	ex.linking = true
	defer func() { ex.linking = false }()
	saveCM := ex.contractMode
	res := ex.callFunc(p, fn, &v, nil, nil)
	ex.contractMode = saveCM
	if len(res) == 1 {
		ex.assumeFact(p, implies(not(ex.isNilTerm(v)), eq(ex.errMsg(boxed), res[0].T)))
	}
}

func isDigits(s string) bool {
	if s == "" {
		return false
	}
	for _, r := range s {
		if r < '0' || r > '9' {
			return false
		}
	}
	return true
}

// intBits: width and signedness of a basic integer type (ok=false for untyped constants and non-integers).
func intBits(t types.Type) (bits int, signed bool, ok bool) {
	b, isB := t.Underlying().(*types.Basic)
	if !isB {
		return 0, false, false
	}
	switch b.Kind() {
	case types.Int8:
		return 8, true, true
	case types.Int16:
		return 16, true, true
	case types.Int32:
		return 32, true, true
	case types.Int64, types.Int:
		return 64, true, true
	case types.Uint8:
		return 8, false, true
	case types.Uint16:
		return 16, false, true
	case types.Uint32:
		return 32, false, true
	case types.Uint64, types.Uint, types.Uintptr:
		return 64, false, true
	}
	return 0, false, false
}

// wrapInt: the value of converting integer v to integer type `to` when v's type does not fit into it ("" = the
// conversion is value-preserving).
func wrapInt(v Value, to types.Type) string {
	fb, fs, ok1 := intBits(v.Ty)
	tb, ts, ok2 := intBits(to)
	if !ok1 || !ok2 {
		return ""
	}
	// source range within target range?
	if fs == ts && fb <= tb {
		return ""
	}
	if !fs && ts && fb < tb {
		return ""
	}
	pow := func(n int) string {
		r := new(big.Int).Lsh(big.NewInt(1), uint(n))
		return r.String()
	}
	if ts {
		half := pow(tb - 1)
		return "(- (mod (+ " + v.T + " " + half + ") " + pow(tb) + ") " + half + ")"
	}
	return "(mod " + v.T + " " + pow(tb) + ")"
}
