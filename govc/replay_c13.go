package main

// C13 replay family (bounded): the Go output of go-http, go-client and both, together with protoc-gen-go's,
// for a family of accepted definitions, is built and vetted with the real toolchain.

import (
	"fmt"
	"path/filepath"
	"sort"
	"strings"
	"sync"
)

type buildCase struct {
	Name  string
	Build func() *Schema
}

func c13Cases() []buildCase {
	var cases []buildCase
	for _, c := range codecCases() {
		c := c
		cases = append(cases, buildCase{"codec: " + c.Name, func() *Schema { return c.Build(true) }})
		cases = append(cases, buildCase{"codec without services: " + c.Name, func() *Schema { return c.Build(false) }})
	}
	for _, sc := range c16Shapes() {
		if strings.Contains(sc.Name, "go_package") || strings.Contains(sc.Name, "very long") {
			continue
		}
		sc := sc
		cases = append(cases, buildCase{"shape: " + sc.Name, sc.Build})
	}
	cases = append(cases, buildCase{"end-to-end service", c01Schema})
	one := func(name string, build func(f M)) buildCase {
		return buildCase{Name: name, Build: func() *Schema {
			f := protoFile("t/v1/t.proto", "t.v1", "example.com/t/v1;tv1")
			build(f)
			return &Schema{Files: []map[string]any{f}, Generate: []string{"t/v1/t.proto"}}
		}}
	}
	rr := func(f M) {
		addMessage(f, message("Req", field("id", "string")))
		addMessage(f, message("Resp", field("ok", "bool")))
	}
	ts := ".google.protobuf.Timestamp"
	cases = append(cases,
		one("query annotation on a POST request only", func(f M) {
			addMessage(f, message("Req", withOpt(field("q", "string"), "sebuf.http.query", M{"name": "q"})))
			addMessage(f, message("Resp", field("ok", "bool")))
			addService(f, service("S", cfgMethod("Do", ".t.v1.Req", ".t.v1.Resp", "POST", "/do")))
		}),
		one("query annotation on an enum field", func(f M) {
			addEnum(f, M{"name": "Sort", "value": []any{M{"name": "SORT_UNSPECIFIED", "number": 0}, M{"name": "SORT_ASC", "number": 1}}})
			addMessage(f, message("Req", withOpt(enumField("sort", ".t.v1.Sort"), "sebuf.http.query", M{"name": "sort"})))
			addMessage(f, message("Resp", field("ok", "bool")))
			addService(f, service("S", cfgMethod("List", ".t.v1.Req", ".t.v1.Resp", "GET", "/list")))
		}),
		one("query annotation on a repeated string field", func(f M) {
			addMessage(f, message("Req", withOpt(repeated(field("tags", "string")), "sebuf.http.query", M{"name": "tag"})))
			addMessage(f, message("Resp", field("ok", "bool")))
			addService(f, service("S", cfgMethod("List", ".t.v1.Req", ".t.v1.Resp", "GET", "/list")))
		}),
		one("query annotation on an optional scalar field", func(f M) {
			m := message("Req", optionalField(withOpt(field("page", "int32"), "sebuf.http.query", M{"name": "page"}), 0))
			m["oneof_decl"] = []any{M{"name": "_page"}}
			addMessage(f, m)
			addMessage(f, message("Resp", field("ok", "bool")))
			addService(f, service("S", cfgMethod("List", ".t.v1.Req", ".t.v1.Resp", "GET", "/list")))
		}),
		one("no path variables, no query, GET", func(f M) {
			addMessage(f, message("Req"))
			addMessage(f, message("Resp", field("ok", "bool")))
			addService(f, service("S", cfgMethod("Ping", ".t.v1.Req", ".t.v1.Resp", "GET", "/ping")))
		}),
		one("only GET and DELETE methods (no request body anywhere)", func(f M) {
			addMessage(f, message("Req", field("id", "string")))
			addMessage(f, message("Resp", field("ok", "bool")))
			addService(f, service("S", cfgMethod("Get", ".t.v1.Req", ".t.v1.Resp", "GET", "/x/{id}"), cfgMethod("Del", ".t.v1.Req", ".t.v1.Resp", "DELETE", "/x/{id}")))
		}),
		one("identifier spellings", func(f M) {
			addMessage(f, message("Req", field("user_id2", "string"), field("http_url", "string"), field("type", "string"), field("x_y_z", "int32"), field("a1b2", "string")))
			addMessage(f, message("Resp", field("ok", "bool")))
			addService(f, service("HTTPApi", cfgMethod("GetHTTPInfo", ".t.v1.Req", ".t.v1.Resp", "GET", "/i/{user_id2}/{http_url}/{type}/{x_y_z}/{a1b2}"),
				cfgMethod("get_thing", ".t.v1.Req", ".t.v1.Resp", "POST", "/t/{user_id2}")))
		}),
		one("several codec annotations on one message", func(f M) {
			m := message("W", withOpt(field("n", "int64"), "sebuf.http.int64_encoding", "INT64_ENCODING_NUMBER"),
				withOpt(msgField("at", ts), "sebuf.http.timestamp_format", "TIMESTAMP_FORMAT_UNIX_MILLIS"),
				withOpt(field("blob", "bytes"), "sebuf.http.bytes_encoding", "BYTES_ENCODING_HEX"),
				optionalField(withOpt(field("nick", "string"), "sebuf.http.nullable", true), 0))
			m["oneof_decl"] = []any{M{"name": "_nick"}}
			addMessage(f, m)
			addMessage(f, message("Req", field("id", "string")))
			addService(f, service("S", method("Get", ".t.v1.Req", ".t.v1.W")))
		}),
		one("int64 NUMBER on repeated and optional fields", func(f M) {
			m := message("W", withOpt(repeated(field("ns", "int64")), "sebuf.http.int64_encoding", "INT64_ENCODING_NUMBER"),
				optionalField(withOpt(field("opt", "uint64"), "sebuf.http.int64_encoding", "INT64_ENCODING_NUMBER"), 0))
			m["oneof_decl"] = []any{M{"name": "_opt"}}
			addMessage(f, m)
			rr(f)
			addService(f, service("S", method("Get", ".t.v1.Req", ".t.v1.W")))
		}),
		one("bytes_encoding on repeated and optional bytes", func(f M) {
			m := message("W", withOpt(repeated(field("blobs", "bytes")), "sebuf.http.bytes_encoding", "BYTES_ENCODING_BASE64URL"),
				optionalField(withOpt(field("one", "bytes"), "sebuf.http.bytes_encoding", "BYTES_ENCODING_HEX"), 0))
			m["oneof_decl"] = []any{M{"name": "_one"}}
			addMessage(f, m)
			rr(f)
			addService(f, service("S", method("Get", ".t.v1.Req", ".t.v1.W")))
		}),
		one("timestamp_format on repeated timestamps", func(f M) {
			addMessage(f, message("W", withOpt(repeated(msgField("ats", ts)), "sebuf.http.timestamp_format", "TIMESTAMP_FORMAT_UNIX_SECONDS")))
			rr(f)
			addService(f, service("S", method("Get", ".t.v1.Req", ".t.v1.W")))
		}),
		one("enum_encoding NUMBER and custom values on repeated and optional enums", func(f M) {
			addEnum(f, M{"name": "Color", "value": []any{M{"name": "COLOR_UNSPECIFIED", "number": 0}, M{"name": "COLOR_RED", "number": 1, "options": M{"[sebuf.http.enum_value]": "red"}}}})
			m := message("W", repeated(enumField("cs", ".t.v1.Color")), optionalField(enumField("c", ".t.v1.Color"), 0),
				withOpt(enumField("n", ".t.v1.Plain"), "sebuf.http.enum_encoding", "ENUM_ENCODING_NUMBER"))
			m["oneof_decl"] = []any{M{"name": "_c"}}
			addEnum(f, M{"name": "Plain", "value": []any{M{"name": "PLAIN_UNSPECIFIED", "number": 0}, M{"name": "PLAIN_A", "number": 1}}})
			addMessage(f, m)
			rr(f)
			addService(f, service("S", method("Get", ".t.v1.Req", ".t.v1.W")))
		}),
		one("codec annotations on oneof members", func(f M) {
			a := withOpt(field("n", "int64"), "sebuf.http.int64_encoding", "INT64_ENCODING_NUMBER")
			b := withOpt(field("blob", "bytes"), "sebuf.http.bytes_encoding", "BYTES_ENCODING_HEX")
			c := withOpt(msgField("at", ts), "sebuf.http.timestamp_format", "TIMESTAMP_FORMAT_UNIX_MILLIS")
			m := message("W", a, b, c)
			for _, x := range m["field"].([]any) {
				x.(M)["oneof_index"] = 0
			}
			m["oneof_decl"] = []any{M{"name": "pick"}}
			addMessage(f, m)
			rr(f)
			addService(f, service("S", method("Get", ".t.v1.Req", ".t.v1.W")))
		}),
		one("flatten together with a codec annotation in the flattened child", func(f M) {
			addMessage(f, message("Child", withOpt(field("n", "int64"), "sebuf.http.int64_encoding", "INT64_ENCODING_NUMBER"), field("name", "string")))
			addMessage(f, message("W", field("id", "string"), withOpt(withOpt(msgField("child", ".t.v1.Child"), "sebuf.http.flatten", true), "sebuf.http.flatten_prefix", "c_"),
				withOpt(field("big", "int64"), "sebuf.http.int64_encoding", "INT64_ENCODING_NUMBER")))
			rr(f)
			addService(f, service("S", method("Get", ".t.v1.Req", ".t.v1.W")))
		}),
		one("two flatten fields in one message", func(f M) {
			addMessage(f, message("Address", field("street", "string"), field("city", "string")))
			addMessage(f, message("Contact", field("email", "string")))
			addMessage(f, message("W", field("id", "string"),
				withOpt(withOpt(msgField("billing", ".t.v1.Address"), "sebuf.http.flatten", true), "sebuf.http.flatten_prefix", "billing_"),
				withOpt(withOpt(msgField("shipping", ".t.v1.Address"), "sebuf.http.flatten", true), "sebuf.http.flatten_prefix", "shipping_"),
				withOpt(msgField("contact", ".t.v1.Contact"), "sebuf.http.flatten", true)))
			rr(f)
			addService(f, service("S", method("Get", ".t.v1.Req", ".t.v1.W")))
		}),
		one("two discriminated oneofs in one message", func(f M) {
			addMessage(f, message("Text", field("body", "string")))
			addMessage(f, message("Img", field("url", "string")))
			m := message("Ev", field("id", "string"), msgField("text", ".t.v1.Text"), msgField("img", ".t.v1.Img"), msgField("alt_text", ".t.v1.Text"), msgField("alt_img", ".t.v1.Img"))
			fs := m["field"].([]any)
			fs[1].(M)["oneof_index"], fs[2].(M)["oneof_index"] = 0, 0
			fs[3].(M)["oneof_index"], fs[4].(M)["oneof_index"] = 1, 1
			m["oneof_decl"] = []any{M{"name": "content", "options": M{"[sebuf.http.oneof_config]": M{"discriminator": "type"}}}, M{"name": "fallback", "options": M{"[sebuf.http.oneof_config]": M{"discriminator": "fallback_type"}}}}
			addMessage(f, m)
			rr(f)
			addService(f, service("S", method("Get", ".t.v1.Req", ".t.v1.Ev")))
		}),
		one("two messages with the same annotation kind", func(f M) {
			addMessage(f, message("A", withOpt(field("n", "int64"), "sebuf.http.int64_encoding", "INT64_ENCODING_NUMBER"), withOpt(field("m", "uint64"), "sebuf.http.int64_encoding", "INT64_ENCODING_NUMBER")))
			addMessage(f, message("B", withOpt(field("blob", "bytes"), "sebuf.http.bytes_encoding", "BYTES_ENCODING_HEX"), withOpt(field("raw", "bytes"), "sebuf.http.bytes_encoding", "BYTES_ENCODING_BASE64URL_RAW")))
			addMessage(f, message("C", withOpt(msgField("at", ts), "sebuf.http.timestamp_format", "TIMESTAMP_FORMAT_DATE"), withOpt(msgField("until", ts), "sebuf.http.timestamp_format", "TIMESTAMP_FORMAT_UNIX_SECONDS")))
			rr(f)
			addService(f, service("S", method("GetA", ".t.v1.Req", ".t.v1.A"), method("GetB", ".t.v1.Req", ".t.v1.B"), method("GetC", ".t.v1.Req", ".t.v1.C")))
		}),
		one("annotations that only restate the defaults", func(f M) {
			// every annotation set to the value that means "standard proto3 JSON": nothing to convert, so an emitter that still
			// writes a codec file for such a message imports packages no emitted line uses
			addMessage(f, message("Meta", field("k", "string")))
			addMessage(f, message("D", withOpt(msgField("at", ts), "sebuf.http.timestamp_format", "TIMESTAMP_FORMAT_RFC3339"), msgField("plain_at", ts),
				withOpt(field("blob", "bytes"), "sebuf.http.bytes_encoding", "BYTES_ENCODING_BASE64"),
				withOpt(field("n", "int64"), "sebuf.http.int64_encoding", "INT64_ENCODING_STRING"),
				withOpt(msgField("meta", ".t.v1.Meta"), "sebuf.http.empty_behavior", "EMPTY_BEHAVIOR_PRESERVE")))
			rr(f)
			addService(f, service("S", method("Get", ".t.v1.Req", ".t.v1.D")))
		}),
		one("empty_behavior variants on several fields", func(f M) {
			addMessage(f, message("Meta", field("k", "string")))
			addMessage(f, message("W", withOpt(msgField("a", ".t.v1.Meta"), "sebuf.http.empty_behavior", "EMPTY_BEHAVIOR_NULL"),
				withOpt(msgField("b", ".t.v1.Meta"), "sebuf.http.empty_behavior", "EMPTY_BEHAVIOR_OMIT"),
				withOpt(msgField("c", ".t.v1.Meta"), "sebuf.http.empty_behavior", "EMPTY_BEHAVIOR_PRESERVE")))
			rr(f)
			addService(f, service("S", method("Get", ".t.v1.Req", ".t.v1.W")))
		}),
		one("oneof discriminator with other annotations", func(f M) {
			addMessage(f, message("Text", field("body", "string")))
			addMessage(f, message("Img", field("url", "string"), withOpt(field("size", "int64"), "sebuf.http.int64_encoding", "INT64_ENCODING_NUMBER")))
			m := message("Ev", field("id", "string"), msgField("text", ".t.v1.Text"), msgField("img", ".t.v1.Img"))
			fs := m["field"].([]any)
			fs[1].(M)["oneof_index"] = 0
			fs[2].(M)["oneof_index"] = 0
			m["oneof_decl"] = []any{M{"name": "content", "options": M{"[sebuf.http.oneof_config]": M{"discriminator": "type", "flatten": true}}}}
			addMessage(f, m)
			rr(f)
			addService(f, service("S", method("Get", ".t.v1.Req", ".t.v1.Ev")))
		}),
		one("discriminated oneof whose variant messages are nested in the owning message", func(f M) {
			// protoc-gen-go renames the wrapper (Ev_Text_) because Ev_Text is the nested message
			m := message("Ev", field("id", "string"), msgField("text", ".t.v1.Ev.Text"), msgField("image", ".t.v1.Ev.Image"))
			m["nested_type"] = []any{message("Text", field("body", "string")), message("Image", field("url", "string"))}
			fs := m["field"].([]any)
			fs[1].(M)["oneof_index"], fs[2].(M)["oneof_index"] = 0, 0
			m["oneof_decl"] = []any{M{"name": "content", "options": M{"[sebuf.http.oneof_config]": M{"discriminator": "type", "flatten": true}}}}
			addMessage(f, m)
			n := message("Notice", field("id", "string"), msgField("mail", ".t.v1.Notice.Mail"), field("plain", "string"))
			n["nested_type"] = []any{message("Mail", field("to", "string"))}
			nfs := n["field"].([]any)
			nfs[1].(M)["oneof_index"], nfs[2].(M)["oneof_index"] = 0, 0
			n["oneof_decl"] = []any{M{"name": "via"}}
			addMessage(f, n)
			n2 := message("Note2", field("id", "string"), msgField("mail", ".t.v1.Note2.Mail"), msgField("other", ".t.v1.Req"))
			n2["nested_type"] = []any{message("Mail", field("to", "string"))}
			n2fs := n2["field"].([]any)
			n2fs[1].(M)["oneof_index"], n2fs[2].(M)["oneof_index"] = 0, 0
			n2["oneof_decl"] = []any{M{"name": "via", "options": M{"[sebuf.http.oneof_config]": M{"discriminator": "kind"}}}}
			addMessage(f, n2)
			rr(f)
			addService(f, service("S", method("Get", ".t.v1.Req", ".t.v1.Ev"), method("GetN", ".t.v1.Req", ".t.v1.Note2")))
		}),
		one("method and service headers", func(f M) {
			rr(f)
			m := cfgMethod("Get", ".t.v1.Req", ".t.v1.Resp", "GET", "/x/{id}")
			m["options"].(M)["[sebuf.http.method_headers]"] = M{"required_headers": []any{M{"name": "X-Request-ID", "type": "string", "format": "uuid", "required": true}, M{"name": "X-Trace", "type": "integer"}}}
			s := service("S", m)
			s["options"] = M{"[sebuf.http.service_headers]": M{"required_headers": []any{M{"name": "X-API-Key", "type": "string", "required": true}}}}
			addService(f, s)
		}),
		buildCase{Name: "cross-file request and response types", Build: func() *Schema {
			lib := protoFile("lib/v1/lib.proto", "lib.v1", "example.com/lib/v1;libv1")
			addMessage(lib, message("Shared", field("v", "string"), withOpt(field("n", "int64"), "sebuf.http.int64_encoding", "INT64_ENCODING_NUMBER")))
			f := protoFile("t/v1/t.proto", "t.v1", "example.com/t/v1;tv1")
			f["dependency"] = []any{"lib/v1/lib.proto"}
			addMessage(f, message("Req", field("id", "string"), msgField("s", ".lib.v1.Shared")))
			addService(f, service("S", cfgMethod("Get", ".t.v1.Req", ".lib.v1.Shared", "POST", "/x/{id}")))
			return &Schema{Files: []map[string]any{lib, f}, Generate: []string{"t/v1/t.proto"}}
		}},
		buildCase{Name: "cross-package types in every position", Build: func() *Schema {
			// messages of a sibling Go package as request, response, flattened child and oneof variants: every emitted mention
			// of such a type has to be import-qualified
			lib := protoFile("lib/v1/lib.proto", "lib.v1", "example.com/lib/v1;libv1")
			addMessage(lib, message("Address", field("street", "string"), field("city", "string")))
			addMessage(lib, message("Text", field("body", "string")))
			addMessage(lib, message("Img", field("url", "string")))
			addMessage(lib, message("Ping", field("id", "string")))
			f := protoFile("t/v1/t.proto", "t.v1", "example.com/t/v1;tv1")
			f["dependency"] = []any{"lib/v1/lib.proto", "google/protobuf/empty.proto"}
			addMessage(f, message("Req", field("id", "string")))
			addMessage(f, message("Person", field("name", "string"), withOpt(withOpt(msgField("home", ".lib.v1.Address"), "sebuf.http.flatten", true), "sebuf.http.flatten_prefix", "home_")))
			m := message("Ev", field("id", "string"), msgField("text", ".lib.v1.Text"), msgField("img", ".lib.v1.Img"))
			fs := m["field"].([]any)
			fs[1].(M)["oneof_index"], fs[2].(M)["oneof_index"] = 0, 0
			m["oneof_decl"] = []any{M{"name": "content", "options": M{"[sebuf.http.oneof_config]": M{"discriminator": "type", "flatten": true}}}}
			addMessage(f, m)
			n := message("Note", field("id", "string"), msgField("text", ".lib.v1.Text"), msgField("img", ".lib.v1.Img"))
			nfs := n["field"].([]any)
			nfs[1].(M)["oneof_index"], nfs[2].(M)["oneof_index"] = 0, 0
			n["oneof_decl"] = []any{M{"name": "content", "options": M{"[sebuf.http.oneof_config]": M{"discriminator": "kind"}}}}
			addMessage(f, n)
			addMessage(f, message("Tags", withOpt(repeated(field("values", "string")), "sebuf.http.unwrap", true)))
			addMessage(f, message("Places", withOpt(repeated(msgField("items", ".lib.v1.Address")), "sebuf.http.unwrap", true)))
			idx := message("Index", msgField("origin", ".lib.v1.Address"), repeated(msgField("stops", ".lib.v1.Address")))
			addMapField("t.v1", idx, "by_key", msgField("value", ".t.v1.Tags"), 3)
			addMapField("t.v1", idx, "by_town", msgField("value", ".t.v1.Places"), 4)
			addMessage(f, idx)
			addService(f, service("S",
				cfgMethod("GetIndex", ".t.v1.Req", ".t.v1.Index", "GET", "/i/{id}"),
				cfgMethod("GetPerson", ".t.v1.Req", ".t.v1.Person", "GET", "/p/{id}"),
				cfgMethod("GetEv", ".t.v1.Req", ".t.v1.Ev", "GET", "/e/{id}"),
				cfgMethod("GetNote", ".t.v1.Req", ".t.v1.Note", "GET", "/n/{id}"),
				cfgMethod("Ping", ".lib.v1.Ping", ".google.protobuf.Empty", "POST", "/ping"),
				cfgMethod("Del", ".t.v1.Req", ".google.protobuf.Empty", "DELETE", "/p/{id}")))
			return &Schema{Files: []map[string]any{lib, f}, Generate: []string{"t/v1/t.proto"}}
		}},
	)
	return cases
}

type buildProblem struct {
	Case, Plugins, Stage, Class, Detail string
}

// classifyBuildError: a coarse class for known-finding bookkeeping (first compiler message, identifiers removed).
func classifyBuildError(out string) string {
	for _, l := range strings.Split(out, "\n") {
		l = strings.TrimSpace(l)
		if l == "" || strings.HasPrefix(l, "#") || strings.HasPrefix(l, "go: ") {
			continue
		}
		switch {
		case strings.Contains(l, "imported and not used"):
			return "unused-import"
		case strings.Contains(l, "redeclared") || strings.Contains(l, "already declared"):
			return "redeclared"
		case strings.Contains(l, "undefined:"):
			return "undefined"
		case strings.Contains(l, "cannot use") || strings.Contains(l, "mismatched types") || strings.Contains(l, "invalid operation"):
			return "type-mismatch"
		case strings.Contains(l, "syntax error") || strings.Contains(l, "expected"):
			return "syntax"
		}
		return "other"
	}
	return "other"
}

func runC13Family() (runs int, problems []buildProblem, err error) {
	return runBuildFamily("c13", c13Cases(), [][]string{{"protoc-gen-go-http"}, {"protoc-gen-go-client"}, {"protoc-gen-go-http", "protoc-gen-go-client"}}, nil)
}

// runBuildFamily emits, builds and vets one package per (definition, plugin subset).
func runBuildFamily(tag string, cases []buildCase, subsets [][]string, params map[string]string) (runs int, problems []buildProblem, err error) {
	var mu sync.Mutex
	var wg sync.WaitGroup
	sem := make(chan struct{}, 6)
	for ci, c := range cases {
		for si, sub := range subsets {
			c, sub, ci, si := c, sub, ci, si
			wg.Add(1)
			go func() {
				defer wg.Done()
				sem <- struct{}{}
				defer func() { <-sem }()
				label := strings.ReplaceAll(strings.Join(sub, "+"), "protoc-gen-", "")
				pkgDir, outs, eerr := EmitPackage(c.Build(), fmt.Sprintf("%s-%d-%d", tag, ci, si), sub, params)
				mu.Lock()
				runs++
				mu.Unlock()
				if eerr != nil {
					refused := false
					for _, o := range outs {
						if o != nil && (o.Error != "" || strings.HasPrefix(o.Crash, "exit status 1:")) {
							refused = true
						}
					}
					if !refused {
						mu.Lock()
						problems = append(problems, buildProblem{c.Name, label, "emit", "harness", eerr.Error()})
						mu.Unlock()
					}
					return // the definition is not accepted by this plugin set: outside the property
				}
				modRoot := pkgDir
				for filepath.Base(modRoot) != "example.com" && modRoot != "/" {
					modRoot = filepath.Dir(modRoot)
				}
				for _, stage := range [][]string{{"build", "./..."}, {"vet", "./..."}} {
					out, berr := runCmd(modRoot, nil, "go", append([]string{stage[0]}, stage[1:]...)...)
					if berr != nil {
						text := string(out) + "\n" + berr.Error()
						mu.Lock()
						problems = append(problems, buildProblem{c.Name, label, stage[0], classifyBuildError(text), firstLines(text, 6)})
						mu.Unlock()
						break
					}
				}
			}()
		}
	}
	wg.Wait()
	sort.Slice(problems, func(i, j int) bool {
		return problems[i].Case+problems[i].Plugins+problems[i].Stage < problems[j].Case+problems[j].Plugins+problems[j].Stage
	})
	return runs, problems, nil
}

func init() {
	knownCases := func() map[string]bool {
		kf, _ := loadKnownFindings()
		k := map[string]bool{}
		for _, f := range kf {
			if f.Property == "C13" && f.Status == "known" {
				for _, c := range strings.Split(f.FamilyClass, ",") {
					if c = strings.TrimSpace(c); c != "" {
						k[c] = true
					}
				}
			}
		}
		return k
	}
	key := func(p buildProblem) string { return p.Class + "@" + p.Case + "@" + p.Plugins }
	replayers["c13-build"] = func(w *World, v violation) map[string]any {
		runs, probs, err := runC13Family()
		res := map[string]any{"packages_built": runs}
		if err != nil {
			res["confirmed"] = false
			res["reason"] = err.Error()
			return res
		}
		k := knownCases()
		var fresh []buildProblem
		for _, p := range probs {
			if !k[key(p)] && !k[p.Class+"@"+p.Case] {
				fresh = append(fresh, p)
			}
		}
		res["confirmed"] = len(fresh) > 0
		if len(fresh) > 6 {
			fresh = fresh[:6]
		}
		res["build_failures_not_listed_as_known"] = fresh
		if len(fresh) == 0 {
			res["reason"] = "every package of the family builds and vets (apart from failures recorded as known findings)"
		}
		return res
	}
	boundedChecks["c13-build"] = func(w *World, seed int64) map[string]any {
		runs, probs, err := runC13Family()
		out := map[string]any{"name": "c13-build", "bounded": true, "bound": fmt.Sprintf("%d definitions x {go-http, go-client, both}: go build + go vet of the emitted package with protoc-gen-go's output", len(c13Cases())), "packages": runs}
		if err != nil {
			out["status"] = "error: " + err.Error()
			return out
		}
		var fails []map[string]any
		for _, p := range probs {
			fails = append(fails, map[string]any{"name": "C13.family." + p.Class + "@" + p.Case, "case": p.Case + " [" + p.Plugins + "]", "observed": p.Stage + ": " + p.Detail, "parameter": ""})
		}
		out["failures"] = fails
		out["status"] = "ran"
		return out
	}
	debugCmds["c13family"] = func(args []string) int {
		runs, probs, err := runC13Family()
		fmt.Println("runs:", runs, "err:", err)
		for _, p := range probs {
			fmt.Printf("%-14s %-70s %-22s %s: %s\n", p.Class, p.Case, p.Plugins, p.Stage, strings.ReplaceAll(firstLines(p.Detail, 3), "\n", " | "))
		}
		return 0
	}
}

// c13MatrixCases: every codec annotation on every cardinality (singular, proto3 optional, repeated, map value,
// oneof member). Definitions the plugins refuse are outside the property and skipped by the family runner.
func c13MatrixCases() []buildCase {
	type anno struct {
		name string
		mk   func() M // the annotated field (singular form), named "v"
		pre  func(f M) // extra declarations
	}
	ts := ".google.protobuf.Timestamp"
	annos := []anno{
		{"int64 NUMBER", func() M { return withOpt(field("v", "int64"), "sebuf.http.int64_encoding", "INT64_ENCODING_NUMBER") }, nil},
		{"uint64 NUMBER", func() M { return withOpt(field("v", "uint64"), "sebuf.http.int64_encoding", "INT64_ENCODING_NUMBER") }, nil},
		{"sfixed64 NUMBER", func() M { return withOpt(field("v", "sfixed64"), "sebuf.http.int64_encoding", "INT64_ENCODING_NUMBER") }, nil},
		{"int64 STRING", func() M { return withOpt(field("v", "int64"), "sebuf.http.int64_encoding", "INT64_ENCODING_STRING") }, nil},
		{"bytes HEX", func() M { return withOpt(field("v", "bytes"), "sebuf.http.bytes_encoding", "BYTES_ENCODING_HEX") }, nil},
		{"bytes BASE64_RAW", func() M { return withOpt(field("v", "bytes"), "sebuf.http.bytes_encoding", "BYTES_ENCODING_BASE64_RAW") }, nil},
		{"timestamp UNIX_SECONDS", func() M { return withOpt(msgField("v", ts), "sebuf.http.timestamp_format", "TIMESTAMP_FORMAT_UNIX_SECONDS") }, nil},
		{"timestamp DATE", func() M { return withOpt(msgField("v", ts), "sebuf.http.timestamp_format", "TIMESTAMP_FORMAT_DATE") }, nil},
		{"enum NUMBER", func() M { return withOpt(enumField("v", ".t.v1.Plain"), "sebuf.http.enum_encoding", "ENUM_ENCODING_NUMBER") }, func(f M) {
			addEnum(f, M{"name": "Plain", "value": []any{M{"name": "PLAIN_UNSPECIFIED", "number": 0}, M{"name": "PLAIN_A", "number": 1}}})
		}},
		{"enum custom values", func() M { return enumField("v", ".t.v1.Color") }, func(f M) {
			addEnum(f, M{"name": "Color", "value": []any{M{"name": "COLOR_UNSPECIFIED", "number": 0}, M{"name": "COLOR_RED", "number": 1, "options": M{"[sebuf.http.enum_value]": "red"}}}})
		}},
		{"empty_behavior NULL", func() M { return withOpt(msgField("v", ".t.v1.Meta"), "sebuf.http.empty_behavior", "EMPTY_BEHAVIOR_NULL") }, func(f M) {
			addMessage(f, message("Meta", field("k", "string")))
		}},
		{"empty_behavior OMIT", func() M { return withOpt(msgField("v", ".t.v1.Meta"), "sebuf.http.empty_behavior", "EMPTY_BEHAVIOR_OMIT") }, func(f M) {
			addMessage(f, message("Meta", field("k", "string")))
		}},
		{"flatten", func() M { return withOpt(withOpt(msgField("v", ".t.v1.Meta"), "sebuf.http.flatten", true), "sebuf.http.flatten_prefix", "m_") }, func(f M) {
			addMessage(f, message("Meta", field("k", "string")))
		}},
		{"nullable", func() M { return withOpt(field("v", "string"), "sebuf.http.nullable", true) }, nil},
	}
	var cases []buildCase
	for _, a := range annos {
		for _, card := range []string{"singular", "optional", "repeated", "map value", "oneof member"} {
			a, card := a, card
			cases = append(cases, buildCase{Name: "matrix: " + a.name + " / " + card, Build: func() *Schema {
				f := protoFile("t/v1/t.proto", "t.v1", "example.com/t/v1;tv1")
				if a.pre != nil {
					a.pre(f)
				}
				w := message("W", field("label", "string"))
				v := a.mk()
				v["number"] = 2
				switch card {
				case "singular":
					w["field"] = append(w["field"].([]any), v)
				case "optional":
					w["field"] = append(w["field"].([]any), optionalField(v, 0))
					w["oneof_decl"] = []any{M{"name": "_v"}}
				case "repeated":
					w["field"] = append(w["field"].([]any), repeated(v))
				case "map value":
					// protoc puts the options of `map<string, T> v = 2 [...]` on the map field, not on the entry's value field
					opts := v["options"]
					delete(v, "options")
					addMapField("t.v1", w, "v", v, 2)
					if opts != nil {
						fs := w["field"].([]any)
						fs[len(fs)-1].(M)["options"] = opts
					}
				case "oneof member":
					v["oneof_index"] = 0
					o := field("other", "string")
					o["number"] = 3
					o["oneof_index"] = 0
					w["field"] = append(w["field"].([]any), v, o)
					w["oneof_decl"] = []any{M{"name": "pick"}}
				}
				addMessage(f, w)
				addMessage(f, message("Req", field("id", "string")))
				addService(f, service("S", method("Get", ".t.v1.Req", ".t.v1.W")))
				return &Schema{Files: []map[string]any{f}, Generate: []string{"t/v1/t.proto"}}
			}})
		}
	}
	return cases
}

// matrixRoot: the root cause under which a failing matrix member is recorded (annotation family + cardinality).
func matrixRoot(caseName string) string {
	n := strings.TrimPrefix(caseName, "matrix: ")
	parts := strings.SplitN(n, " / ", 2)
	if len(parts) != 2 {
		return n
	}
	fam := strings.Fields(parts[0])[0]
	if fam == "uint64" || fam == "sfixed64" {
		fam = "int64"
	}
	if parts[1] == "oneof member" {
		return "matrix:codec annotation on a oneof member"
	}
	return "matrix:" + fam + " annotation on " + parts[1] + " field"
}

func init() {
	boundedChecks["c13-matrix"] = func(w *World, seed int64) map[string]any {
		runs, probs, err := runBuildFamily("c13m", c13MatrixCases(), [][]string{{"protoc-gen-go-http"}, {"protoc-gen-go-client"}, {"protoc-gen-go-http", "protoc-gen-go-client"}}, nil)
		out := map[string]any{"name": "c13-matrix", "bounded": true, "bound": fmt.Sprintf("%d definitions (14 codec annotations x 5 cardinalities) x {go-http, go-client, both}: go build + go vet", len(c13MatrixCases())), "packages": runs}
		if err != nil {
			out["status"] = "error: " + err.Error()
			return out
		}
		by := map[string][]string{}
		for _, p := range probs {
			r := matrixRoot(p.Case)
			if len(by[r]) < 4 {
				by[r] = append(by[r], p.Case+" ["+p.Plugins+"] "+p.Stage+": "+firstLines(p.Detail, 2))
			}
		}
		var ks []string
		for k := range by {
			ks = append(ks, k)
		}
		sort.Strings(ks)
		var fails []map[string]any
		for _, k := range ks {
			fails = append(fails, map[string]any{"name": "C13.family." + k, "case": k, "observed": strings.Join(by[k], " || "), "parameter": ""})
		}
		out["failures"] = fails
		out["status"] = "ran"
		return out
	}
	debugCmds["c13matrix"] = func(args []string) int {
		runs, probs, err := runBuildFamily("c13m", c13MatrixCases(), [][]string{{"protoc-gen-go-http"}, {"protoc-gen-go-client"}}, nil)
		fmt.Println("runs:", runs, "err:", err)
		for _, p := range probs {
			fmt.Printf("%-14s %-50s %-12s %s: %s\n", p.Class, p.Case, p.Plugins, p.Stage, strings.ReplaceAll(firstLines(p.Detail, 2), "\n", " | "))
		}
		return 0
	}
}
