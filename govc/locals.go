package main

// Renamed locals: contracts (loop invariants, at-call clauses) may mention local variables of the function under
// verification. A rename of such a local is a harmless edit; to keep it from unbinding the contract, every local a
// unit declares is recorded (spec/locals.json: declaration ordinal in source order and type, taken on the tree the
// contracts were written against). A name that no longer resolves is looked up there and bound to the local with the
// same ordinal and type. Rebinding cannot make a wrong program verify: invariants and clauses are proved, never
// assumed, whatever they are bound to.

import (
	"bytes"
	"go/printer"
	"go/token"
	"encoding/json"
	"fmt"
	"go/ast"
	"go/types"
	"os"
	"path/filepath"
	"sort"
	"sync"
)

type localRec struct {
	Ord  int    `json:"ord"`
	Type string `json:"type"`
}

var localsSnapshot map[string]map[string][]localRec
var localsOnce sync.Once

func loadLocalsSnapshot() map[string]map[string][]localRec {
	localsOnce.Do(func() {
		data, err := os.ReadFile(filepath.Join(verifDir(), "spec", "locals.json"))
		if err != nil {
			return
		}
		json.Unmarshal(data, &localsSnapshot)
	})
	return localsSnapshot
}

// localOrdinals numbers the variables a function body declares, in source order.
func localOrdinals(info *types.Info, body ast.Node) (map[types.Object]int, []*types.Var) {
	ord := map[types.Object]int{}
	var list []*types.Var
	if body == nil {
		return ord, nil
	}
	ast.Inspect(body, func(n ast.Node) bool {
		id, ok := n.(*ast.Ident)
		if !ok {
			return true
		}
		if v, ok := info.Defs[id].(*types.Var); ok && !v.IsField() {
			if _, seen := ord[v]; !seen {
				ord[v] = len(list)
				list = append(list, v)
			}
		}
		return true
	})
	return ord, list
}

func typeKey(t types.Type) string {
	return types.TypeString(t, func(p *types.Package) string { return p.Path() })
}

// reboundLocal: the current value of the local that the snapshot knows under a name the code no longer has.
func (ex *Exec) reboundLocal(p *Path, name string) (Value, bool) {
	snap := loadLocalsSnapshot()
	if snap == nil || ex.localOrd == nil {
		return Value{}, false
	}
	recs := snap[ex.funcKey][name]
	var best types.Object
	for _, r := range recs {
		for o := range p.vars {
			if n, ok := ex.localOrd[o]; ok && n == r.Ord && typeKey(o.Type()) == r.Type {
				if best == nil || o.Pos() > best.Pos() {
					best = o
				}
			}
		}
	}
	if best == nil {
		return Value{}, false
	}
	ex.note("contract name %q no longer exists in %s: bound to the local %q (same declaration ordinal and type in spec/locals.json)", name, ex.funcKey, best.Name())
	return p.vars[best], true
}

// loopSignature: what a loop ranges over / tests, as source text (used to recognise loops that were merely reordered).
func loopSignature(fset *token.FileSet, n ast.Node) string {
	var e ast.Node
	switch l := n.(type) {
	case *ast.RangeStmt:
		e = l.X
	case *ast.ForStmt:
		if l.Cond == nil {
			return "for"
		}
		e = l.Cond
	}
	var b bytes.Buffer
	printer.Fprint(&b, fset, e)
	return b.String()
}

var loopsOnce sync.Once
var loopsSnapshot map[string][]string

func loadLoopsSnapshot() map[string][]string {
	loopsOnce.Do(func() {
		data, err := os.ReadFile(filepath.Join(verifDir(), "spec", "loops.json"))
		if err != nil {
			return
		}
		json.Unmarshal(data, &loopsSnapshot)
	})
	return loopsSnapshot
}

// remapLoopOrdinals: if the unit's loops are exactly the recorded ones in another order (every signature unique), each
// loop keeps the ordinal it had when the contract was written, so `loop N invariant` and `_iN` still mean the same loop.
func (ex *Exec) remapLoopOrdinals(body ast.Node) {
	snap := loadLoopsSnapshot()
	want := snap[ex.funcKey]
	if len(want) == 0 || len(want) != len(ex.loopOrdinals) {
		return
	}
	cur := make([]string, len(want))
	nodes := make([]ast.Node, len(want))
	for n, ord := range ex.loopOrdinals {
		if ord < 1 || ord > len(want) {
			return
		}
		cur[ord-1] = loopSignature(ex.w.Fset, n)
		nodes[ord-1] = n
	}
	same := true
	for i := range want {
		if want[i] != cur[i] {
			same = false
		}
	}
	if same {
		return
	}
	pos := map[string]int{}
	for i, s := range want {
		if _, dup := pos[s]; dup {
			return
		}
		pos[s] = i
	}
	seen := map[string]bool{}
	for _, s := range cur {
		if _, ok := pos[s]; !ok || seen[s] {
			return
		}
		seen[s] = true
	}
	for i, s := range cur {
		ex.loopOrdinals[nodes[i]] = pos[s] + 1
	}
	ex.note("the loops of %s were reordered: invariants follow the loops they were written for (spec/loops.json)", ex.funcKey)
}

func init() {
	debugCmds["snapshot-locals"] = func(args []string) int {
		w := loadAll()
		if err := w.LoadEmitted(); err != nil {
			fmt.Println("emitted:", err)
			return 1
		}
		out := map[string]map[string][]localRec{}
		loopsOut := map[string][]string{}
		var keys []string
		for k := range w.Contracts {
			keys = append(keys, k)
		}
		sort.Strings(keys)
		for _, k := range keys {
			c := w.Contracts[k]
			var fi *FuncInfo
			if c.Emitted {
				fi = w.LookupEmitted(trimEmitted(c.Key))
			} else {
				fi = w.LookupFunc(k)
			}
			if fi == nil || fi.Decl.Body == nil {
				continue
			}
			if len(c.Loops) > 0 {
				var sigs []string
				ast.Inspect(fi.Decl.Body, func(n ast.Node) bool {
					switch n.(type) {
					case *ast.RangeStmt, *ast.ForStmt:
						sigs = append(sigs, loopSignature(w.Fset, n))
					}
					return true
				})
				loopsOut[c.Key] = sigs
				if !c.Emitted {
					var flat, own []string
					for i, fl := range w.flatLoops(fi, fi.Decl.Body) {
						flat = append(flat, fl.sig)
						if fl.own {
							own = append(own, fmt.Sprint(i))
						}
					}
					if len(own) == len(sigs) {
						loopsOut[c.Key+"#flat"] = flat
						loopsOut[c.Key+"#own"] = own
					}
				}
			}
			_, list := localOrdinals(fi.Pkg.TypesInfo, fi.Decl.Body)
			if len(list) == 0 {
				continue
			}
			m := map[string][]localRec{}
			for i, v := range list {
				if v.Name() == "_" {
					continue
				}
				m[v.Name()] = append(m[v.Name()], localRec{i, typeKey(v.Type())})
			}
			out[c.Key] = m
		}
		data, _ := json.MarshalIndent(out, "", " ")
		p := filepath.Join(verifDir(), "spec", "locals.json")
		if err := os.WriteFile(p, data, 0o644); err != nil {
			fmt.Println(err)
			return 1
		}
		ldata, _ := json.MarshalIndent(loopsOut, "", " ")
		os.WriteFile(filepath.Join(verifDir(), "spec", "loops.json"), ldata, 0o644)
		fmt.Println("wrote", p, "units:", len(out), "loop signatures:", len(loopsOut))
		return 0
	}
}

func trimEmitted(k string) string {
	if len(k) > 8 && k[:8] == "emitted." {
		return k[8:]
	}
	return k
}

// ---------------------------------------------------------------------------------------
// Loops that move between a unit and the helpers inlined into it. A refactoring that extracts the part of a function
// containing a loop under invariant into a (contract-less, same-package) helper - or inlines such a helper back - leaves the
// *flattened* sequence of loops unchanged: the unit's loops in source order with the loops of every contract-less
// same-package callee spliced in at its first call. That sequence is recorded with the positions of the unit's own loops
// (spec/loops.json, key "<unit>#flat"); when the unit's own loops no longer match but the flattened sequence does (up to the last loop under invariant), each
// invariant follows its loop to wherever it now lives. Invariants are proved wherever they are attached, never assumed, so
// this cannot make a wrong program verify.

type flatLoop struct {
	node ast.Node
	sig  string
	own  bool
}

func (w *World) flatLoops(fi *FuncInfo, body ast.Node) []flatLoop {
	var out []flatLoop
	seen := map[*types.Func]bool{fi.Obj: true}
	var walk func(f *FuncInfo, b ast.Node, depth int, own bool)
	walk = func(f *FuncInfo, b ast.Node, depth int, own bool) {
		info := f.Pkg.TypesInfo
		ast.Inspect(b, func(n ast.Node) bool {
			switch x := n.(type) {
			case *ast.RangeStmt, *ast.ForStmt:
				out = append(out, flatLoop{n, loopSignature(w.Fset, n), own})
			case *ast.CallExpr:
				var callee *types.Func
				switch fn := unparen(x.Fun).(type) {
				case *ast.Ident:
					callee, _ = info.Uses[fn].(*types.Func)
				case *ast.SelectorExpr:
					callee, _ = info.Uses[fn.Sel].(*types.Func)
				}
				if callee == nil || callee.Pkg() != f.Obj.Pkg() || seen[callee] || depth >= 3 {
					return true
				}
				g := w.Funcs[callee.FullName()]
				if g == nil || g.Decl == nil || g.Decl.Body == nil || w.contractFor(g) != nil {
					return true
				}
				seen[callee] = true
				// arguments first (source order), then the callee's body
				for _, a := range x.Args {
					walk(f, a, depth, own)
				}
				walk(g, g.Decl.Body, depth+1, false)
				return false
			}
			return true
		})
	}
	walk(fi, body, 0, true)
	return out
}

// remapMovedLoops: see above. Returns true if invariants were re-attached.
func (ex *Exec) remapMovedLoops(fi *FuncInfo, body ast.Node) bool {
	snap := loadLoopsSnapshot()
	want := snap[ex.funcKey]
	wantFlat := snap[ex.funcKey+"#flat"]
	wantOwn := snap[ex.funcKey+"#own"]
	if len(want) == 0 || len(wantFlat) == 0 || len(wantOwn) != len(want) {
		return false
	}
	// the unit's own loops still as recorded: nothing to do
	var ownNow []string
	for _, fl := range ex.w.flatLoops(fi, body) {
		if fl.own {
			ownNow = append(ownNow, fl.sig)
		}
	}
	if len(ownNow) == len(want) {
		same := true
		for i := range want {
			if want[i] != ownNow[i] {
				same = false
			}
		}
		if same {
			return false
		}
	}
	cur := ex.w.flatLoops(fi, body)
	if os.Getenv("GOVC_DEBUG_LOOPS") != "" {
		var cs []string
		for _, c := range cur {
			cs = append(cs, c.sig)
		}
		fmt.Println("LOOPS", ex.funcKey, "recorded", wantFlat, "current", cs)
	}
	// the sequences must agree up to the last loop that carries an invariant (what comes after it may have been
	// refactored independently)
	last := -1
	for _, posText := range wantOwn {
		var pos int
		fmt.Sscan(posText, &pos)
		if pos > last {
			last = pos
		}
	}
	if last < 0 || last >= len(cur) || last >= len(wantFlat) {
		return false
	}
	for i := 0; i <= last; i++ {
		if cur[i].sig != wantFlat[i] {
			return false
		}
	}
	// every loop of the unit proper loses its ordinal, then the recorded own positions get theirs back
	for n := range ex.loopOrdinals {
		ex.loopOrdinals[n] = 0
	}
	ex.movedLoops = map[ast.Node]bool{}
	for k, posText := range wantOwn {
		var pos int
		fmt.Sscan(posText, &pos)
		if pos < 0 || pos >= len(cur) {
			return false
		}
		ex.loopOrdinals[cur[pos].node] = k + 1
		if !cur[pos].own {
			ex.movedLoops[cur[pos].node] = true
		}
	}
	ex.note("loops of %s moved between the function and its inlined helpers: invariants follow the loops they were written for (spec/loops.json, flattened sequence unchanged)", ex.funcKey)
	return true
}
