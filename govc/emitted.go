package main

import "fmt"

// LoadEmitted extracts the emitted constant templates by running the working-tree plugins (see extract.go).
func (w *World) LoadEmitted() error {
	return fmt.Errorf("not implemented yet")
}

func (w *World) LookupEmitted(name string) *FuncInfo { return nil }
