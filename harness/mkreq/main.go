// mkreq: builds protoc CodeGeneratorRequests from protojson FileDescriptorProtos (no protoc needed)
// and decodes CodeGeneratorResponses. Built against the repository under verification (replace directive).
package main

import (
	"encoding/json"
	"fmt"
	"io"
	"os"
	"sort"

	_ "buf.build/gen/go/bufbuild/protovalidate/protocolbuffers/go/buf/validate"
	"google.golang.org/protobuf/encoding/protojson"
	"google.golang.org/protobuf/proto"
	"google.golang.org/protobuf/reflect/protodesc"
	"google.golang.org/protobuf/reflect/protoreflect"
	"google.golang.org/protobuf/reflect/protoregistry"
	"google.golang.org/protobuf/types/descriptorpb"
	_ "google.golang.org/protobuf/types/known/anypb"
	_ "google.golang.org/protobuf/types/known/durationpb"
	_ "google.golang.org/protobuf/types/known/emptypb"
	_ "google.golang.org/protobuf/types/known/structpb"
	_ "google.golang.org/protobuf/types/known/timestamppb"
	_ "google.golang.org/protobuf/types/known/wrapperspb"
	"google.golang.org/protobuf/types/pluginpb"

	sebufhttp "github.com/SebastienMelki/sebuf/http"
)

type input struct {
	Files     []json.RawMessage `json:"files"`
	Generate  []string          `json:"generate"`
	Parameter string            `json:"parameter"`
}

type outFile struct {
	Name    string `json:"name"`
	Content string `json:"content"`
}

type output struct {
	Error string    `json:"error,omitempty"`
	Files []outFile `json:"files"`
}

func die(format string, args ...any) {
	fmt.Fprintf(os.Stderr, format+"\n", args...)
	os.Exit(1)
}

func addWithDeps(fd protoreflect.FileDescriptor, seen map[string]bool, out *[]*descriptorpb.FileDescriptorProto) {
	if seen[fd.Path()] {
		return
	}
	seen[fd.Path()] = true
	imps := fd.Imports()
	for i := 0; i < imps.Len(); i++ {
		addWithDeps(imps.Get(i).FileDescriptor, seen, out)
	}
	*out = append(*out, protodesc.ToFileDescriptorProto(fd))
}

func stdDeps() []protoreflect.FileDescriptor {
	var fds []protoreflect.FileDescriptor
	fds = append(fds, sebufhttp.File_proto_sebuf_http_annotations_proto, sebufhttp.File_proto_sebuf_http_headers_proto, sebufhttp.File_proto_sebuf_http_errors_proto)
	for _, p := range []string{"buf/validate/validate.proto", "google/protobuf/timestamp.proto", "google/protobuf/duration.proto",
		"google/protobuf/wrappers.proto", "google/protobuf/struct.proto", "google/protobuf/empty.proto", "google/protobuf/any.proto", "google/protobuf/descriptor.proto"} {
		if fd, err := protoregistry.GlobalFiles.FindFileByPath(p); err == nil {
			fds = append(fds, fd)
		}
	}
	return fds
}

func main() {
	if len(os.Args) < 2 {
		die("usage: mkreq req|resp|deps")
	}
	data, err := io.ReadAll(os.Stdin)
	if err != nil {
		die("read: %v", err)
	}
	switch os.Args[1] {
	case "deps":
		var names []string
		for _, fd := range stdDeps() {
			names = append(names, fd.Path())
		}
		sort.Strings(names)
		json.NewEncoder(os.Stdout).Encode(names)
	case "req":
		var in input
		if err := json.Unmarshal(data, &in); err != nil {
			die("input json: %v", err)
		}
		seen := map[string]bool{}
		var files []*descriptorpb.FileDescriptorProto
		var depNames []string
		for _, fd := range stdDeps() {
			addWithDeps(fd, seen, &files)
			depNames = append(depNames, fd.Path())
		}
		userNames := map[string]bool{}
		var userFiles []*descriptorpb.FileDescriptorProto
		for _, raw := range in.Files {
			fdp := &descriptorpb.FileDescriptorProto{}
			if err := (protojson.UnmarshalOptions{DiscardUnknown: false}).Unmarshal(raw, fdp); err != nil {
				die("file descriptor json: %v", err)
			}
			userNames[fdp.GetName()] = true
			userFiles = append(userFiles, fdp)
		}
		for _, fdp := range userFiles {
			if fdp.Syntax == nil {
				fdp.Syntax = proto.String("proto3")
			}
			// auto-import the standard dependencies (unused imports are harmless)
			have := map[string]bool{}
			for _, d := range fdp.Dependency {
				have[d] = true
			}
			for _, d := range depNames {
				if !have[d] && d != "google/protobuf/descriptor.proto" {
					fdp.Dependency = append(fdp.Dependency, d)
				}
			}
			files = append(files, fdp)
		}
		// validate: the descriptors must be buildable the way protoc would accept them
		reg := &protoregistry.Files{}
		for _, f := range files {
			fd, err := protodesc.NewFile(f, reg)
			if err != nil {
				die("descriptor rejected (not a well-formed definition): %v", err)
			}
			if err := reg.RegisterFile(fd); err != nil {
				die("register: %v", err)
			}
		}
		req := &pluginpb.CodeGeneratorRequest{ProtoFile: files, FileToGenerate: in.Generate}
		if in.Parameter != "" {
			req.Parameter = proto.String(in.Parameter)
		}
		if len(in.Generate) == 0 {
			for _, f := range userFiles {
				req.FileToGenerate = append(req.FileToGenerate, f.GetName())
			}
		}
		b, err := proto.Marshal(req)
		if err != nil {
			die("marshal: %v", err)
		}
		os.Stdout.Write(b)
	case "resp":
		var resp pluginpb.CodeGeneratorResponse
		if err := proto.Unmarshal(data, &resp); err != nil {
			die("response: %v", err)
		}
		out := output{Error: resp.GetError()}
		for _, f := range resp.File {
			out.Files = append(out.Files, outFile{Name: f.GetName(), Content: f.GetContent()})
		}
		json.NewEncoder(os.Stdout).Encode(out)
	default:
		die("unknown mode %s", os.Args[1])
	}
}
