package main

// Static write-set of the repository: which struct fields are ever assigned after allocation.
//
// A field that no function of the repository (or of the emitted packages) assigns, takes the address of, or
// exposes to a reflection-based writer is fixed once its object is built; such fields are kept in immutable
// heap arrays, so an abstracted call (`modifies *`, no contract, interface dispatch) cannot change them. This
// is a whole-program syntactic mod analysis: it over-approximates writers (any selector on the left of an
// assignment, under & or as the receiver of a pointer method counts; every field of a protobuf message type
// and of any struct whose pointer is visibly converted to an interface counts).

import (
	"go/ast"
	"go/token"
	"go/types"
	"strings"
)

// funcWrites: what one function declaration writes directly, and whom it calls.
type funcWrites struct {
	keys    map[string]types.Type // struct field keys (heapKeyOf) -> field type
	derefs  []types.Type          // pointee types written through *p = v
	globals []*types.Var          // package-level variables assigned
	edges   map[string]bool       // repository functions called statically
	unknown string                // non-empty: calls code that is not statically known (function value, interface method)
}

// WriteSetOf returns the heap cells a call of the repository function may write: the direct writes of every
// function statically reachable from it, plus the fields reflection-based library code may write (escaped
// types, protobuf messages). ok=false when the call tree contains a call that is not statically resolved.
func (w *World) WriteSetOf(full string) (keys map[string]types.Type, derefs []types.Type, globals []*types.Var, ok bool, why string) {
	w.WrittenFields()
	keys = map[string]types.Type{}
	seen := map[string]bool{}
	stack := []string{full}
	for len(stack) > 0 {
		f := stack[len(stack)-1]
		stack = stack[:len(stack)-1]
		if seen[f] {
			continue
		}
		seen[f] = true
		fw := w.funcWrites[f]
		if fw == nil {
			if fi := w.Funcs[f]; fi != nil && fi.Decl.Body != nil {
				return nil, nil, nil, false, "no write summary for " + f
			}
			continue
		}
		if fw.unknown != "" {
			return nil, nil, nil, false, f + " " + fw.unknown
		}
		for k, t := range fw.keys {
			keys[k] = t
		}
		derefs = append(derefs, fw.derefs...)
		globals = append(globals, fw.globals...)
		for e := range fw.edges {
			stack = append(stack, e)
		}
	}
	for k, t := range w.escapedKeys {
		keys[k] = t
	}
	return keys, derefs, globals, true, ""
}

func (w *World) WrittenFields() map[string]bool {
	w.writtenMu.Lock()
	defer w.writtenMu.Unlock()
	if w.written != nil {
		return w.written
	}
	out := map[string]bool{}
	w.funcWrites = map[string]*funcWrites{}
	w.escapedKeys = map[string]types.Type{}
	w.directWritten = map[string]bool{}
	var cur *funcWrites
	markAll := func(t types.Type) {
		if p, ok := t.Underlying().(*types.Pointer); ok {
			t = p.Elem()
		}
		named, ok := types.Unalias(t).(*types.Named)
		if !ok {
			return
		}
		st, ok := named.Underlying().(*types.Struct)
		if !ok {
			return
		}
		for i := 0; i < st.NumFields(); i++ {
			out[heapKeyOf(named, st.Field(i).Name())] = true
			w.escapedKeys[heapKeyOf(named, st.Field(i).Name())] = st.Field(i).Type()
		}
	}
	for path, pkg := range w.ByPath {
		if !w.RepoPaths[path] || pkg.TypesInfo == nil {
			continue
		}
		info := pkg.TypesInfo
		markSel := func(sel *ast.SelectorExpr) {
			s := info.Selections[sel]
			if s == nil || s.Kind() != types.FieldVal {
				return
			}
			t := s.Recv()
			idx := s.Index()
			for i, ix := range idx {
				if p, ok := t.Underlying().(*types.Pointer); ok {
					t = p.Elem()
				}
				st, ok := t.Underlying().(*types.Struct)
				if !ok || ix >= st.NumFields() {
					return
				}
				f := st.Field(ix)
				if named, ok := types.Unalias(t).(*types.Named); ok && (i == len(idx)-1 || true) {
					out[heapKeyOf(named, f.Name())] = true
					w.directWritten[heapKeyOf(named, f.Name())] = true
					if cur != nil {
						cur.keys[heapKeyOf(named, f.Name())] = f.Type()
					}
				}
				t = f.Type()
			}
		}
		var markChain func(e ast.Expr)
		markChain = func(e ast.Expr) {
			for {
				switch x := e.(type) {
				case *ast.SelectorExpr:
					markSel(x)
					e = x.X
				case *ast.IndexExpr:
					e = x.X
				case *ast.StarExpr:
					// a write through a pointer to a basic type: that sort's deref cells are mutable
					if pt, ok := info.TypeOf(x.X).Underlying().(*types.Pointer); ok {
						if tok := basicSortToken(pt.Elem()); tok != "" {
							out["deref:"+tok] = true
						}
						if cur != nil {
							cur.derefs = append(cur.derefs, pt.Elem())
						}
					}
					e = x.X
				case *ast.ParenExpr:
					e = x.X
				case *ast.SliceExpr:
					e = x.X
				default:
					return
				}
			}
		}
		isIface := func(t types.Type) bool {
			if t == nil {
				return false
			}
			_, ok := t.Underlying().(*types.Interface)
			return ok
		}
		escapes := func(e ast.Expr, to types.Type) {
			if !isIface(to) {
				return
			}
			t := info.TypeOf(e)
			if t == nil || isIface(t) {
				return
			}
			markAll(t)
		}
		for _, file := range pkg.Syntax {
			var resultTypes []*types.Tuple
			ast.Inspect(file, func(n ast.Node) bool {
				switch s := n.(type) {
				case *ast.FuncDecl:
					cur = nil
					if obj, ok := info.Defs[s.Name].(*types.Func); ok {
						resultTypes = append(resultTypes, obj.Type().(*types.Signature).Results())
						cur = &funcWrites{keys: map[string]types.Type{}, edges: map[string]bool{}}
						w.funcWrites[obj.FullName()] = cur
					}
				case *ast.AssignStmt:
					for i, l := range s.Lhs {
						if id, ok := l.(*ast.Ident); ok && cur != nil {
							if v, ok := info.Uses[id].(*types.Var); ok && v.Pkg() != nil && v.Parent() == v.Pkg().Scope() {
								cur.globals = append(cur.globals, v)
							}
						}
						markChain(l)
						if len(s.Lhs) == len(s.Rhs) {
							escapes(s.Rhs[i], info.TypeOf(l))
						}
					}
				case *ast.IncDecStmt:
					markChain(s.X)
				case *ast.RangeStmt:
					if s.Tok == token.ASSIGN {
						if s.Key != nil {
							markChain(s.Key)
						}
						if s.Value != nil {
							markChain(s.Value)
						}
					}
				case *ast.UnaryExpr:
					if s.Op == token.AND {
						markChain(s.X)
					}
				case *ast.ValueSpec:
					if s.Type != nil {
						for _, v := range s.Values {
							escapes(v, info.TypeOf(s.Type))
						}
					}
				case *ast.CompositeLit:
					// interface-typed fields and elements
					if t := info.TypeOf(s); t != nil {
						switch u := t.Underlying().(type) {
						case *types.Struct:
							for i, el := range s.Elts {
								if kv, ok := el.(*ast.KeyValueExpr); ok {
									if id, ok := kv.Key.(*ast.Ident); ok {
										for j := 0; j < u.NumFields(); j++ {
											if u.Field(j).Name() == id.Name {
												escapes(kv.Value, u.Field(j).Type())
											}
										}
									}
								} else if i < u.NumFields() {
									escapes(el, u.Field(i).Type())
								}
							}
						case *types.Slice:
							for _, el := range s.Elts {
								escapes(el, u.Elem())
							}
						case *types.Map:
							for _, el := range s.Elts {
								if kv, ok := el.(*ast.KeyValueExpr); ok {
									escapes(kv.Value, u.Elem())
								}
							}
						}
					}
				case *ast.CallExpr:
					tv, ok := info.Types[s.Fun]
					if ok && tv.IsType() {
						if len(s.Args) == 1 {
							escapes(s.Args[0], tv.Type)
						}
						return true
					}
					if cur != nil && !(ok && tv.IsBuiltin()) {
						var callee *types.Func
						switch f := s.Fun.(type) {
						case *ast.Ident:
							callee, _ = info.Uses[f].(*types.Func)
						case *ast.SelectorExpr:
							if sel := info.Selections[f]; sel != nil {
								callee, _ = sel.Obj().(*types.Func)
								if callee != nil {
									if _, isIface := sel.Recv().Underlying().(*types.Interface); isIface {
										pp := ""
										if callee.Pkg() != nil {
											pp = callee.Pkg().Path()
										}
										if !strings.Contains(pp, "protobuf/reflect") && !strings.Contains(pp, "protobuf/compiler") {
											if impl := w.repoImplementer(sel.Recv()); impl != "" && cur.unknown == "" {
												cur.unknown = "calls interface method " + callee.FullName() + " (implemented by " + impl + ") at " + w.pos(s.Pos())
											}
										}
										callee = nil
									}
								}
							} else {
								callee, _ = info.Uses[f.Sel].(*types.Func)
							}
						case *ast.IndexExpr:
							if id, ok := f.X.(*ast.Ident); ok {
								callee, _ = info.Uses[id].(*types.Func)
							}
						}
						if callee != nil {
							if callee.Origin() != nil {
								callee = callee.Origin()
							}
							if w.IsRepoFunc(callee) {
								cur.edges[callee.FullName()] = true
							}
						} else if _, isSel := s.Fun.(*ast.SelectorExpr); !isSel || info.Selections[s.Fun.(*ast.SelectorExpr)] == nil || info.Selections[s.Fun.(*ast.SelectorExpr)].Kind() == types.FieldVal {
							if _, isLit := s.Fun.(*ast.FuncLit); !isLit {
								if cur.unknown == "" {
									cur.unknown = "calls a function value at " + w.pos(s.Pos())
								}
							}
						}
					}
					// pointer-receiver method on an addressable field value
					if sel, ok := s.Fun.(*ast.SelectorExpr); ok {
						if ms := info.Selections[sel]; ms != nil && ms.Kind() == types.MethodVal {
							if fn, ok := ms.Obj().(*types.Func); ok {
								if rv := fn.Type().(*types.Signature).Recv(); rv != nil {
									if _, ptrRecv := rv.Type().(*types.Pointer); ptrRecv {
										if rt := info.TypeOf(sel.X); rt != nil {
											if _, isPtr := rt.Underlying().(*types.Pointer); !isPtr {
												markChain(sel.X)
											}
										}
									}
								}
							}
						}
					}
					if sig, ok := info.TypeOf(s.Fun).(*types.Signature); ok {
						for i, a := range s.Args {
							var pt types.Type
							if sig.Variadic() && i >= sig.Params().Len()-1 {
								if sl, ok := sig.Params().At(sig.Params().Len() - 1).Type().(*types.Slice); ok && !s.Ellipsis.IsValid() {
									pt = sl.Elem()
								}
							} else if i < sig.Params().Len() {
								pt = sig.Params().At(i).Type()
							}
							escapes(a, pt)
						}
					}
				case *ast.ReturnStmt:
					if len(resultTypes) > 0 {
						rt := resultTypes[len(resultTypes)-1]
						if rt != nil && rt.Len() == len(s.Results) {
							for i, r := range s.Results {
								escapes(r, rt.At(i).Type())
							}
						}
					}
				case *ast.SendStmt:
					if ct, ok := info.TypeOf(s.Chan).Underlying().(*types.Chan); ok {
						escapes(s.Value, ct.Elem())
					}
				}
				return true
			})
		}
		// protobuf messages are written by reflection (decoders)
		scope := pkg.Types.Scope()
		for _, name := range scope.Names() {
			tn, ok := scope.Lookup(name).(*types.TypeName)
			if !ok {
				continue
			}
			named, ok := tn.Type().(*types.Named)
			if !ok {
				continue
			}
			for i := 0; i < named.NumMethods(); i++ {
				if named.Method(i).Name() == "ProtoReflect" {
					markAll(named)
				}
			}
		}
	}
	w.written = out
	return out
}

// immutableField: a field of a repository struct that nothing ever writes after allocation.
func (w *World) immutableField(key string) bool {
	return !w.WrittenFields()[strings.TrimPrefix(key, "~")]
}

func init() {
	debugCmds["written"] = func(args []string) int {
		w := loadAll()
		for _, a := range args {
			if a == "emitted" {
				w.LoadEmitted()
			}
		}
		var ks []string
		for k := range w.WrittenFields() {
			ks = append(ks, k)
		}
		ks = uniqSorted(ks)
		for _, k := range ks {
			println(k)
		}
		return 0
	}
}

// basicSortToken: the SMT sort of a basic Go type ("" for anything else).
func basicSortToken(t types.Type) string {
	b, ok := t.Underlying().(*types.Basic)
	if !ok {
		return ""
	}
	switch {
	case b.Info()&types.IsBoolean != 0:
		return "Bool"
	case b.Info()&types.IsInteger != 0:
		return "Int"
	case b.Info()&types.IsString != 0:
		return "String"
	case b.Info()&types.IsFloat != 0:
		return "Real"
	}
	return ""
}

// repoImplementer: a named type of the repository (or of the extracted packages) that implements the interface
// type t, "" if none does: a call through such an interface can only reach library code.
func (w *World) repoImplementer(t types.Type) string {
	iface, ok := t.Underlying().(*types.Interface)
	if !ok || iface.NumMethods() == 0 {
		return "any type"
	}
	for path, pkg := range w.ByPath {
		if !w.RepoPaths[path] || pkg.Types == nil {
			continue
		}
		scope := pkg.Types.Scope()
		for _, name := range scope.Names() {
			tn, ok := scope.Lookup(name).(*types.TypeName)
			if !ok || tn.IsAlias() {
				continue
			}
			if _, isIface := tn.Type().Underlying().(*types.Interface); isIface {
				continue
			}
			if types.Implements(tn.Type(), iface) || types.Implements(types.NewPointer(tn.Type()), iface) {
				return tn.Pkg().Name() + "." + tn.Name()
			}
		}
	}
	return ""
}
