#!/bin/sh
# builds /verif/bin/govc from files on disk only (offline)
set -e
cd "$(dirname "$0")/govc"
export GOFLAGS=-mod=mod GOPROXY=off
mkdir -p ../bin
go build -o ../bin/govc .
