#!/usr/bin/env python3
"""Well-formedness check of one emitted OpenAPI document (C18 replay oracle).

stdin: JSON {"json": <text of the JSON rendering>, "yaml": <text of the YAML rendering or null>}
stdout: JSON {"problems": [{"class": ..., "detail": ...}], "yaml_compared": bool, "operations": [...]}
Independent of the generator: works on the parsed documents only.
"""
import json, re, sys

def walk(node, path, out):
    if isinstance(node, dict):
        for k, v in node.items():
            if k == "$ref" and isinstance(v, str):
                out.append((path, v))
            else:
                walk(v, path + "/" + str(k), out)
    elif isinstance(node, list):
        for i, v in enumerate(node):
            walk(v, path + "/" + str(i), out)

def main():
    inp = json.load(sys.stdin)
    problems = []
    doc = json.loads(inp["json"])
    refs = []
    walk(doc, "", refs)
    schemas = ((doc.get("components") or {}).get("schemas") or {})
    for where, ref in refs:
        m = re.fullmatch(r"#/components/schemas/(.+)", ref)
        if not m:
            problems.append({"class": "ref-unresolved", "detail": "%s: unsupported reference %s" % (where, ref)})
        elif m.group(1) not in schemas:
            problems.append({"class": "ref-unresolved", "detail": "%s: %s has no component schema" % (where, ref)})
    if not str(doc.get("openapi", "")).startswith("3.1"):
        problems.append({"class": "not-3.1", "detail": "openapi: %r" % doc.get("openapi")})
    opids = {}
    ops = []
    for template, item in (doc.get("paths") or {}).items():
        tvars = re.findall(r"\{([^}]+)\}", template)
        for verb, op in (item or {}).items():
            if verb not in ("get", "put", "post", "delete", "options", "head", "patch", "trace"):
                continue
            ops.append({"path": template, "verb": verb, "operationId": op.get("operationId")})
            oid = op.get("operationId")
            if oid in opids:
                problems.append({"class": "opid-duplicate", "detail": "operationId %r used by %s and %s %s" % (oid, opids[oid], verb, template)})
            opids[oid] = "%s %s" % (verb, template)
            params = op.get("parameters") or []
            seen = {}
            for p in params:
                key = (p.get("name"), p.get("in"))
                seen[key] = seen.get(key, 0) + 1
            for (name, loc), n in seen.items():
                if n > 1:
                    cls = "pathparam-duplicate" if loc == "path" else "param-duplicate"
                    problems.append({"class": cls, "detail": "%s %s: parameter %r in %s declared %d times" % (verb, template, name, loc, n)})
            declared = [p.get("name") for p in params if p.get("in") == "path"]
            for v in set(tvars):
                if v not in declared:
                    problems.append({"class": "pathvar-undeclared", "detail": "%s %s: template variable {%s} has no path parameter" % (verb, template, v)})
            for p in params:
                if p.get("in") == "path":
                    if p.get("name") not in tvars:
                        problems.append({"class": "pathparam-not-in-template", "detail": "%s %s: path parameter %r is not in the template" % (verb, template, p.get("name"))})
                    if p.get("required") is not True:
                        problems.append({"class": "pathparam-not-required", "detail": "%s %s: path parameter %r is not required" % (verb, template, p.get("name"))})
    compared = False
    if inp.get("yaml") is not None:
        try:
            import yaml
            ydoc = yaml.safe_load(inp["yaml"])
            compared = True
            if ydoc != doc:
                problems.append({"class": "yaml-json-differ", "detail": "the YAML and JSON renderings parse to different documents"})
        except ImportError:
            pass
    json.dump({"problems": problems, "yaml_compared": compared, "operations": ops, "schemas": sorted(schemas)}, sys.stdout)

main()
