package main

// S3: structural proof rules (no SMT). Each rule is a sound syntactic sufficient condition; the evidence
// labels them backend "structural".

import (
	"sync"
	"bytes"
	"fmt"
	"go/ast"
	"go/parser"
	"go/printer"
	"go/token"
	"go/types"
	"path/filepath"
	"regexp"
	"sort"
	"strconv"
	"strings"
)

func runStructural(w *World, rule string) []OblResult {
	if f, ok := structuralRules[rule]; ok {
		return f(w)
	}
	return []OblResult{{Name: "structural:" + rule, Kind: "structural", Status: "unknown", Raw: "unknown structural rule"}}
}

var structuralRules = map[string]func(w *World) []OblResult{}

func runBounded(w *World, name string, seed int64) map[string]any {
	if f, ok := boundedChecks[name]; ok {
		return f(w, seed)
	}
	return map[string]any{"name": name, "bounded": true, "status": "not-implemented"}
}

var boundedChecks = map[string]func(w *World, seed int64) map[string]any{}

func structResult(name, text string, problems []string) OblResult {
	r := OblResult{Name: name, Kind: "structural", Text: text, Backend: "structural", Status: "proved"}
	if len(problems) > 0 {
		sort.Strings(problems)
		r.Status = "refuted"
		r.Raw = strings.Join(problems, "; ")
		r.Model = strings.Join(problems, "\n")
	}
	return r
}

// ---------------------------------------------------------------------------------------
// CONST: template constancy. Every argument of every P call reachable from the named emitter is a
// compile-time constant (or one of the allowed parameters). If it holds, the instance extracted from the
// fixed schema IS every instance of the emitted file.

func (w *World) methodsOf(pkgShort string) map[string]*FuncInfo {
	out := map[string]*FuncInfo{}
	pkg := w.ByName[pkgShort]
	if pkg == nil {
		return out
	}
	for _, fi := range w.Funcs {
		if fi.Obj.Pkg() == pkg {
			out[fi.Obj.Name()] = fi
		}
	}
	return out
}

func (w *World) constancy(pkgShort, root string, allowedIdents map[string]bool, skip map[string]bool) (nCalls int, problems []string) {
	fns := w.methodsOf(pkgShort)
	seen := map[string]bool{}
	var visit func(name string)
	visit = func(name string) {
		if seen[name] || skip[name] {
			return
		}
		seen[name] = true
		fi := fns[name]
		if fi == nil || fi.Decl.Body == nil {
			problems = append(problems, "emitter "+name+" not found")
			return
		}
		info := fi.Pkg.TypesInfo
		ast.Inspect(fi.Decl.Body, func(n ast.Node) bool {
			call, ok := n.(*ast.CallExpr)
			if !ok {
				return true
			}
			sel, ok := call.Fun.(*ast.SelectorExpr)
			if !ok {
				return true
			}
			if sel.Sel.Name == "P" {
				if t := info.TypeOf(sel.X); t != nil && strings.Contains(t.String(), "GeneratedFile") {
					nCalls++
					for _, a := range call.Args {
						if tv, ok := info.Types[a]; ok && tv.Value != nil {
							continue
						}
						if id, ok := a.(*ast.Ident); ok && allowedIdents[id.Name] {
							continue
						}
						var b bytes.Buffer
						printer.Fprint(&b, w.Fset, a)
						problems = append(problems, fmt.Sprintf("%s: P argument %s is not constant (%s)", name, b.String(), w.pos(a.Pos())))
					}
					return true
				}
			}
			// calls to other emitter methods of the generator
			if s := info.Selections[sel]; s != nil {
				if fn, ok := s.Obj().(*types.Func); ok && fn.Pkg() == fi.Obj.Pkg() {
					visit(fn.Name())
				}
			}
			return true
		})
		// any control flow that depends on the schema makes the template schema-dependent
		ast.Inspect(fi.Decl.Body, func(n ast.Node) bool {
			switch n.(type) {
			case *ast.IfStmt, *ast.ForStmt, *ast.RangeStmt, *ast.SwitchStmt:
				if name != root || !isErrCheck(n) {
					problems = append(problems, fmt.Sprintf("%s: control flow inside a constant template (%s)", name, w.pos(n.Pos())))
				}
			}
			return true
		})
	}
	visit(root)
	return
}

func isErrCheck(n ast.Node) bool {
	ifs, ok := n.(*ast.IfStmt)
	if !ok {
		return false
	}
	if be, ok := ifs.Cond.(*ast.BinaryExpr); ok {
		if id, ok := be.Y.(*ast.Ident); ok && id.Name == "nil" {
			return true
		}
	}
	return false
}

func init() {
	structuralRules["const.binding"] = func(w *World) []OblResult {
		n, probs := w.constancy("httpgen", "generateBindingFile", nil, map[string]bool{"writeHeader": true})
		return []OblResult{structResult("CONST.http_binding", fmt.Sprintf("every argument of the %d P calls reachable from generateBindingFile is a constant and no emitter below it branches: the extracted *_http_binding.pb.go is the file for every schema (header lines aside)", n), probs)}
	}
	structuralRules["const.config"] = func(w *World) []OblResult {
		n, probs := w.constancy("httpgen", "generateConfigFile", nil, map[string]bool{"writeHeader": true})
		return []OblResult{structResult("CONST.http_config", fmt.Sprintf("every argument of the %d P calls reachable from generateConfigFile is a constant", n), probs)}
	}
	structuralRules["const.clienthelpers"] = func(w *World) []OblResult {
		var out []OblResult
		for _, root := range []string{"generateMarshalRequestMethod", "generateHandleErrorResponseMethod", "generateUnmarshalResponseMethod"} {
			n, probs := w.constancy("clientgen", root, map[string]bool{"lowerName": true}, nil)
			out = append(out, structResult("CONST.client."+root, fmt.Sprintf("the %d P calls of %s print constants and the receiver name only", n, root), probs))
		}
		return out
	}
}

// ---------------------------------------------------------------------------------------
// C14: congruence of the duplicated codec generators.

func normalizedFuncText(w *World, fd *ast.FuncDecl, rename map[string]string) string {
	var b bytes.Buffer
	// print without comments
	cfg := printer.Config{Mode: printer.RawFormat}
	cfg.Fprint(&b, token.NewFileSet(), stripComments(fd))
	s := b.String()
	for from, to := range rename {
		s = strings.ReplaceAll(s, from, to)
	}
	// normal form on a private copy (re-parsed text): parameters and locals are named by declaration order, and
	// statements that only print a Go comment into the emitted file are dropped -- neither changes what is emitted
	// apart from comments, so twins that differ only there still emit behaviourally identical code
	fset := token.NewFileSet()
	f, err := parser.ParseFile(fset, "twin.go", "package p\n"+s, 0)
	if err != nil || len(f.Decls) != 1 {
		return s
	}
	nfd, ok := f.Decls[0].(*ast.FuncDecl)
	if !ok {
		return s
	}
	names := map[*ast.Object]string{}
	ast.Inspect(nfd, func(n ast.Node) bool {
		id, ok := n.(*ast.Ident)
		if !ok || id.Obj == nil || id.Obj.Kind != ast.Var || id.Name == "_" {
			return true
		}
		if _, seen := names[id.Obj]; !seen {
			names[id.Obj] = fmt.Sprintf("v%d", len(names))
		}
		id.Name = names[id.Obj]
		return true
	})
	var strip func(list []ast.Stmt) []ast.Stmt
	isCommentPrint := func(st ast.Stmt) bool {
		es, ok := st.(*ast.ExprStmt)
		if !ok {
			return false
		}
		call, ok := es.X.(*ast.CallExpr)
		if !ok || len(call.Args) == 0 {
			return false
		}
		sel, ok := call.Fun.(*ast.SelectorExpr)
		if !ok || sel.Sel.Name != "P" {
			return false
		}
		lit, ok := call.Args[0].(*ast.BasicLit)
		return ok && lit.Kind == token.STRING && (strings.HasPrefix(lit.Value, "\"//") || strings.HasPrefix(lit.Value, "`//"))
	}
	strip = func(list []ast.Stmt) []ast.Stmt {
		var out []ast.Stmt
		for _, st := range list {
			if !isCommentPrint(st) {
				out = append(out, st)
			}
		}
		return out
	}
	ast.Inspect(nfd, func(n ast.Node) bool {
		switch x := n.(type) {
		case *ast.BlockStmt:
			x.List = strip(x.List)
		case *ast.CaseClause:
			x.Body = strip(x.Body)
		case *ast.CommClause:
			x.Body = strip(x.Body)
		}
		return true
	})
	b.Reset()
	cfg.Fprint(&b, fset, nfd)
	return b.String()
}

func stripComments(fd *ast.FuncDecl) *ast.FuncDecl {
	c := *fd
	c.Doc = nil
	return &c
}

var c14Files = []string{"encoding.go", "enum_encoding.go", "nullable.go", "empty_behavior.go", "timestamp_format.go", "bytes_encoding.go", "flatten.go", "oneof_discriminator.go"}

func (w *World) funcsByFile(pkgShort string) map[string]map[string]*FuncInfo {
	out := map[string]map[string]*FuncInfo{}
	pkg := w.ByName[pkgShort]
	for _, fi := range w.Funcs {
		if fi.Obj.Pkg() != pkg {
			continue
		}
		file := w.Fset.Position(fi.Decl.Pos()).Filename
		base := file[strings.LastIndex(file, "/")+1:]
		if out[base] == nil {
			out[base] = map[string]*FuncInfo{}
		}
		key := fi.Obj.Name()
		if sig := fi.Obj.Type().(*types.Signature); sig.Recv() != nil {
			key = "(Generator)." + key
		}
		out[base][key] = fi
	}
	return out
}

func init() {
	structuralRules["c14.congruence"] = func(w *World) []OblResult {
		hf, cf := w.funcsByFile("httpgen"), w.funcsByFile("clientgen")
		rename := map[string]string{"writeEncodingHeader": "writeHeader"}
		var out []OblResult
		pairs := 0
		for _, file := range c14Files {
			var probs []string
			names := map[string]bool{}
			for k := range hf[file] {
				names[k] = true
			}
			for k := range cf[file] {
				names[k] = true
			}
			for name := range names {
				a, b := hf[file][name], cf[file][name]
				nm := name
				if a == nil {
					// the client names its header writer differently
					if name == "(Generator).writeEncodingHeader" {
						continue
					}
					probs = append(probs, "only in clientgen: "+nm)
					continue
				}
				if b == nil {
					probs = append(probs, "only in httpgen: "+nm)
					continue
				}
				pairs++
				ta, tb := normalizedFuncText(w, a.Decl, nil), normalizedFuncText(w, b.Decl, rename)
				if ta != tb {
					probs = append(probs, fmt.Sprintf("%s differs between the two packages (%s vs %s): %s", nm, w.pos(a.Decl.Pos()), w.pos(b.Decl.Pos()), firstDiff(ta, tb)))
				}
			}
			out = append(out, structResult("C14.equiv."+file, "every function of internal/httpgen/"+file+" has a token-identical twin (modulo comments and the name of the header writer) in internal/clientgen/"+file+"; callees are the shared annotations package or twins themselves, so both emit the same text for the same descriptor", probs))
		}
		// the header writers print the same lines except for the generator name
		var hprobs []string
		ha := hf["generator.go"]["(Generator).writeHeader"]
		var cb *FuncInfo
		for _, m := range cf {
			if f := m["(Generator).writeEncodingHeader"]; f != nil {
				cb = f
			}
		}
		if ha == nil || cb == nil {
			hprobs = append(hprobs, "header writer not found")
		} else {
			ta := strings.ReplaceAll(normalizedFuncText(w, ha.Decl, nil), "protoc-gen-go-http", "GENERATOR")
			tb := strings.ReplaceAll(normalizedFuncText(w, cb.Decl, rename), "protoc-gen-go-client", "GENERATOR")
			if ta != tb {
				hprobs = append(hprobs, "header writers differ beyond the generator name: "+firstDiff(ta, tb))
			}
		}
		out = append(out, structResult("C14.header", "the two header writers print the same lines apart from the generator name", hprobs))
		_ = pairs
		return out
	}
}

func firstDiff(a, b string) string {
	la, lb := strings.Split(a, "\n"), strings.Split(b, "\n")
	for i := 0; i < len(la) && i < len(lb); i++ {
		if strings.TrimSpace(la[i]) != strings.TrimSpace(lb[i]) {
			return fmt.Sprintf("line %d: %q vs %q", i+1, strings.TrimSpace(la[i]), strings.TrimSpace(lb[i]))
		}
	}
	return fmt.Sprintf("length %d vs %d lines", len(la), len(lb))
}

// ---------------------------------------------------------------------------------------
// C15: purity sweep and map-range inventory of the generator packages.

var generatorPkgs = []string{"annotations", "httpgen", "clientgen", "tsclientgen", "tsservergen", "tscommon", "openapiv3"}

func init() {
	structuralRules["c15.maprange"] = func(w *World) []OblResult {
		// every range-over-map in the generator packages must be one of the contracted ones
		allowed := map[string]bool{"annotations.CombineHeaders": true, "tscommon.MessageSet.OrderedEnums": true}
		var probs []string
		found := map[string]bool{}
		for _, short := range generatorPkgs {
			pkg := w.ByName[short]
			for _, fi := range w.Funcs {
				if fi.Obj.Pkg() != pkg || fi.Decl.Body == nil {
					continue
				}
				info := fi.Pkg.TypesInfo
				ast.Inspect(fi.Decl.Body, func(n ast.Node) bool {
					rs, ok := n.(*ast.RangeStmt)
					if !ok {
						return true
					}
					if t := info.TypeOf(rs.X); t != nil {
						if _, isMap := t.Underlying().(*types.Map); isMap {
							key := shortKey(fi.Obj)
							found[key] = true
							if !allowed[key] {
								probs = append(probs, fmt.Sprintf("range over a map in %s (%s) has no order-independence contract", key, w.pos(rs.Pos())))
							}
						}
					}
					return true
				})
			}
		}
		return []OblResult{structResult("C15.maprange.inventory", "the only range-over-map loops in the generator packages are the contracted ones (CombineHeaders, OrderedEnums), whose results are sorted afterwards", probs)}
	}
	structuralRules["c15.pure"] = func(w *World) []OblResult {
		// no call to time, rand, os.Getenv/Environ/Hostname, no write to package-level variables
		var probs []string
		for _, short := range append(append([]string{}, generatorPkgs...), "main") {
			for _, fi := range w.Funcs {
				if fi.Decl.Body == nil || fi.Obj.Pkg() == nil {
					continue
				}
				path := fi.Obj.Pkg().Path()
				if short == "main" {
					if !strings.HasPrefix(path, modPath+"/cmd/") {
						continue
					}
				} else if w.ByName[short] != fi.Obj.Pkg() {
					continue
				}
				info := fi.Pkg.TypesInfo
				ast.Inspect(fi.Decl.Body, func(n ast.Node) bool {
					switch x := n.(type) {
					case *ast.CallExpr:
						var fn *types.Func
						switch f := x.Fun.(type) {
						case *ast.SelectorExpr:
							fn, _ = info.Uses[f.Sel].(*types.Func)
						case *ast.Ident:
							fn, _ = info.Uses[f].(*types.Func)
						}
						if fn != nil && fn.Pkg() != nil {
							p := fn.Pkg().Path()
							bad := p == "time" && (fn.Name() == "Now" || fn.Name() == "Since") || p == "math/rand" || p == "math/rand/v2" || p == "crypto/rand" ||
								p == "os" && (fn.Name() == "Getenv" || fn.Name() == "Environ" || fn.Name() == "Hostname" || fn.Name() == "Getpid" || fn.Name() == "LookupEnv" || fn.Name() == "ReadFile" || fn.Name() == "ReadDir")
							if bad {
								probs = append(probs, fmt.Sprintf("%s calls %s.%s (%s)", shortKey(fi.Obj), p, fn.Name(), w.pos(x.Pos())))
							}
						}
					case *ast.GoStmt:
						probs = append(probs, fmt.Sprintf("%s starts a goroutine (%s)", shortKey(fi.Obj), w.pos(x.Pos())))
					case *ast.AssignStmt:
						for _, l := range x.Lhs {
							if id, ok := l.(*ast.Ident); ok {
								if v, ok := info.Uses[id].(*types.Var); ok && v.Pkg() != nil && v.Parent() == v.Pkg().Scope() {
									probs = append(probs, fmt.Sprintf("%s writes package-level variable %s (%s)", shortKey(fi.Obj), v.Name(), w.pos(x.Pos())))
								}
							}
						}
					}
					return true
				})
			}
		}
		return []OblResult{structResult("C15.pure", "no function of the generator packages or plugin mains reads the clock, randomness, the environment or the file system, starts a goroutine, or writes a package-level variable: output is a function of the request", uniq(probs))}
	}
	structuralRules["c15.nostate"] = func(w *World) []OblResult {
		// generator structs keep no cross-file state: the only field written after construction is httpgen.Generator.globalUnwrap (in Generate)
		allowed := map[string]bool{"httpgen.Generator.globalUnwrap@httpgen.Generator.Generate": true}
		var probs []string
		for _, short := range []string{"httpgen", "clientgen", "tsclientgen", "tsservergen"} {
			pkg := w.ByName[short]
			for _, fi := range w.Funcs {
				if fi.Obj.Pkg() != pkg || fi.Decl.Body == nil {
					continue
				}
				info := fi.Pkg.TypesInfo
				ast.Inspect(fi.Decl.Body, func(n ast.Node) bool {
					as, ok := n.(*ast.AssignStmt)
					if !ok {
						return true
					}
					for _, l := range as.Lhs {
						elem := ""
						if ix, isIx := l.(*ast.IndexExpr); isIx {
							// g.table[k] = v: the content of a container the generator object holds is state too
							l = ix.X
							elem = " (an element of it)"
						}
						sel, ok := l.(*ast.SelectorExpr)
						if !ok {
							continue
						}
						t := info.TypeOf(sel.X)
						if t == nil {
							continue
						}
						if p, ok := t.(*types.Pointer); ok {
							if nt, ok := types.Unalias(p.Elem()).(*types.Named); ok && nt.Obj().Name() == "Generator" && nt.Obj().Pkg() == pkg {
								key := short + ".Generator." + sel.Sel.Name + "@" + shortKey(fi.Obj)
								if !allowed[key] {
									probs = append(probs, fmt.Sprintf("%s assigns Generator.%s%s (%s)", shortKey(fi.Obj), sel.Sel.Name, elem, w.pos(as.Pos())))
								}
							}
						}
					}
					return true
				})
			}
		}
		return []OblResult{structResult("C15.perfile.nostate", "generator objects carry no state from one file to the next: the only field assigned after construction is httpgen's global unwrap table (whose content per message is proved to be GetUnwrapField of that message)", probs)}
	}
}

func init() {
	// C15: the OpenAPI document of a service is a function of that service alone: a generator object is built per
	// service from values only, so nothing mutable can be shared between the documents of one invocation.
	structuralRules["c15.openapi_isolated"] = func(w *World) []OblResult {
		var probs []string
		oa := w.ByName["openapiv3"]
		valueLike := func(t types.Type) bool {
			switch u := t.Underlying().(type) {
			case *types.Basic:
				return true
			case *types.Pointer:
				if n, ok := types.Unalias(u.Elem()).(*types.Named); ok && n.Obj().Pkg() != nil && strings.HasSuffix(n.Obj().Pkg().Path(), "compiler/protogen") {
					return true // descriptors: immutable
				}
			}
			return false
		}
		isGen := func(t types.Type) bool {
			p, ok := t.(*types.Pointer)
			if !ok {
				return false
			}
			n, ok := types.Unalias(p.Elem()).(*types.Named)
			return ok && n.Obj().Name() == "Generator" && n.Obj().Pkg() == oa
		}
		n := 0
		for _, fi := range w.Funcs {
			if fi.Obj.Pkg() != oa {
				continue
			}
			sig := fi.Obj.Type().(*types.Signature)
			if sig.Recv() != nil || sig.Results().Len() == 0 || !isGen(sig.Results().At(0).Type()) {
				continue
			}
			n++
			for i := 0; i < sig.Params().Len(); i++ {
				if pt := sig.Params().At(i).Type(); !valueLike(pt) {
					probs = append(probs, fmt.Sprintf("%s takes a %s: a generator constructed from a shared mutable object can carry state from one service's document to the next (%s)", shortKey(fi.Obj), pt, w.pos(fi.Decl.Pos())))
				}
			}
		}
		if n == 0 {
			probs = append(probs, "no constructor of openapiv3.Generator found")
		}
		// ... and nothing is attached afterwards: no function of the package assigns a field of a Generator from an
		// expression that mentions one of its parameters of non-value type (a setter for a shared cache, registry, ...)
		for _, fi := range w.Funcs {
			if fi.Obj.Pkg() != oa || fi.Decl == nil || fi.Decl.Body == nil {
				continue
			}
			info := fi.Pkg.TypesInfo
			sig := fi.Obj.Type().(*types.Signature)
			shared := map[*types.Var]bool{}
			for i := 0; i < sig.Params().Len(); i++ {
				if pv := sig.Params().At(i); !valueLike(pv.Type()) && !isGen(pv.Type()) {
					if _, isIface := pv.Type().Underlying().(*types.Interface); !isIface {
						shared[pv] = true
					}
				}
			}
			if len(shared) == 0 {
				continue
			}
			ast.Inspect(fi.Decl.Body, func(nd ast.Node) bool {
				as, ok := nd.(*ast.AssignStmt)
				if !ok {
					return true
				}
				for i, l := range as.Lhs {
					sel, ok := l.(*ast.SelectorExpr)
					if !ok || !isGen(info.TypeOf(sel.X)) || i >= len(as.Rhs) {
						continue
					}
					ast.Inspect(as.Rhs[i], func(m ast.Node) bool {
						if id, ok := m.(*ast.Ident); ok {
							if v, ok := info.Uses[id].(*types.Var); ok && shared[v] {
								probs = append(probs, fmt.Sprintf("%s stores its parameter %s (%s) in Generator.%s: state attached to a generator after construction can be shared between the documents of one invocation (%s)", shortKey(fi.Obj), v.Name(), v.Type(), sel.Sel.Name, w.pos(as.Pos())))
							}
						}
						return true
					})
				}
				return true
			})
		}
		// fields of Generator holding repository-declared mutable objects must be created inside the constructor: no
		// package-level variable of a reference type in openapiv3 (c15.pure covers reads of package state in general)
		if oa != nil {
			for _, name := range oa.Scope().Names() {
				v, ok := oa.Scope().Lookup(name).(*types.Var)
				if !ok {
					continue
				}
				switch v.Type().Underlying().(type) {
				case *types.Map, *types.Pointer, *types.Slice, *types.Chan:
					if !strings.HasPrefix(name, "E_") {
						probs = append(probs, fmt.Sprintf("package-level variable openapiv3.%s has reference type %s", name, v.Type()))
					}
				}
			}
		}
		return []OblResult{structResult("C15.openapi.isolated", "every constructor of openapiv3.Generator takes values only (basic types, descriptors), no function of the package stores a non-value parameter in a Generator field afterwards, and the package has no package-level variable of a reference type: the documents of one invocation share no mutable object", probs)}
	}
}

// ---------------------------------------------------------------------------------------
// C17: ownership discipline of the emitted runtime (extracted packages).

func init() {
	structuralRules["emitted.c17.globals"] = func(w *World) []OblResult {
		var probs []string
		if w.Emitted == nil {
			return []OblResult{structResult("C17.globals", "", []string{"emitted package not loaded"})}
		}
		for _, pkg := range []*types.Package{w.Emitted.Types, w.EmittedClient.Types} {
			for _, fi := range w.Funcs {
				if fi.Obj.Pkg() != pkg || fi.Decl.Body == nil {
					continue
				}
				if strings.HasPrefix(fi.Obj.Name(), "file_") || fi.Obj.Name() == "init" {
					continue // protoc-gen-go's own registration code
				}
				info := fi.Pkg.TypesInfo
				// writes to package-level variables are allowed only inside the function literal passed to validatorOnce.Do
				var onceLits []*ast.FuncLit
				ast.Inspect(fi.Decl.Body, func(n ast.Node) bool {
					if call, ok := n.(*ast.CallExpr); ok {
						if sel, ok := call.Fun.(*ast.SelectorExpr); ok && sel.Sel.Name == "Do" {
							if t := info.TypeOf(sel.X); t != nil && strings.HasSuffix(t.String(), "sync.Once") && len(call.Args) == 1 {
								if fl, ok := call.Args[0].(*ast.FuncLit); ok {
									onceLits = append(onceLits, fl)
								}
							}
						}
					}
					return true
				})
				inOnce := func(pos token.Pos) bool {
					for _, fl := range onceLits {
						if fl.Pos() <= pos && pos <= fl.End() {
							return true
						}
					}
					return false
				}
				ast.Inspect(fi.Decl.Body, func(n ast.Node) bool {
					switch x := n.(type) {
					case *ast.AssignStmt:
						for _, l := range x.Lhs {
							root := l
							for {
								switch r := root.(type) {
								case *ast.IndexExpr:
									root = r.X
									continue
								case *ast.SelectorExpr:
									if _, isPkgVar := info.Uses[r.Sel].(*types.Var); isPkgVar {
										if id, ok := r.X.(*ast.Ident); ok {
											if _, isPkg := info.Uses[id].(*types.PkgName); isPkg {
												root = r.Sel
											}
										}
									}
								}
								break
							}
							if id, ok := root.(*ast.Ident); ok {
								if v, ok := info.Uses[id].(*types.Var); ok && v.Pkg() != nil && v.Parent() == v.Pkg().Scope() && !inOnce(x.Pos()) {
									probs = append(probs, fmt.Sprintf("%s writes package-level variable %s outside sync.Once (%s)", fi.Obj.Name(), v.Name(), w.pos(x.Pos())))
								}
							}
						}
					case *ast.IncDecStmt:
						if id, ok := x.X.(*ast.Ident); ok {
							if v, ok := info.Uses[id].(*types.Var); ok && v.Pkg() != nil && v.Parent() == v.Pkg().Scope() {
								probs = append(probs, fmt.Sprintf("%s modifies package-level variable %s (%s)", fi.Obj.Name(), v.Name(), w.pos(x.Pos())))
							}
						}
					}
					return true
				})
				// reads of validator/validatorErr must come after validatorOnce.Do in the same function
				ast.Inspect(fi.Decl.Body, func(n ast.Node) bool {
					id, ok := n.(*ast.Ident)
					if !ok || (id.Name != "validator" && id.Name != "validatorErr") {
						return true
					}
					v, ok := info.Uses[id].(*types.Var)
					if !ok || v.Parent() != v.Pkg().Scope() {
						return true
					}
					if inOnce(id.Pos()) {
						return true
					}
					after := false
					for _, fl := range onceLits {
						if fl.End() < id.Pos() {
							after = true
						}
					}
					if !after {
						probs = append(probs, fmt.Sprintf("%s reads %s without a preceding validatorOnce.Do (%s)", fi.Obj.Name(), id.Name, w.pos(id.Pos())))
					}
					return true
				})
			}
		}
		// no package-level object that is mutated through method calls: pools, sync.Map, atomics, channels and the like
		// are shared by all requests of the process (sync.Once, guarding the validator singleton, is the one exception)
		for _, pkg := range []*types.Package{w.Emitted.Types, w.EmittedClient.Types} {
			for _, name := range pkg.Scope().Names() {
				v, ok := pkg.Scope().Lookup(name).(*types.Var)
				if !ok || strings.HasPrefix(name, "file_") || strings.HasPrefix(name, "File_") {
					continue
				}
				if why := sharedMutableType(v.Type(), 0); why != "" {
					probs = append(probs, fmt.Sprintf("package-level variable %s has type %s (%s): state shared by every request of the process", name, v.Type(), why))
				}
			}
		}
		return []OblResult{structResult("C17.globals", "package-level variables of the emitted server and client are written only inside the function passed to sync.Once.Do and the validator singleton is read only after that call; every other package-level variable is never written after initialisation, and none is a pool, concurrent map, atomic or channel", uniq(probs))}
	}
	structuralRules["emitted.c17.clientframe"] = func(w *World) []OblResult {
		var probs []string
		if w.EmittedClient == nil {
			return []OblResult{structResult("C17.client.frame", "", []string{"emitted client not loaded"})}
		}
		pkg := w.EmittedClient
		for _, fi := range w.Funcs {
			if fi.Obj.Pkg() != pkg.Types || fi.Decl.Body == nil {
				continue
			}
			info := pkg.TypesInfo
			sig := fi.Obj.Type().(*types.Signature)
			isClientMethod := sig.Recv() != nil && strings.HasSuffix(sig.Recv().Type().String(), "Client")
			isCtor := strings.HasPrefix(fi.Obj.Name(), "New") && strings.HasSuffix(fi.Obj.Name(), "Client")
			parents := map[ast.Node]ast.Node{}
			var stack []ast.Node
			ast.Inspect(fi.Decl.Body, func(n ast.Node) bool {
				if n == nil {
					stack = stack[:len(stack)-1]
					return true
				}
				if len(stack) > 0 {
					parents[n] = stack[len(stack)-1]
				}
				stack = append(stack, n)
				return true
			})
			ast.Inspect(fi.Decl.Body, func(n ast.Node) bool {
				sel, ok := n.(*ast.SelectorExpr)
				if !ok {
					return true
				}
				v, ok := info.Uses[sel.Sel].(*types.Var)
				if !ok || !v.IsField() {
					return true
				}
				// fields of the client struct
				recvT := info.TypeOf(sel.X)
				if recvT == nil || !strings.HasSuffix(strings.TrimPrefix(recvT.String(), "*"), "Client") {
					return true
				}
				par := parents[sel]
				switch p := par.(type) {
				case *ast.AssignStmt:
					for _, l := range p.Lhs {
						if l == sel && !isCtor && isClientMethod {
							probs = append(probs, fmt.Sprintf("client method %s assigns c.%s (%s)", fi.Obj.Name(), sel.Sel.Name, w.pos(sel.Pos())))
						}
					}
				case *ast.IndexExpr:
					// c.defaultHeaders[k] = v outside construction
					if gp, ok := parents[p].(*ast.AssignStmt); ok && isClientMethod {
						for _, l := range gp.Lhs {
							if l == p {
								probs = append(probs, fmt.Sprintf("client method %s writes into c.%s (%s)", fi.Obj.Name(), sel.Sel.Name, w.pos(sel.Pos())))
							}
						}
					}
				}
				// a reference-typed field (map/slice/pointer) may not escape into another object or call, except as range operand / plain read
				if _, isMap := v.Type().Underlying().(*types.Map); isMap && isClientMethod {
					switch p := par.(type) {
					case *ast.RangeStmt:
						if p.X != sel {
							probs = append(probs, fmt.Sprintf("client method %s: c.%s used as range variable (%s)", fi.Obj.Name(), sel.Sel.Name, w.pos(sel.Pos())))
						}
					case *ast.IndexExpr:
						// read c.m[k]
					case *ast.CallExpr:
						if id, ok := p.Fun.(*ast.Ident); ok && id.Name == "len" {
							break
						}
						probs = append(probs, fmt.Sprintf("client method %s passes the shared map c.%s to a call (%s)", fi.Obj.Name(), sel.Sel.Name, w.pos(sel.Pos())))
					default:
						probs = append(probs, fmt.Sprintf("client method %s lets the shared map c.%s escape (%T at %s)", fi.Obj.Name(), sel.Sel.Name, par, w.pos(sel.Pos())))
					}
				}
				return true
			})
		}
		return []OblResult{structResult("C17.client.frame", "an emitted client method assigns no field of the client and the shared defaultHeaders map is only ranged over or indexed for reading: per-call options can reach call-local state only", uniq(probs))}
	}
}

// C14.fileset: both plugins must create the same codec files for the same input. The rule compares, for the two
// generateFile functions, which generate*File emitters run unconditionally (before the `len(file.Services) == 0`
// early return) and which run only for files with services.
func init() {
	codecEmitters := map[string]bool{"generateInt64EncodingFile": true, "generateEnumEncodingFile": true, "generateNullableEncodingFile": true,
		"generateEmptyBehaviorEncodingFile": true, "generateTimestampFormatEncodingFile": true, "generateBytesEncodingFile": true,
		"generateFlattenFile": true, "generateOneofDiscriminatorFile": true, "generateUnwrapFile": true}
	placement := func(w *World, pkgShort string) (map[string]string, []string) {
		out := map[string]string{}
		var probs []string
		fi := w.LookupFunc(pkgShort + ".Generator.generateFile")
		if fi == nil {
			return out, []string{pkgShort + ".Generator.generateFile not found"}
		}
		phase := "always"
		for _, st := range fi.Decl.Body.List {
			ifs, ok := st.(*ast.IfStmt)
			if !ok {
				continue
			}
			// the early return for files without services
			if be, ok := ifs.Cond.(*ast.BinaryExpr); ok && ifs.Init == nil {
				var b bytes.Buffer
				printer.Fprint(&b, w.Fset, be)
				if strings.Contains(b.String(), "len(file.Services) == 0") {
					phase = "services-only"
					continue
				}
			}
			ast.Inspect(ifs, func(n ast.Node) bool {
				if call, ok := n.(*ast.CallExpr); ok {
					if sel, ok := call.Fun.(*ast.SelectorExpr); ok && codecEmitters[sel.Sel.Name] {
						if _, dup := out[sel.Sel.Name]; !dup {
							out[sel.Sel.Name] = phase
						}
					}
				}
				return true
			})
		}
		return out, probs
	}
	structuralRules["c14.fileset"] = func(w *World) []OblResult {
		h, p1 := placement(w, "httpgen")
		c, p2 := placement(w, "clientgen")
		var out []OblResult
		names := map[string]bool{}
		for k := range h {
			names[k] = true
		}
		for k := range c {
			names[k] = true
		}
		var keys []string
		for k := range names {
			keys = append(keys, k)
		}
		sort.Strings(keys)
		for _, k := range keys {
			var probs []string
			probs = append(probs, p1...)
			probs = append(probs, p2...)
			switch {
			case h[k] == "":
				probs = append(probs, "only the client plugin runs "+k)
			case c[k] == "":
				probs = append(probs, "the client plugin has no "+k+": a package generated with the client alone lacks this codec")
			case h[k] != c[k]:
				probs = append(probs, fmt.Sprintf("%s runs %s in go-http but %s in go-client: for a file without services only one plugin emits the codec file", k, h[k], c[k]))
			}
			out = append(out, structResult("C14.fileset."+strings.TrimSuffix(strings.TrimPrefix(k, "generate"), "File"), "both plugins run "+k+" under the same condition (unconditionally, or only for files with services)", probs))
		}
		return out
	}
}

// ---------------------------------------------------------------------------------------
// C16: recursion inventory. Every function on a call cycle inside the generator packages must carry a
// contract with a `decreases` clause (whose VC is discharged with the function's other obligations).

func reachesSelfAvoiding(start string, edges map[string]map[string]bool, blocked map[string]bool) bool {
	seen := map[string]bool{}
	var stack []string
	for n := range edges[start] {
		stack = append(stack, n)
	}
	for len(stack) > 0 {
		n := stack[len(stack)-1]
		stack = stack[:len(stack)-1]
		if n == start {
			return true
		}
		if seen[n] || blocked[n] {
			continue
		}
		seen[n] = true
		for m := range edges[n] {
			stack = append(stack, m)
		}
	}
	return false
}

func (w *World) recursiveFuncs() map[string][]string {
	edges := w.callEdges()
	return recursiveFrom(edges)
}

var recOnce sync.Once
var recSet map[string][]string

// onCallCycle: the function can reach itself in the static call graph.
func (w *World) onCallCycle(full string) bool {
	recOnce.Do(func() { recSet = w.recursiveFuncs() })
	_, ok := recSet[full]
	return ok
}

func (w *World) callEdges() map[string]map[string]bool {
	// static call graph over repository functions
	edges := map[string]map[string]bool{}
	for full, fi := range w.Funcs {
		if fi.Decl.Body == nil || fi.Obj.Pkg() == nil || !strings.HasPrefix(fi.Obj.Pkg().Path(), modPath) {
			continue
		}
		info := fi.Pkg.TypesInfo
		ast.Inspect(fi.Decl.Body, func(n ast.Node) bool {
			call, ok := n.(*ast.CallExpr)
			if !ok {
				return true
			}
			var fn *types.Func
			switch f := call.Fun.(type) {
			case *ast.Ident:
				fn, _ = info.Uses[f].(*types.Func)
			case *ast.SelectorExpr:
				if s := info.Selections[f]; s != nil {
					fn, _ = s.Obj().(*types.Func)
				} else {
					fn, _ = info.Uses[f.Sel].(*types.Func)
				}
			}
			if fn != nil && w.Funcs[fn.FullName()] != nil {
				if edges[full] == nil {
					edges[full] = map[string]bool{}
				}
				edges[full][fn.FullName()] = true
			}
			return true
		})
	}
	return edges
}

func recursiveFrom(edges map[string]map[string]bool) map[string][]string {
	// functions that can reach themselves
	out := map[string][]string{}
	for start := range edges {
		seen := map[string]bool{}
		var stack []string
		for n := range edges[start] {
			stack = append(stack, n)
		}
		for len(stack) > 0 {
			n := stack[len(stack)-1]
			stack = stack[:len(stack)-1]
			if seen[n] {
				continue
			}
			seen[n] = true
			for m := range edges[n] {
				stack = append(stack, m)
			}
		}
		if seen[start] {
			var cyc []string
			for n := range seen {
				// members of the same cycle: those that also reach start
				cyc = append(cyc, n)
			}
			_ = cyc
			out[start] = nil
		}
	}
	return out
}

func init() {
	structuralRules["c16.recursion"] = func(w *World) []OblResult {
		rec := w.recursiveFuncs()
		var names []string
		for full := range rec {
			names = append(names, full)
		}
		sort.Strings(names)
		var out []OblResult
		edges := w.callEdges()
		measured := map[string]bool{}
		for _, full := range names {
			if c := w.Contracts[shortKey(w.Funcs[full].Obj)]; c != nil && c.Decreases != nil {
				measured[full] = true
			}
		}
		for _, full := range names {
			fi := w.Funcs[full]
			key := shortKey(fi.Obj)
			var probs []string
			text := "recursive function " + key + " carries a termination measure (its VC is discharged with the function's contract)"
			if !measured[full] {
				// a helper without a measure is acceptable when every cycle through it passes through a function that has
				// one: the helper is then verified inlined into that function, recursive calls included
				if reachesSelfAvoiding(full, edges, measured) {
					probs = append(probs, "recursive function "+key+" ("+w.pos(fi.Decl.Pos())+") has no decreases clause and lies on a call cycle none of whose members has one: termination is not established")
				} else {
					text = "every call cycle through " + key + " passes through a function with a termination measure; " + key + " is verified inlined into it (the measure is checked at the recursive calls inside)"
				}
			}
			out = append(out, structResult("C16.dec."+key, text, probs))
		}
		return out
	}
	debugCmds["recursive"] = func(args []string) int {
		w, err := LoadWorld()
		if err != nil {
			fmt.Println(err)
			return 1
		}
		w.LoadRepoContracts()
		var names []string
		for full := range w.recursiveFuncs() {
			names = append(names, full)
		}
		sort.Strings(names)
		for _, full := range names {
			fi := w.Funcs[full]
			c := w.Contracts[shortKey(fi.Obj)]
			mark := "  "
			if c != nil && c.Decreases != nil {
				mark = "ok"
			}
			var ps []string
			sig := fi.Obj.Type().(*types.Signature)
			for i := 0; i < sig.Params().Len(); i++ {
				ps = append(ps, sig.Params().At(i).Name()+" "+types.TypeString(sig.Params().At(i).Type(), func(p *types.Package) string { return p.Name() }))
			}
			fmt.Printf("%s %-70s (%s)\n", mark, shortKey(fi.Obj), strings.Join(ps, ", "))
		}
		return 0
	}
}

// ---------------------------------------------------------------------------------------
// C16: loop inventory. Every loop of the generator code must be of a shape that terminates whenever its body
// does: a range over a slice, array, string, integer or map (whose body does not insert into the ranged map),
// or a counting loop `for i := a; i < n; i++` whose counter and bound the body leaves alone. Any other loop
// needs a variant the contract language cannot state, and is reported.

func init() {
	structuralRules["c16.loops"] = func(w *World) []OblResult {
		perPkg := map[string][]string{}
		count := map[string]int{}
		for _, fi := range w.Funcs {
			if fi.Decl.Body == nil || fi.Obj.Pkg() == nil || !strings.HasPrefix(fi.Obj.Pkg().Path(), modPath) {
				continue
			}
			if strings.HasSuffix(w.Fset.Position(fi.Decl.Pos()).Filename, ".pb.go") {
				continue
			}
			info := fi.Pkg.TypesInfo
			pkg := fi.Obj.Pkg().Path()
			if _, ok := perPkg[pkg]; !ok {
				perPkg[pkg] = nil
			}
			ast.Inspect(fi.Decl.Body, func(n ast.Node) bool {
				switch st := n.(type) {
				case *ast.RangeStmt:
					count[pkg]++
					t := info.TypeOf(st.X)
					if t == nil {
						perPkg[pkg] = append(perPkg[pkg], "range over untyped expression at "+w.pos(st.Pos()))
						return true
					}
					switch u := t.Underlying().(type) {
					case *types.Slice, *types.Array, *types.Basic:
					case *types.Pointer:
						if _, isArr := u.Elem().Underlying().(*types.Array); !isArr {
							perPkg[pkg] = append(perPkg[pkg], "range over "+t.String()+" at "+w.pos(st.Pos()))
						}
					case *types.Map:
						ranged := types.ExprString(st.X)
						ast.Inspect(st.Body, func(m ast.Node) bool {
							if as, ok := m.(*ast.AssignStmt); ok {
								for _, l := range as.Lhs {
									if ix, ok := l.(*ast.IndexExpr); ok && types.ExprString(ix.X) == ranged {
										perPkg[pkg] = append(perPkg[pkg], "loop at "+w.pos(st.Pos())+" inserts into the map it ranges over")
									}
								}
							}
							return true
						})
					default:
						perPkg[pkg] = append(perPkg[pkg], "range over "+t.String()+" (channel or iterator function) at "+w.pos(st.Pos())+": termination is not established")
					}
				case *ast.ForStmt:
					count[pkg]++
					if !countingLoop(info, st) {
						perPkg[pkg] = append(perPkg[pkg], "loop at "+w.pos(st.Pos())+" is not a range or simple counting loop: termination is not established")
					}
				case *ast.BranchStmt:
					if st.Tok == token.GOTO {
						perPkg[pkg] = append(perPkg[pkg], "goto at "+w.pos(st.Pos()))
					}
				}
				return true
			})
		}
		var pkgs []string
		for p := range perPkg {
			pkgs = append(pkgs, p)
		}
		sort.Strings(pkgs)
		var out []OblResult
		for _, p := range pkgs {
			short := strings.TrimPrefix(p, modPath+"/")
			out = append(out, structResult("C16.loops."+short, fmt.Sprintf("all %d loops of package %s terminate whenever their bodies do (range over finite collections, or counting loops)", count[p], short), perPkg[p]))
		}
		return out
	}
}

// countingLoop: `for i := a; i < n; i++` (or <=, or i += c with constant c > 0) where the body assigns neither i
// nor anything occurring in n, and n contains no call other than len.
func countingLoop(info *types.Info, st *ast.ForStmt) bool {
	init, ok := st.Init.(*ast.AssignStmt)
	if !ok || len(init.Lhs) != 1 {
		return false
	}
	iv, ok := init.Lhs[0].(*ast.Ident)
	if !ok {
		return false
	}
	cond, ok := st.Cond.(*ast.BinaryExpr)
	if !ok || (cond.Op != token.LSS && cond.Op != token.LEQ) {
		return false
	}
	if ci, ok := cond.X.(*ast.Ident); !ok || ci.Name != iv.Name {
		return false
	}
	switch post := st.Post.(type) {
	case *ast.IncDecStmt:
		if pi, ok := post.X.(*ast.Ident); !ok || pi.Name != iv.Name || post.Tok != token.INC {
			return false
		}
	default:
		return false
	}
	boundIdents := map[string]bool{iv.Name: true}
	okBound := true
	ast.Inspect(cond.Y, func(n ast.Node) bool {
		switch e := n.(type) {
		case *ast.Ident:
			boundIdents[e.Name] = true
		case *ast.CallExpr:
			if f, ok := e.Fun.(*ast.Ident); !ok || f.Name != "len" {
				okBound = false
			}
		}
		return true
	})
	if !okBound {
		return false
	}
	clean := true
	ast.Inspect(st.Body, func(n ast.Node) bool {
		switch s := n.(type) {
		case *ast.AssignStmt:
			for _, l := range s.Lhs {
				if id, ok := l.(*ast.Ident); ok && boundIdents[id.Name] {
					clean = false
				}
			}
		case *ast.IncDecStmt:
			if id, ok := s.X.(*ast.Ident); ok && boundIdents[id.Name] {
				clean = false
			}
		case *ast.UnaryExpr:
			if s.Op == token.AND {
				if id, ok := s.X.(*ast.Ident); ok && boundIdents[id.Name] {
					clean = false
				}
			}
		}
		return true
	})
	return clean
}

// ---------------------------------------------------------------------------------------
// C07: the TypeScript client and server plugins declare message and enum types through the same functions.
// Both packages must obtain the message set from tscommon.CollectServiceMessages and print every message with
// tscommon.GenerateInterface and every enum with tscommon.GenerateEnumType; neither may print a message- or
// enum-shaped declaration of its own (an `export interface %s {` / `export type %s =` with a format verb as name
// outside the fixed service-level declarations).

func init() {
	structuralRules["c07.shared_types"] = func(w *World) []OblResult {
		var out []OblResult
		for _, pkgName := range []string{"tsclientgen", "tsservergen"} {
			pkg := w.ByName[pkgName]
			var probs []string
			if pkg == nil {
				out = append(out, structResult("C07.shared."+pkgName, "package present", []string{"package " + pkgName + " not loaded"}))
				continue
			}
			called := map[string]bool{}
			for _, fi := range w.Funcs {
				if fi.Obj.Pkg() != pkg || fi.Decl.Body == nil {
					continue
				}
				ast.Inspect(fi.Decl.Body, func(n ast.Node) bool {
					switch x := n.(type) {
					case *ast.CallExpr:
						if sel, ok := x.Fun.(*ast.SelectorExpr); ok {
							if id, ok := sel.X.(*ast.Ident); ok && id.Name == "tscommon" {
								called[sel.Sel.Name] = true
							}
						}
					case *ast.BasicLit:
						if x.Kind == token.STRING {
							v := x.Value
							if (strings.Contains(v, "export interface %s {") || strings.Contains(v, "export type %s =")) && !strings.Contains(v, "%sClientOptions") {
								probs = append(probs, "own type declaration "+v+" at "+w.pos(x.Pos()))
							}
						}
					}
					return true
				})
			}
			for _, need := range []string{"CollectServiceMessages", "GenerateInterface", "GenerateEnumType"} {
				if !called[need] {
					probs = append(probs, "does not call tscommon."+need)
				}
			}
			out = append(out, structResult("C07.shared."+pkgName, "package "+pkgName+" declares message and enum types only through tscommon.GenerateInterface / GenerateEnumType over tscommon.CollectServiceMessages", probs))
		}
		return out
	}
}

// ---------------------------------------------------------------------------------------
// C15: the unwrap table is a cache of annotations.GetUnwrapField. Every insertion into a
// map[string]*annotations.UnwrapFieldInfo in the generator packages must have the shape
//     info, err := annotations.GetUnwrapField(msg) ... if info != nil { table[string(msg.Desc.FullName())] = info }
// (the value is the result of GetUnwrapField on the message whose full name is the key), which is what the
// hypothesis spec.tableSound of collectUnwrapMapFields' contract states.

func init() {
	structuralRules["c15.unwrap_table_writers"] = func(w *World) []OblResult {
		var probs []string
		sites := 0
		for _, fi := range w.Funcs {
			if fi.Decl.Body == nil || fi.Obj.Pkg() == nil || !strings.HasPrefix(fi.Obj.Pkg().Path(), modPath) {
				continue
			}
			info := fi.Pkg.TypesInfo
			// variables assigned from annotations.GetUnwrapField(x): var -> text of x
			fromGet := map[types.Object]string{}
			ast.Inspect(fi.Decl.Body, func(n ast.Node) bool {
				as, ok := n.(*ast.AssignStmt)
				if !ok || len(as.Rhs) != 1 {
					return true
				}
				call, ok := as.Rhs[0].(*ast.CallExpr)
				if !ok || len(call.Args) != 1 {
					return true
				}
				if sel, ok := call.Fun.(*ast.SelectorExpr); ok && sel.Sel.Name == "GetUnwrapField" {
					if id, ok := as.Lhs[0].(*ast.Ident); ok {
						obj := info.Defs[id]
						if obj == nil {
							obj = info.Uses[id]
						}
						if obj != nil {
							fromGet[obj] = types.ExprString(call.Args[0])
						}
					}
				}
				return true
			})
			ast.Inspect(fi.Decl.Body, func(n ast.Node) bool {
				as, ok := n.(*ast.AssignStmt)
				if !ok {
					return true
				}
				for i, l := range as.Lhs {
					ix, ok := l.(*ast.IndexExpr)
					if !ok {
						continue
					}
					mt, ok := info.TypeOf(ix.X).Underlying().(*types.Map)
					if !ok || !strings.HasSuffix(mt.Elem().String(), "annotations.UnwrapFieldInfo") {
						continue
					}
					sites++
					if i >= len(as.Rhs) {
						probs = append(probs, "multi-value insertion at "+w.pos(as.Pos()))
						continue
					}
					vid, ok := as.Rhs[i].(*ast.Ident)
					if !ok {
						probs = append(probs, "inserted value is not a variable at "+w.pos(as.Pos()))
						continue
					}
					src, ok := fromGet[info.Uses[vid]]
					if !ok {
						probs = append(probs, "inserted value "+vid.Name+" does not come from annotations.GetUnwrapField at "+w.pos(as.Pos()))
						continue
					}
					// the key: string(<src>.Desc.FullName()) directly or through a variable initialised with it
					keyText := types.ExprString(ix.Index)
					want := "string(" + src + ".Desc.FullName())"
					if keyText != want {
						okKey := false
						if kid, isId := ix.Index.(*ast.Ident); isId {
							ast.Inspect(fi.Decl.Body, func(m ast.Node) bool {
								if a2, ok := m.(*ast.AssignStmt); ok && len(a2.Lhs) == 1 && len(a2.Rhs) == 1 {
									if id2, ok := a2.Lhs[0].(*ast.Ident); ok && id2.Name == kid.Name && types.ExprString(a2.Rhs[0]) == want {
										okKey = true
									}
								}
								return true
							})
						}
						if !okKey {
							probs = append(probs, "key "+keyText+" is not the full name of the message "+src+" at "+w.pos(as.Pos()))
						}
					}
				}
				return true
			})
		}
		if sites == 0 {
			probs = append(probs, "no insertion into an unwrap table found (rule out of date)")
		}
		return []OblResult{structResult("C15.unwrap_table.writers", fmt.Sprintf("all %d insertions into unwrap tables store annotations.GetUnwrapField(m) under m's full name (the table is a cache of the definitions)", sites), probs)}
	}
}


// sharedMutableType: the type is (or contains) a synchronisation object other than sync.Once / sync.Mutex-guarded plain
// data, i.e. something whose whole point is to be mutated by concurrent users.
func sharedMutableType(t types.Type, depth int) string {
	if depth > 4 {
		return ""
	}
	switch u := t.(type) {
	case *types.Named:
		if o := u.Obj(); o.Pkg() != nil {
			switch o.Pkg().Path() {
			case "sync":
				if o.Name() != "Once" {
					return "sync." + o.Name()
				}
				return ""
			case "sync/atomic":
				return "atomic." + o.Name()
			}
		}
		return sharedMutableType(u.Underlying(), depth+1)
	case *types.Pointer:
		return sharedMutableType(u.Elem(), depth+1)
	case *types.Chan:
		return "channel"
	case *types.Struct:
		for i := 0; i < u.NumFields(); i++ {
			if why := sharedMutableType(u.Field(i).Type(), depth+1); why != "" {
				return why
			}
		}
	case *types.Slice:
		return sharedMutableType(u.Elem(), depth+1)
	case *types.Array:
		return sharedMutableType(u.Elem(), depth+1)
	}
	return ""
}

// ---------------------------------------------------------------------------------------
// C17: slice and map ownership in the emitted runtime. Go slices alias their backing array: append(s[:0], x), or an
// append to / an element store into a slice or map that came in as a parameter, a captured variable, a field or the
// result of a call, may write memory that other requests (other routes, other calls) read. The rule: in the emitted
// server and client templates, every append target and every element store goes to a container the function created
// itself (var declaration, make, composite literal, nil, the result of its own append to such a container, or the
// result of an emitted function all of whose returns are such containers).
func init() {
	structuralRules["emitted.c17.containers"] = func(w *World) []OblResult {
		var probs []string
		if w.Emitted == nil || w.EmittedClient == nil {
			return []OblResult{structResult("C17.containers.owned", "", []string{"emitted package not loaded"})}
		}
		isTemplateFunc := func(fi *FuncInfo) bool {
			if fi.Decl == nil || fi.Decl.Body == nil {
				return false
			}
			if fi.Obj.Pkg() != w.Emitted.Types && fi.Obj.Pkg() != w.EmittedClient.Types {
				return false
			}
			base := filepath.Base(w.Fset.Position(fi.Decl.Pos()).Filename)
			return strings.Contains(base, "_") // <name>.pb.go is protoc-gen-go's own output
		}
		isContainer := func(t types.Type) bool {
			if t == nil {
				return false
			}
			switch t.Underlying().(type) {
			case *types.Slice, *types.Map:
				return true
			}
			return false
		}
		// fixpoint: which emitted functions return only containers they created themselves
		returnsFresh := map[*types.Func]bool{}
		var freshExpr func(info *types.Info, e ast.Expr, freshVar map[*types.Var]bool) bool
		freshExpr = func(info *types.Info, e ast.Expr, freshVar map[*types.Var]bool) bool {
			switch x := unparen(e).(type) {
			case *ast.CompositeLit:
				return true
			case *ast.SliceExpr:
				return freshExpr(info, x.X, freshVar) // a window onto an own array is own memory
			case *ast.Ident:
				if x.Name == "nil" {
					return true
				}
				if v, ok := info.Uses[x].(*types.Var); ok {
					return freshVar[v]
				}
			case *ast.CallExpr:
				if id, ok := unparen(x.Fun).(*ast.Ident); ok {
					if _, isB := info.Uses[id].(*types.Builtin); isB {
						switch id.Name {
						case "make":
							return true
						case "append":
							return len(x.Args) > 0 && freshExpr(info, x.Args[0], freshVar)
						}
					}
					if f, ok := info.Uses[id].(*types.Func); ok {
						return returnsFresh[f]
					}
				}
				if tv, ok := info.Types[x.Fun]; ok && tv.IsType() {
					// conversion, e.g. []byte(s) of a string allocates
					if b, isB := info.TypeOf(x.Args[0]).Underlying().(*types.Basic); isB && b.Info()&types.IsString != 0 {
						return true
					}
				}
			}
			return false
		}
		analyse := func(fi *FuncInfo, report bool) (allReturnsFresh bool) {
			info := fi.Pkg.TypesInfo
			// candidate locals: container-typed variables declared in the body (not parameters, not captured from outside)
			freshVar := map[*types.Var]bool{}
			ast.Inspect(fi.Decl.Body, func(n ast.Node) bool {
				if id, ok := n.(*ast.Ident); ok {
					if v, ok := info.Defs[id].(*types.Var); ok && !v.IsField() && isContainer(v.Type()) {
						freshVar[v] = true
					}
				}
				return true
			})
			// parameters and results are not fresh
			sig := fi.Obj.Type().(*types.Signature)
			for i := 0; i < sig.Params().Len(); i++ {
				delete(freshVar, sig.Params().At(i))
			}
			ast.Inspect(fi.Decl.Body, func(n ast.Node) bool {
				if fl, ok := n.(*ast.FuncLit); ok {
					for _, f := range fl.Type.Params.List {
						for _, nm := range f.Names {
							if v, ok := info.Defs[nm].(*types.Var); ok {
								delete(freshVar, v)
							}
						}
					}
				}
				return true
			})
			// range variables and variables assigned from anything that is not fresh lose the status (to a fixpoint)
			for changed := true; changed; {
				changed = false
				drop := func(v *types.Var) {
					if freshVar[v] {
						delete(freshVar, v)
						changed = true
					}
				}
				ast.Inspect(fi.Decl.Body, func(n ast.Node) bool {
					switch x := n.(type) {
					case *ast.RangeStmt:
						for _, e := range []ast.Expr{x.Key, x.Value} {
							if id, ok := e.(*ast.Ident); ok {
								if v, ok := info.Defs[id].(*types.Var); ok {
									drop(v)
								}
							}
						}
					case *ast.AssignStmt:
						if len(x.Lhs) == len(x.Rhs) {
							for i, l := range x.Lhs {
								if id, ok := l.(*ast.Ident); ok {
									v, _ := info.Defs[id].(*types.Var)
									if v == nil {
										v, _ = info.Uses[id].(*types.Var)
									}
									if v != nil && isContainer(v.Type()) && !freshExpr(info, x.Rhs[i], freshVar) {
										drop(v)
									}
								}
							}
						} else {
							for _, l := range x.Lhs {
								if id, ok := l.(*ast.Ident); ok {
									v, _ := info.Defs[id].(*types.Var)
									if v == nil {
										v, _ = info.Uses[id].(*types.Var)
									}
									if v != nil && isContainer(v.Type()) {
										drop(v) // multi-value call results: not known to be fresh
									}
								}
							}
						}
					case *ast.ValueSpec:
						for i, nm := range x.Names {
							if v, ok := info.Defs[nm].(*types.Var); ok && i < len(x.Values) && isContainer(v.Type()) && !freshExpr(info, x.Values[i], freshVar) {
								drop(v)
							}
						}
					}
					return true
				})
			}
			// two owners that are not created here but are owned by construction: the receiver of a decoder (UnmarshalJSON fills
			// the message it was called on) and the object an option function literal configures (a client under construction
			// or the call-local options of one call; rule C17.client.frame shows options are applied nowhere else)
			ownedRoots := map[*types.Var]bool{}
			if sig.Recv() != nil && fi.Obj.Name() == "UnmarshalJSON" {
				ownedRoots[sig.Recv()] = true
			}
			ast.Inspect(fi.Decl.Body, func(n ast.Node) bool {
				if fl, ok := n.(*ast.FuncLit); ok {
					isOption := false
					ast.Inspect(fi.Decl, func(m ast.Node) bool {
						if ft, ok := m.(*ast.FuncType); ok && ft.Results != nil {
							for _, r := range ft.Results.List {
								if t := info.TypeOf(r.Type); t != nil {
									if nt, ok := t.(*types.Named); ok && strings.HasSuffix(nt.Obj().Name(), "Option") {
										isOption = true
									}
								}
							}
						}
						return true
					})
					if isOption {
						for _, f := range fl.Type.Params.List {
							for _, nm := range f.Names {
								if v, ok := info.Defs[nm].(*types.Var); ok {
									ownedRoots[v] = true
								}
							}
						}
					}
				}
				return true
			})
			fieldOfOwnedRoot := func(e ast.Expr) bool {
				if sel, ok := unparen(e).(*ast.SelectorExpr); ok {
					if rid, ok := unparen(sel.X).(*ast.Ident); ok {
						if rv, ok := info.Uses[rid].(*types.Var); ok && ownedRoots[rv] {
							return true
						}
					}
				}
				return false
			}
			allReturnsFresh = true
			sawReturn := false
			ast.Inspect(fi.Decl.Body, func(n ast.Node) bool {
				switch x := n.(type) {
				case *ast.FuncLit:
					return true
				case *ast.ReturnStmt:
					for _, r := range x.Results {
						if isContainer(info.TypeOf(r)) {
							sawReturn = true
							if !freshExpr(info, r, freshVar) {
								allReturnsFresh = false
							}
						}
					}
				case *ast.CallExpr:
					if !report {
						return true
					}
					if id, ok := unparen(x.Fun).(*ast.Ident); ok && id.Name == "append" && len(x.Args) > 0 {
						if _, isB := info.Uses[id].(*types.Builtin); isB && !freshExpr(info, x.Args[0], freshVar) && !fieldOfOwnedRoot(x.Args[0]) {
							// append to a field of an object the function created itself is the object's own slice
							if sel, ok := unparen(x.Args[0]).(*ast.SelectorExpr); ok {
								if rid, ok := unparen(sel.X).(*ast.Ident); ok {
									if rv, ok := info.Uses[rid].(*types.Var); ok && ownedObject(info, fi.Decl.Body, rv) {
										return true
									}
								}
							}
							probs = append(probs, fmt.Sprintf("%s appends to %s, a slice it did not create (its backing array may be shared) (%s)", fi.Obj.Name(), exprText(w.Fset, x.Args[0]), w.pos(x.Pos())))
						}
					}
				case *ast.AssignStmt:
					if !report {
						return true
					}
					for _, l := range x.Lhs {
						if ix, ok := l.(*ast.IndexExpr); ok && isContainer(info.TypeOf(ix.X)) && !freshExpr(info, ix.X, freshVar) && !fieldOfOwnedRoot(ix.X) {
							probs = append(probs, fmt.Sprintf("%s stores into an element of %s, a container it did not create (%s)", fi.Obj.Name(), exprText(w.Fset, ix.X), w.pos(x.Pos())))
						}
					}
				}
				return true
			})
			return allReturnsFresh && sawReturn
		}
		var fis []*FuncInfo
		for _, k := range w.sortedFuncNames() {
			if fi := w.Funcs[k]; isTemplateFunc(fi) {
				fis = append(fis, fi)
			}
		}
		for changed := true; changed; {
			changed = false
			for _, fi := range fis {
				if r := analyse(fi, false); r != returnsFresh[fi.Obj] {
					returnsFresh[fi.Obj] = r
					changed = true
				}
			}
		}
		for _, fi := range fis {
			analyse(fi, true)
		}
		return []OblResult{structResult("C17.containers.owned", "in the emitted server and client templates every append and every element store goes to a slice or map the function created itself (declaration, make, literal, its own append, or an emitted function returning only such containers): no request-time code can write into a backing array or map shared with another route, request or call", uniq(probs))}
	}
}

// ownedObject: v is a local that is only ever assigned the address of / a composite literal, or new(T).
func ownedObject(info *types.Info, body ast.Node, v *types.Var) bool {
	owned, assigned := true, false
	ast.Inspect(body, func(n ast.Node) bool {
		as, ok := n.(*ast.AssignStmt)
		if !ok || len(as.Lhs) != len(as.Rhs) {
			return true
		}
		for i, l := range as.Lhs {
			id, ok := l.(*ast.Ident)
			if !ok {
				continue
			}
			lv, _ := info.Defs[id].(*types.Var)
			if lv == nil {
				lv, _ = info.Uses[id].(*types.Var)
			}
			if lv != v {
				continue
			}
			assigned = true
			r := unparen(as.Rhs[i])
			if u, ok := r.(*ast.UnaryExpr); ok && u.Op == token.AND {
				r = unparen(u.X)
			}
			switch x := r.(type) {
			case *ast.CompositeLit:
			case *ast.CallExpr:
				if id, ok := x.Fun.(*ast.Ident); !ok || id.Name != "new" {
					owned = false
				}
			default:
				owned = false
			}
		}
		return true
	})
	return owned && assigned
}

func exprText2(fset *token.FileSet, n ast.Node) string {
	var b bytes.Buffer
	printer.Fprint(&b, fset, n)
	return b.String()
}

func exprText(fset *token.FileSet, e ast.Expr) string {
	var b bytes.Buffer
	printer.Fprint(&b, fset, e)
	return b.String()
}

// ---------------------------------------------------------------------------------------
// C05/C06/C07: a list is a JSON array, also when it is empty. encoding/json writes a nil slice as `null`; the SMT model
// reads `s == nil` as len(s) == 0 and cannot tell the two apart, so this is a syntactic rule over the extracted codecs:
// every slice handed to json.Marshal is a local that is only ever assigned make(...), a composite literal or its own append.
func init() {
	structuralRules["emitted.json.slices_nonnil"] = func(w *World) []OblResult {
		var probs []string
		if w.Emitted == nil || w.EmittedClient == nil {
			return []OblResult{structResult("emitted.json.lists_are_arrays", "", []string{"emitted package not loaded"})}
		}
		sites := 0
		for _, k := range w.sortedFuncNames() {
			fi := w.Funcs[k]
			if fi.Decl == nil || fi.Decl.Body == nil || (fi.Obj.Pkg() != w.Emitted.Types && fi.Obj.Pkg() != w.EmittedClient.Types) {
				continue
			}
			if !strings.Contains(filepath.Base(w.Fset.Position(fi.Decl.Pos()).Filename), "_") {
				continue // <name>.pb.go is protoc-gen-go's own output
			}
			info := fi.Pkg.TypesInfo
			nonNil := func(v *types.Var) bool {
				ok, assigned := true, false
				ast.Inspect(fi.Decl.Body, func(n ast.Node) bool {
					switch x := n.(type) {
					case *ast.ValueSpec:
						for i, nm := range x.Names {
							if info.Defs[nm] == v {
								if i >= len(x.Values) {
									ok = false // var s []T: nil
								} else {
									assigned = true
									if !allocExpr(info, x.Values[i], v) {
										ok = false
									}
								}
							}
						}
					case *ast.AssignStmt:
						if len(x.Lhs) != len(x.Rhs) {
							for _, l := range x.Lhs {
								if id, isId := l.(*ast.Ident); isId && (info.Defs[id] == v || info.Uses[id] == v) {
									ok = false
								}
							}
							return true
						}
						for i, l := range x.Lhs {
							if id, isId := l.(*ast.Ident); isId && (info.Defs[id] == v || info.Uses[id] == v) {
								assigned = true
								if !allocExpr(info, x.Rhs[i], v) {
									ok = false
								}
							}
						}
					case *ast.UnaryExpr:
						if x.Op == token.AND {
							if id, isId := unparen(x.X).(*ast.Ident); isId && info.Uses[id] == v {
								ok = false // &s handed to a decoder: may come back nil
							}
						}
					}
					return true
				})
				return ok && assigned
			}
			ast.Inspect(fi.Decl.Body, func(n ast.Node) bool {
				call, isCall := n.(*ast.CallExpr)
				if !isCall || len(call.Args) != 1 {
					return true
				}
				sel, isSel := call.Fun.(*ast.SelectorExpr)
				if !isSel || sel.Sel.Name != "Marshal" {
					return true
				}
				if f, isF := info.Uses[sel.Sel].(*types.Func); !isF || f.Pkg() == nil || f.Pkg().Path() != "encoding/json" {
					return true
				}
				t := info.TypeOf(call.Args[0])
				if t == nil {
					return true
				}
				if _, isSlice := t.Underlying().(*types.Slice); !isSlice {
					return true
				}
				if b, isB := t.Underlying().(*types.Slice).Elem().Underlying().(*types.Basic); isB && b.Kind() == types.Byte {
					return true // []byte is a base64 string, not a list
				}
				sites++
				switch a := unparen(call.Args[0]).(type) {
				case *ast.Ident:
					if v, isV := info.Uses[a].(*types.Var); isV && nonNil(v) {
						return true
					}
				case *ast.CompositeLit:
					return true
				case *ast.CallExpr:
					if id, isId := a.Fun.(*ast.Ident); isId && id.Name == "make" {
						return true
					}
				}
				// ... or the function overrides / short-cuts the empty case explicitly: an `if` whose condition tests
				// len(<the same expression>) == 0 and whose body mentions the literal []byte("[]")
				argText := exprText(w.Fset, call.Args[0])
				guarded := false
				ast.Inspect(fi.Decl.Body, func(m ast.Node) bool {
					ifs, isIf := m.(*ast.IfStmt)
					if !isIf {
						return true
					}
					cond := exprText(w.Fset, ifs.Cond)
					if strings.Contains(cond, "len("+argText+") == 0") && strings.Contains(exprText2(w.Fset, ifs.Body), `[]byte("[]")`) {
						guarded = true
					}
					return true
				})
				if guarded {
					return true
				}
				probs = append(probs, fmt.Sprintf("%s hands the slice %s to json.Marshal, which may be nil: an empty list would be written as null, not [] (%s)", shortKey(fi.Obj), exprText(w.Fset, call.Args[0]), w.pos(call.Pos())))
				return true
			})
		}
		if sites == 0 {
			probs = append(probs, "no json.Marshal call with a slice argument found in the extracted codecs (the extraction schema has a root-unwrap list): the rule would be vacuous")
		}
		return []OblResult{structResult("emitted.json.lists_are_arrays", "every slice the extracted codecs hand to json.Marshal is a local that is only ever assigned make(...), a composite literal or an append to itself, or its empty case is written as the literal [] by an explicit guard: an empty list is written as [], never as null (the documented form of a list, the OpenAPI array schema and the TypeScript array type all exclude null)", uniq(probs))}
	}
}

// allocExpr: e is make(...), a composite literal, or append(v, ...) for the variable itself.
func allocExpr(info *types.Info, e ast.Expr, v *types.Var) bool {
	switch x := unparen(e).(type) {
	case *ast.CompositeLit:
		return true
	case *ast.CallExpr:
		if id, ok := unparen(x.Fun).(*ast.Ident); ok {
			if _, isB := info.Uses[id].(*types.Builtin); isB {
				if id.Name == "make" {
					return true
				}
				if id.Name == "append" && len(x.Args) > 0 {
					if a, ok := unparen(x.Args[0]).(*ast.Ident); ok && info.Uses[a] == v {
						return true
					}
				}
			}
		}
	}
	return false
}

// ---------------------------------------------------------------------------------------
// C15: descriptors are shared by every file, service and plugin pass of one invocation, and the whole contract
// machinery treats them as immutable. An in-place library mutator (sort.*, slices.Sort*/Reverse, copy into) applied to a
// slice the function did not create itself - in particular a descriptor's own child list reached through a local alias -
// would make one output depend on what was generated before it. Rule: in the generator packages and plugin mains, the
// target of every in-place mutator is a slice created in the same function (make, literal, nil + append, conversion),
// and no element of a slice of descriptor pointers is ever assigned.
func init() {
	structuralRules["c15.inplace_own"] = func(w *World) []OblResult {
		var probs []string
		mutators := map[string]bool{"sort.Slice": true, "sort.SliceStable": true, "sort.Sort": true, "sort.Stable": true, "sort.Strings": true, "sort.Ints": true, "sort.Float64s": true,
			"slices.Sort": true, "slices.SortFunc": true, "slices.SortStableFunc": true, "slices.Reverse": true}
		sites := 0
		for _, k := range w.sortedFuncNames() {
			fi := w.Funcs[k]
			if fi.Decl == nil || fi.Decl.Body == nil || fi.Obj.Pkg() == nil || !w.IsRepoFunc(fi.Obj) {
				continue
			}
			path := fi.Obj.Pkg().Path()
			if !(strings.Contains(path, "/internal/") || strings.Contains(path, "/cmd/")) || strings.HasSuffix(w.Fset.Position(fi.Decl.Pos()).Filename, "_test.go") {
				continue
			}
			info := fi.Pkg.TypesInfo
			// locals that only ever hold a slice created here
			fresh := map[*types.Var]bool{}
			var isFresh func(e ast.Expr) bool
			isFresh = func(e ast.Expr) bool {
				switch x := unparen(e).(type) {
				case *ast.CompositeLit:
					return true
				case *ast.SliceExpr:
					return isFresh(x.X)
				case *ast.Ident:
					if x.Name == "nil" {
						return true
					}
					if v, ok := info.Uses[x].(*types.Var); ok {
						return fresh[v]
					}
				case *ast.CallExpr:
					if id, ok := unparen(x.Fun).(*ast.Ident); ok {
						if _, isB := info.Uses[id].(*types.Builtin); isB {
							if id.Name == "make" {
								return true
							}
							if id.Name == "append" && len(x.Args) > 0 {
								return isFresh(x.Args[0])
							}
						}
					}
					if sel, ok := unparen(x.Fun).(*ast.SelectorExpr); ok {
						if f, ok := info.Uses[sel.Sel].(*types.Func); ok && f.Pkg() != nil && f.Pkg().Path() == "strings" {
							return true // strings.Split / Fields return new slices
						}
					}
				case *ast.SelectorExpr:
					// a field that this function itself (only ever) assigns a container it created: obj.F = make(...); obj.F[i] = v
					want := exprText(w.Fset, x)
					okAll, seen := true, false
					ast.Inspect(fi.Decl.Body, func(nd ast.Node) bool {
						if as, isAs := nd.(*ast.AssignStmt); isAs && len(as.Lhs) == len(as.Rhs) {
							for i, l := range as.Lhs {
								if _, isSel := l.(*ast.SelectorExpr); isSel && exprText(w.Fset, l) == want {
									seen = true
									if r, isSel2 := unparen(as.Rhs[i]).(*ast.SelectorExpr); isSel2 && exprText(w.Fset, r) == want {
										continue
									}
									if !isFresh(as.Rhs[i]) {
										okAll = false
									}
								}
							}
						}
						return true
					})
					return seen && okAll
				}
				return false
			}
			sig := fi.Obj.Type().(*types.Signature)
			params := map[*types.Var]bool{}
			for i := 0; i < sig.Params().Len(); i++ {
				params[sig.Params().At(i)] = true
			}
			ast.Inspect(fi.Decl.Body, func(n ast.Node) bool {
				if id, ok := n.(*ast.Ident); ok {
					if v, ok := info.Defs[id].(*types.Var); ok && !v.IsField() && !params[v] {
						if _, isSlice := v.Type().Underlying().(*types.Slice); isSlice {
							fresh[v] = true
						}
					}
				}
				return true
			})
			for changed := true; changed; {
				changed = false
				drop := func(v *types.Var) {
					if fresh[v] {
						delete(fresh, v)
						changed = true
					}
				}
				ast.Inspect(fi.Decl.Body, func(n ast.Node) bool {
					switch x := n.(type) {
					case *ast.RangeStmt:
						for _, e := range []ast.Expr{x.Key, x.Value} {
							if id, ok := e.(*ast.Ident); ok {
								if v, ok := info.Defs[id].(*types.Var); ok {
									drop(v)
								}
							}
						}
					case *ast.FuncLit:
						for _, f := range x.Type.Params.List {
							for _, nm := range f.Names {
								if v, ok := info.Defs[nm].(*types.Var); ok {
									drop(v)
								}
							}
						}
					case *ast.AssignStmt:
						for i, l := range x.Lhs {
							id, ok := l.(*ast.Ident)
							if !ok {
								continue
							}
							v, _ := info.Defs[id].(*types.Var)
							if v == nil {
								v, _ = info.Uses[id].(*types.Var)
							}
							if v == nil || !fresh[v] {
								continue
							}
							if len(x.Lhs) != len(x.Rhs) || !isFresh(x.Rhs[i]) {
								drop(v)
							}
						}
					case *ast.ValueSpec:
						for i, nm := range x.Names {
							if v, ok := info.Defs[nm].(*types.Var); ok && fresh[v] && i < len(x.Values) && !isFresh(x.Values[i]) {
								drop(v)
							}
						}
					}
					return true
				})
			}
			descriptorElems := func(t types.Type) bool {
				s, ok := t.Underlying().(*types.Slice)
				if !ok {
					return false
				}
				if p, ok := s.Elem().(*types.Pointer); ok {
					if nt, ok := types.Unalias(p.Elem()).(*types.Named); ok && nt.Obj().Pkg() != nil && strings.HasSuffix(nt.Obj().Pkg().Path(), "compiler/protogen") {
						return true
					}
				}
				return false
			}
			ast.Inspect(fi.Decl.Body, func(n ast.Node) bool {
				switch x := n.(type) {
				case *ast.CallExpr:
					name := ""
					if sel, ok := unparen(x.Fun).(*ast.SelectorExpr); ok {
						if f, ok := info.Uses[sel.Sel].(*types.Func); ok && f.Pkg() != nil {
							name = f.Pkg().Name() + "." + f.Name()
						}
					} else if id, ok := unparen(x.Fun).(*ast.Ident); ok && id.Name == "copy" {
						if _, isB := info.Uses[id].(*types.Builtin); isB {
							name = "copy"
						}
					}
					if (mutators[name] || name == "copy") && len(x.Args) > 0 {
						sites++
						if !isFresh(x.Args[0]) {
							probs = append(probs, fmt.Sprintf("%s applies %s to %s, a slice it did not create: the caller's (or a descriptor's) list would be reordered in place (%s)", shortKey(fi.Obj), name, exprText(w.Fset, x.Args[0]), w.pos(x.Pos())))
						}
					}
				case *ast.AssignStmt:
					for _, l := range x.Lhs {
						if ix, ok := l.(*ast.IndexExpr); ok {
							if t := info.TypeOf(ix.X); t != nil && descriptorElems(t) && !isFresh(ix.X) {
								probs = append(probs, fmt.Sprintf("%s assigns an element of %s, a list of descriptors it did not create (%s)", shortKey(fi.Obj), exprText(w.Fset, ix.X), w.pos(x.Pos())))
							} else if t != nil && !isFresh(ix.X) {
								// an element store into any slice the function did not create writes the caller's backing array
								// (a parameter list shared by several callees, e.g. the per-service header parameters)
								if _, isSlice := t.Underlying().(*types.Slice); isSlice {
									probs = append(probs, fmt.Sprintf("%s assigns an element of %s, a slice it did not create: the caller's list is rewritten in place (%s)", shortKey(fi.Obj), exprText(w.Fset, ix.X), w.pos(x.Pos())))
								}
							}
						}
						// a field of a descriptor object (protogen.File/Service/Method/Message/Field/Enum/...) is never assigned
						if sel, ok := l.(*ast.SelectorExpr); ok {
							if t := info.TypeOf(sel.X); t != nil {
								if p, isP := t.(*types.Pointer); isP {
									t = p.Elem()
								}
								if nt, isN := types.Unalias(t).(*types.Named); isN && nt.Obj().Pkg() != nil && strings.HasSuffix(nt.Obj().Pkg().Path(), "compiler/protogen") && nt.Obj().Name() != "GeneratedFile" && nt.Obj().Name() != "Plugin" {
									probs = append(probs, fmt.Sprintf("%s assigns %s, a field of a descriptor object shared by the whole invocation (%s)", shortKey(fi.Obj), exprText(w.Fset, l), w.pos(x.Pos())))
								}
							}
						}
					}
				}
				return true
			})
		}
		if sites == 0 {
			probs = append(probs, "no in-place mutator call found in the generator packages (CombineHeaders and OrderedEnums sort): the rule would be vacuous")
		}
		return []OblResult{structResult("C15.inplace.own", "every sort / reverse / copy-into in the generator packages and plugin mains is applied to a slice created in the same function, no element of a slice the function did not create and no field of a descriptor object is assigned: descriptors and shared parameter lists, which all files, services and passes of an invocation share, are never reordered or rewritten", uniq(probs))}
	}
}

// ---------------------------------------------------------------------------------------
// C13: format strings in emitted Go. `go vet` (which `go test` runs) rejects a printf-family call whose constant format has
// an unknown verb or the wrong number of operands, and a '"' or '\' inside it breaks the literal. A format string that an
// emitter opens in one literal and closes in a later one may therefore only have *identifiers* spliced in between: Go names
// of messages, enums and fields (protoc keeps them to [A-Za-z0-9_]), never free text from annotations (custom enum values,
// discriminators, header names, examples, paths), which may contain '%', '"' or '\'.
func init() {
	structuralRules["c13.format_strings"] = func(w *World) []OblResult {
		var probs []string
		open := regexp.MustCompile(`(?:Errorf|Sprintf|Printf|Fprintf|Fatalf|Panicf|Logf|Appendf)\((?:[A-Za-z_.]+,\s*)?"$`)
		sites := 0
		for _, k := range w.sortedFuncNames() {
			fi := w.Funcs[k]
			if fi.Decl == nil || fi.Decl.Body == nil || fi.Obj.Pkg() == nil || !w.IsRepoFunc(fi.Obj) || !strings.Contains(fi.Obj.Pkg().Path(), "/internal/") {
				continue
			}
			if strings.HasSuffix(w.Fset.Position(fi.Decl.Pos()).Filename, "_test.go") {
				continue
			}
			info := fi.Pkg.TypesInfo
			var identValued func(e ast.Expr, depth int) bool
			identValued = func(e ast.Expr, depth int) bool {
				if depth > 4 {
					return false
				}
				e = unparen(e)
				if t := info.TypeOf(e); t != nil {
					if nt, ok := types.Unalias(t).(*types.Named); ok && nt.Obj().Pkg() != nil && strings.HasSuffix(nt.Obj().Pkg().Path(), "compiler/protogen") && (nt.Obj().Name() == "GoIdent" || nt.Obj().Name() == "GoPackageName") {
						return true
					}
				}
				switch x := e.(type) {
				case *ast.SelectorExpr:
					if x.Sel.Name == "GoName" {
						return true
					}
				case *ast.CallExpr:
					if sel, ok := unparen(x.Fun).(*ast.SelectorExpr); ok && len(x.Args) == 1 {
						if f, ok := info.Uses[sel.Sel].(*types.Func); ok && f.Pkg() != nil {
							switch f.Pkg().Name() + "." + f.Name() {
							case "strings.ToLower", "strings.ToUpper", "strings.Title", "annotations.LowerFirst":
								return identValued(x.Args[0], depth+1)
							}
						}
					}
					if tv, ok := info.Types[x.Fun]; ok && tv.IsType() && len(x.Args) == 1 {
						return identValued(x.Args[0], depth+1) // string(name)
					}
				case *ast.Ident:
					if v, ok := info.Uses[x].(*types.Var); ok && !v.IsField() {
						// a local with a single definition
						var def ast.Expr
						n := 0
						ast.Inspect(fi.Decl.Body, func(nd ast.Node) bool {
							if as, ok := nd.(*ast.AssignStmt); ok && len(as.Lhs) == len(as.Rhs) {
								for i, l := range as.Lhs {
									if id, ok := l.(*ast.Ident); ok && (info.Defs[id] == v || info.Uses[id] == v) {
										def = as.Rhs[i]
										n++
									}
								}
							}
							return true
						})
						if n == 1 && def != nil {
							return identValued(def, depth+1)
						}
					}
				}
				return false
			}
			ast.Inspect(fi.Decl.Body, func(n ast.Node) bool {
				call, ok := n.(*ast.CallExpr)
				if !ok {
					return true
				}
				sel, ok := call.Fun.(*ast.SelectorExpr)
				if !ok || sel.Sel.Name != "P" {
					return true
				}
				inFmt := false
				for _, a := range call.Args {
					if bl, ok := unparen(a).(*ast.BasicLit); ok && bl.Kind == token.STRING {
						val, err := strconv.Unquote(bl.Value)
						if err != nil {
							continue
						}
						for i := 0; i < len(val); i++ {
							if inFmt {
								if val[i] == '\\' {
									i++
								} else if val[i] == '"' {
									inFmt = false
								}
							} else if val[i] == '"' && open.MatchString(val[:i+1]) {
								inFmt = true
								sites++
							}
						}
						continue
					}
					if inFmt && !identValued(a, 0) {
						probs = append(probs, fmt.Sprintf("%s splices %s into the format string of an emitted printf-family call: text that is not a Go identifier may contain %%, \" or \\ (go vet failure or broken literal) (%s)", shortKey(fi.Obj), exprText(w.Fset, a), w.pos(a.Pos())))
					}
				}
				return true
			})
		}
		if sites == 0 {
			probs = append(probs, "no emitted printf-family format string found: the rule would be vacuous")
		}
		return []OblResult{structResult("C13.format_strings.identifiers_only", "every format string of a printf-family call that the generators emit consists of literal text and spliced Go identifiers (GoName / GoIdent, possibly case-converted) only: no annotation text can introduce a verb, a quote or a backslash into it", uniq(probs))}
	}
}

// ---------------------------------------------------------------------------------------
// C17: a generated client call only reads the request message it is given. Two calls may share one request (callers
// routinely reuse a message); a client that writes it - even temporarily - makes one call's URL and body depend on
// the other's progress. Taint rule over the extracted client: everything derived from the `req` parameter of an RPC
// method (the message, its reflection view, locals computed from them, and the parameters of emitted helpers they are
// passed to) is never the root of an assignment and never the target of a mutating call.
func init() {
	structuralRules["emitted.c17.request_readonly"] = func(w *World) []OblResult {
		var probs []string
		if w.EmittedClient == nil {
			return []OblResult{structResult("C17.client.request_readonly", "", []string{"emitted client not loaded"})}
		}
		pkg := w.EmittedClient
		info := pkg.TypesInfo
		mutatingMethods := map[string]bool{"Set": true, "Clear": true, "Mutable": true, "Reset": true, "SetUnknown": true, "NewField": true, "UnmarshalJSON": true, "Unmarshal": true, "Append": true, "Truncate": true, "ClearOneof": true}
		// (function, parameter index) pairs known to receive request-derived values
		type pkey struct {
			f *types.Func
			i int
		}
		tainted := map[pkey]bool{}
		rpcMethods := 0
		var fis []*FuncInfo
		for _, k := range w.sortedFuncNames() {
			fi := w.Funcs[k]
			if fi.Decl == nil || fi.Decl.Body == nil || fi.Obj.Pkg() != pkg.Types || !strings.Contains(filepath.Base(w.Fset.Position(fi.Decl.Pos()).Filename), "_client") {
				continue
			}
			fis = append(fis, fi)
			sig := fi.Obj.Type().(*types.Signature)
			if sig.Recv() != nil && strings.HasSuffix(strings.TrimPrefix(sig.Recv().Type().String(), "*"), "Client") && sig.Params().Len() >= 2 &&
				sig.Params().At(0).Type().String() == "context.Context" {
				tainted[pkey{fi.Obj, 1}] = true
				rpcMethods++
			}
		}
		analyse := func(fi *FuncInfo, report bool) bool {
			changed := false
			sig := fi.Obj.Type().(*types.Signature)
			tv := map[*types.Var]bool{}
			for i := 0; i < sig.Params().Len(); i++ {
				if tainted[pkey{fi.Obj, i}] {
					tv[sig.Params().At(i)] = true
				}
			}
			if len(tv) == 0 {
				return false
			}
			var mentions func(e ast.Expr) bool
			mentions = func(e ast.Expr) bool {
				found := false
				ast.Inspect(e, func(n ast.Node) bool {
					if id, ok := n.(*ast.Ident); ok {
						if v, ok := info.Uses[id].(*types.Var); ok && tv[v] {
							found = true
						}
					}
					return !found
				})
				return found
			}
			refLike := func(t types.Type) bool {
				if t == nil {
					return false
				}
				switch t.Underlying().(type) {
				case *types.Pointer, *types.Interface, *types.Map, *types.Slice:
					return true
				}
				return false
			}
			// locals computed from tainted values that can still reach the message (reference-like types only)
			for grow := true; grow; {
				grow = false
				ast.Inspect(fi.Decl.Body, func(n ast.Node) bool {
					if as, ok := n.(*ast.AssignStmt); ok && len(as.Lhs) == len(as.Rhs) {
						for i, l := range as.Lhs {
							if id, ok := l.(*ast.Ident); ok {
								v, _ := info.Defs[id].(*types.Var)
								if v == nil {
									v, _ = info.Uses[id].(*types.Var)
								}
								if v != nil && !tv[v] && refLike(v.Type()) && mentions(as.Rhs[i]) {
									// results of pure encoders are new values, not views of the message
									if call, isCall := unparen(as.Rhs[i]).(*ast.CallExpr); isCall {
										if sel, isSel := unparen(call.Fun).(*ast.SelectorExpr); isSel {
											if f, isF := info.Uses[sel.Sel].(*types.Func); isF && f.Pkg() != nil && f.Pkg() != pkg.Types {
												if s, _ := f.Type().(*types.Signature); s != nil && s.Recv() == nil {
													continue
												}
											}
										}
									}
									tv[v] = true
									grow = true
								}
							}
						}
					}
					return true
				})
			}
			ast.Inspect(fi.Decl.Body, func(n ast.Node) bool {
				switch x := n.(type) {
				case *ast.AssignStmt:
					if report {
						for _, l := range x.Lhs {
							if _, isIdent := l.(*ast.Ident); !isIdent && mentionsRoot(info, l, tv) {
								probs = append(probs, fmt.Sprintf("%s assigns through %s, which is (derived from) the caller's request message (%s)", fi.Obj.Name(), exprText(w.Fset, l), w.pos(x.Pos())))
							}
						}
					}
				case *ast.CallExpr:
					// propagation into emitted helpers, parameter by parameter
					var callee *types.Func
					var recvExpr ast.Expr
					switch fn := unparen(x.Fun).(type) {
					case *ast.Ident:
						callee, _ = info.Uses[fn].(*types.Func)
					case *ast.SelectorExpr:
						callee, _ = info.Uses[fn.Sel].(*types.Func)
						recvExpr = fn.X
					}
					if callee != nil && callee.Pkg() == pkg.Types {
						for i, a := range x.Args {
							if mentions(a) && refLike(info.TypeOf(a)) && !tainted[pkey{callee, i}] {
								tainted[pkey{callee, i}] = true
								changed = true
							}
						}
					}
					if !report || callee == nil {
						return true
					}
					name := callee.Name()
					csig, _ := callee.Type().(*types.Signature)
					if csig != nil && csig.Recv() != nil && mutatingMethods[name] && recvExpr != nil && mentions(recvExpr) {
						probs = append(probs, fmt.Sprintf("%s calls %s on %s, which is (derived from) the caller's request message (%s)", fi.Obj.Name(), name, exprText(w.Fset, recvExpr), w.pos(x.Pos())))
					}
					if csig != nil && csig.Recv() == nil && callee.Pkg() != nil {
						q := callee.Pkg().Name() + "." + name
						dst := -1
						switch q {
						case "proto.Reset", "proto.Merge", "proto.SetExtension", "proto.ClearExtension":
							dst = 0
						case "proto.Unmarshal", "protojson.Unmarshal", "json.Unmarshal":
							dst = 1
						}
						if dst >= 0 && dst < len(x.Args) && mentions(x.Args[dst]) {
							probs = append(probs, fmt.Sprintf("%s passes %s, which is (derived from) the caller's request message, to %s as its target (%s)", fi.Obj.Name(), exprText(w.Fset, x.Args[dst]), q, w.pos(x.Pos())))
						}
					}
				}
				return true
			})
			return changed
		}
		for changed := true; changed; {
			changed = false
			for _, fi := range fis {
				if analyse(fi, false) {
					changed = true
				}
			}
		}
		for _, fi := range fis {
			analyse(fi, true)
		}
		if rpcMethods == 0 {
			probs = append(probs, "no RPC method found in the extracted client: the rule would be vacuous")
		}
		return []OblResult{structResult("C17.client.request_readonly", "the extracted client only reads the request message a call is given: nothing derived from the req parameter of an RPC method (its reflection view and the helpers it is passed to included) is assigned through or is the target of a mutating call, so calls that share a request message cannot influence each other", uniq(probs))}
	}
}

// mentionsRoot: the root object of an lvalue (x in x.f, x[i], *x) is one of the given variables.
func mentionsRoot(info *types.Info, l ast.Expr, vars map[*types.Var]bool) bool {
	for {
		switch x := unparen(l).(type) {
		case *ast.SelectorExpr:
			l = x.X
		case *ast.IndexExpr:
			l = x.X
		case *ast.StarExpr:
			l = x.X
		case *ast.CallExpr:
			// x.ProtoReflect().Set(...) is a call, not an lvalue; an lvalue through a call result: look at the receiver
			if sel, ok := unparen(x.Fun).(*ast.SelectorExpr); ok {
				l = sel.X
				continue
			}
			return false
		case *ast.Ident:
			v, _ := info.Uses[x].(*types.Var)
			return v != nil && vars[v]
		default:
			return false
		}
	}
}

// ---------------------------------------------------------------------------------------
// C17: encoding a message does not write it. The server serialises whatever message a handler returns (possibly one it
// shares between requests), the client whatever request the caller passes (possibly to several calls at once): an encoder
// that assigns through its receiver - even to restore the value afterwards - makes concurrent calls see each other's
// intermediate states. Rule: no emitted MarshalJSON method assigns a field, element or pointee reached from its receiver.
func init() {
	structuralRules["emitted.c17.encoders_readonly"] = func(w *World) []OblResult {
		var probs []string
		if w.Emitted == nil || w.EmittedClient == nil {
			return []OblResult{structResult("C17.encoders.readonly", "", []string{"emitted package not loaded"})}
		}
		n := 0
		for _, k := range w.sortedFuncNames() {
			fi := w.Funcs[k]
			if fi.Decl == nil || fi.Decl.Body == nil || (fi.Obj.Pkg() != w.Emitted.Types && fi.Obj.Pkg() != w.EmittedClient.Types) || fi.Obj.Name() != "MarshalJSON" {
				continue
			}
			if !strings.Contains(filepath.Base(w.Fset.Position(fi.Decl.Pos()).Filename), "_") {
				continue
			}
			sig := fi.Obj.Type().(*types.Signature)
			if sig.Recv() == nil {
				continue
			}
			n++
			info := fi.Pkg.TypesInfo
			recv := map[*types.Var]bool{sig.Recv(): true}
			// the receiver object is found through the declaration's receiver identifier (types.Signature.Recv is the same object)
			ast.Inspect(fi.Decl.Body, func(nd ast.Node) bool {
				switch x := nd.(type) {
				case *ast.AssignStmt:
					for _, l := range x.Lhs {
						if _, isIdent := l.(*ast.Ident); !isIdent && mentionsRoot(info, l, recv) {
							probs = append(probs, fmt.Sprintf("%s assigns %s: an encoder writes the message it encodes (%s)", shortKey(fi.Obj), exprText(w.Fset, l), w.pos(x.Pos())))
						}
					}
				case *ast.IncDecStmt:
					if mentionsRoot(info, x.X, recv) {
						probs = append(probs, fmt.Sprintf("%s modifies %s: an encoder writes the message it encodes (%s)", shortKey(fi.Obj), exprText(w.Fset, x.X), w.pos(x.Pos())))
					}
				case *ast.CallExpr:
					if sel, ok := unparen(x.Fun).(*ast.SelectorExpr); ok {
						if f, ok := info.Uses[sel.Sel].(*types.Func); ok && f.Pkg() != nil {
							q := f.Pkg().Name() + "." + f.Name()
							if (q == "proto.Reset" || q == "proto.Merge") && len(x.Args) > 0 && mentionsRoot(info, x.Args[0], recv) {
								probs = append(probs, fmt.Sprintf("%s passes its receiver to %s as the target (%s)", shortKey(fi.Obj), q, w.pos(x.Pos())))
							}
						}
					}
				}
				return true
			})
		}
		if n == 0 {
			probs = append(probs, "no emitted MarshalJSON method found: the rule would be vacuous")
		}
		return []OblResult{structResult("C17.encoders.readonly", "no emitted MarshalJSON method assigns a field, element or pointee reached from its receiver: serialising a message (a handler's response, a caller's request) never writes it, so messages shared between calls are only read", uniq(probs))}
	}
}

// ---------------------------------------------------------------------------------------
// C13: Go type names in emitted text are import-qualified. A message reached through a field's type (Field.Message) or an
// RPC's request / response (Method.Input / Method.Output) may live in another Go package than the file being generated
// (well-known types, sibling proto packages). protogen qualifies a GoIdent handed to P and adds the import; the bare GoName
// of such a message printed into emitted code names a type the package does not have. Rule: in the Go emitters, no P
// argument is (a local or struct field holding) `M.GoIdent.GoName` for an M obtained through .Message / .Input / .Output.
func init() {
	structuralRules["c13.qualified_types"] = func(w *World) []OblResult {
		var probs []string
		sites := 0
		isProtogen := func(t types.Type, name string) bool {
			if t == nil {
				return false
			}
			if p, ok := t.Underlying().(*types.Pointer); ok {
				t = p.Elem()
			}
			nt, ok := types.Unalias(t).(*types.Named)
			return ok && nt.Obj().Pkg() != nil && strings.HasSuffix(nt.Obj().Pkg().Path(), "compiler/protogen") && nt.Obj().Name() == name
		}
		for _, pkgPath := range w.sortedRepoPkgs() {
			pkg := w.ByPath[pkgPath]
			if pkg == nil || pkg.TypesInfo == nil || !(strings.HasSuffix(pkgPath, "/internal/httpgen") || strings.HasSuffix(pkgPath, "/internal/clientgen")) {
				continue
			}
			info := pkg.TypesInfo
			// every value written to a struct field of this package (assignments and composite literals)
			fieldWrites := map[*types.Var][]ast.Expr{}
			// single-definition locals per function body
			type fnBody struct {
				obj  *types.Func
				body *ast.BlockStmt
			}
			var bodies []fnBody
			for _, file := range pkg.Syntax {
				if strings.HasSuffix(w.Fset.Position(file.Pos()).Filename, "_test.go") {
					continue
				}
				ast.Inspect(file, func(n ast.Node) bool {
					switch x := n.(type) {
					case *ast.FuncDecl:
						if x.Body != nil {
							if obj, ok := info.Defs[x.Name].(*types.Func); ok {
								bodies = append(bodies, fnBody{obj, x.Body})
							}
						}
					case *ast.AssignStmt:
						if len(x.Lhs) == len(x.Rhs) {
							for i, l := range x.Lhs {
								if sel, ok := unparen(l).(*ast.SelectorExpr); ok {
									if v, ok := info.Uses[sel.Sel].(*types.Var); ok && v.IsField() {
										fieldWrites[v] = append(fieldWrites[v], x.Rhs[i])
									}
								}
							}
						}
					case *ast.CompositeLit:
						for _, el := range x.Elts {
							if kv, ok := el.(*ast.KeyValueExpr); ok {
								if id, ok := kv.Key.(*ast.Ident); ok {
									if v, ok := info.Uses[id].(*types.Var); ok && v.IsField() {
										fieldWrites[v] = append(fieldWrites[v], kv.Value)
									}
								}
							}
						}
					}
					return true
				})
			}
			for _, fb := range bodies {
				fb := fb
				localDefs := func(v *types.Var) []ast.Expr {
					var defs []ast.Expr
					ast.Inspect(fb.body, func(nd ast.Node) bool {
						if as, ok := nd.(*ast.AssignStmt); ok && len(as.Lhs) == len(as.Rhs) {
							for i, l := range as.Lhs {
								if id, ok := l.(*ast.Ident); ok && (info.Defs[id] == v || info.Uses[id] == v) {
									defs = append(defs, as.Rhs[i])
								}
							}
						}
						return true
					})
					return defs
				}
				// foreignMsg: the expression denotes a message obtained through .Message / .Input / .Output
				var foreignMsg func(e ast.Expr, depth int) bool
				foreignMsg = func(e ast.Expr, depth int) bool {
					if depth > 5 {
						return false
					}
					switch x := unparen(e).(type) {
					case *ast.SelectorExpr:
						if (x.Sel.Name == "Message" && isProtogen(info.TypeOf(x.X), "Field")) || ((x.Sel.Name == "Input" || x.Sel.Name == "Output") && isProtogen(info.TypeOf(x.X), "Method")) {
							return true
						}
						if v, ok := info.Uses[x.Sel].(*types.Var); ok && v.IsField() && v.Pkg() == pkg.Types {
							for _, d := range fieldWrites[v] {
								if foreignMsg(d, depth+1) {
									return true
								}
							}
						}
					case *ast.Ident:
						if v, ok := info.Uses[x].(*types.Var); ok && !v.IsField() {
							for _, d := range localDefs(v) {
								if foreignMsg(d, depth+1) {
									return true
								}
							}
						}
					}
					return false
				}
				// bareForeignName: the expression is (or holds) the unqualified Go name of such a message
				var bareForeignName func(e ast.Expr, depth int) bool
				bareForeignName = func(e ast.Expr, depth int) bool {
					if depth > 5 {
						return false
					}
					switch x := unparen(e).(type) {
					case *ast.SelectorExpr:
						if x.Sel.Name == "GoName" {
							if in, ok := unparen(x.X).(*ast.SelectorExpr); ok && in.Sel.Name == "GoIdent" && isProtogen(info.TypeOf(in.X), "Message") {
								return foreignMsg(in.X, 0)
							}
							return false
						}
						if v, ok := info.Uses[x.Sel].(*types.Var); ok && v.IsField() && v.Pkg() == pkg.Types {
							for _, d := range fieldWrites[v] {
								if bareForeignName(d, depth+1) {
									return true
								}
							}
						}
					case *ast.Ident:
						if v, ok := info.Uses[x].(*types.Var); ok && !v.IsField() {
							for _, d := range localDefs(v) {
								if bareForeignName(d, depth+1) {
									return true
								}
							}
						}
					case *ast.BinaryExpr:
						return bareForeignName(x.X, depth+1) || bareForeignName(x.Y, depth+1)
					case *ast.CallExpr:
						// string(x), fmt.Sprintf("...", x): the name is still bare
						for _, a := range x.Args {
							if bareForeignName(a, depth+1) {
								return true
							}
						}
					}
					return false
				}
				ast.Inspect(fb.body, func(n ast.Node) bool {
					call, ok := n.(*ast.CallExpr)
					if !ok {
						return true
					}
					sel, ok := call.Fun.(*ast.SelectorExpr)
					if !ok || sel.Sel.Name != "P" || !isProtogen(info.TypeOf(sel.X), "GeneratedFile") {
						return true
					}
					// text emitted so far on this line: a name inside a comment or inside a string literal of the emitted code is
					// harmless (it is not a type reference)
					inString, comment := false, false
					for ai, a := range call.Args {
						if bl, ok := unparen(a).(*ast.BasicLit); ok && bl.Kind == token.STRING {
							if val, err := strconv.Unquote(bl.Value); err == nil {
								if ai == 0 && strings.HasPrefix(strings.TrimSpace(val), "//") {
									comment = true
								}
								for i := 0; i < len(val); i++ {
									if val[i] == '\\' && inString {
										i++
									} else if val[i] == '"' || val[i] == '`' {
										inString = !inString
									}
								}
							}
							continue
						}
						if isProtogen(info.TypeOf(a), "GoIdent") {
							sites++
							continue
						}
						if comment || inString {
							continue
						}
						if bareForeignName(a, 0) {
							probs = append(probs, fmt.Sprintf("%s prints %s, the unqualified Go name of a message that may belong to another Go package (reached through .Message / .Input / .Output): the emitted package does not compile for such a definition; hand P the GoIdent (%s)", shortKey(fb.obj), exprText(w.Fset, a), w.pos(a.Pos())))
						}
					}
					return true
				})
			}
		}
		if sites == 0 {
			probs = append(probs, "no P argument of type protogen.GoIdent found in the Go emitters: the rule would be vacuous")
		}
		return []OblResult{structResult("C13.types.import_qualified", "in protoc-gen-go-http and protoc-gen-go-client no P call prints the bare GoName of a message obtained through Field.Message, Method.Input or Method.Output (directly, through a local, a struct field of the generator or a string built from it): such types reach emitted Go only as protogen.GoIdent, which protogen import-qualifies", uniq(probs))}
	}
}

// ---------------------------------------------------------------------------------------
// C16: the generators are sequential programs. The termination argument of C16 (measures on every call cycle, loop shapes,
// no-panic sweep) is an argument about one thread of control; a goroutine, a channel operation, a select or a blocking
// sync primitive adds ways not to answer (deadlock, a receive nobody serves) that none of those obligations sees. Rule:
// the generator packages and plugin mains contain none of them.
func init() {
	structuralRules["c16.sequential"] = func(w *World) []OblResult {
		var probs []string
		pkgs := 0
		for _, pkgPath := range w.sortedRepoPkgs() {
			pkg := w.ByPath[pkgPath]
			if pkg == nil || pkg.TypesInfo == nil || !(strings.Contains(pkgPath, "/internal/") || strings.Contains(pkgPath, "/cmd/")) {
				continue
			}
			pkgs++
			info := pkg.TypesInfo
			for _, file := range pkg.Syntax {
				fn := w.Fset.Position(file.Pos()).Filename
				if strings.HasSuffix(fn, "_test.go") {
					continue
				}
				ast.Inspect(file, func(n ast.Node) bool {
					switch x := n.(type) {
					case *ast.GoStmt:
						probs = append(probs, fmt.Sprintf("go statement (%s)", w.pos(x.Pos())))
					case *ast.SendStmt:
						probs = append(probs, fmt.Sprintf("channel send (%s)", w.pos(x.Pos())))
					case *ast.SelectStmt:
						probs = append(probs, fmt.Sprintf("select statement (%s)", w.pos(x.Pos())))
					case *ast.UnaryExpr:
						if x.Op == token.ARROW {
							probs = append(probs, fmt.Sprintf("channel receive (%s)", w.pos(x.Pos())))
						}
					case *ast.RangeStmt:
						if t := info.TypeOf(x.X); t != nil {
							if _, ok := t.Underlying().(*types.Chan); ok {
								probs = append(probs, fmt.Sprintf("range over a channel (%s)", w.pos(x.Pos())))
							}
						}
					case *ast.CallExpr:
						if sel, ok := unparen(x.Fun).(*ast.SelectorExpr); ok {
							if f, ok := info.Uses[sel.Sel].(*types.Func); ok && f.Pkg() != nil && f.Pkg().Path() == "sync" {
								switch f.Name() {
								case "Wait", "Lock", "RLock", "Do":
									probs = append(probs, fmt.Sprintf("blocking call sync.%s (%s)", f.Name(), w.pos(x.Pos())))
								}
							}
						}
					}
					return true
				})
			}
		}
		if pkgs == 0 {
			probs = append(probs, "no generator package loaded: the rule would be vacuous")
		}
		return []OblResult{structResult("C16.sequential", "the generator packages and plugin mains contain no go statement, channel operation, select or blocking sync call: every plugin run is one thread of control, which is what the termination measures, loop rules and the no-panic sweep argue about (a deadlock is a way not to answer that they cannot see)", uniq(probs))}
	}
}

// ---------------------------------------------------------------------------------------
// C10: the writer an error hook is handed (responseCapture) records every way of writing through it. The two contracted
// methods (Write sets `written`, WriteHeader sets `wroteHeader`) are what writeErrorWithHandler decides on; net/http and
// io probe a writer for further methods (io.StringWriter, io.ReaderFrom, http.Flusher, ...) and call those *instead of*
// Write when they exist. Rule: any further method declared on responseCapture that uses the wrapped writer starts by
// recording the body write; promoted methods of the embedded interface are exactly Header / Write / WriteHeader.
func init() {
	structuralRules["emitted.c10.capture_complete"] = func(w *World) []OblResult {
		var probs []string
		if w.Emitted == nil {
			return []OblResult{structResult("C10.capture.complete", "", []string{"emitted server not loaded"})}
		}
		pkg := w.Emitted
		info := pkg.TypesInfo
		found := map[string]bool{}
		for _, file := range pkg.Syntax {
			for _, d := range file.Decls {
				fd, ok := d.(*ast.FuncDecl)
				if !ok || fd.Recv == nil || len(fd.Recv.List) != 1 || fd.Body == nil {
					continue
				}
				rt := info.TypeOf(fd.Recv.List[0].Type)
				if rt == nil {
					continue
				}
				if p, ok := rt.(*types.Pointer); ok {
					rt = p.Elem()
				}
				nt, ok := types.Unalias(rt).(*types.Named)
				if !ok || nt.Obj().Name() != "responseCapture" {
					continue
				}
				found[fd.Name.Name] = true
				if fd.Name.Name == "Write" || fd.Name.Name == "WriteHeader" {
					continue
				}
				usesWriter := false
				ast.Inspect(fd.Body, func(n ast.Node) bool {
					if sel, ok := n.(*ast.SelectorExpr); ok && sel.Sel.Name == "ResponseWriter" {
						usesWriter = true
					}
					return true
				})
				if !usesWriter {
					continue
				}
				// first statement: <recv>.written = true
				ok = false
				if len(fd.Body.List) > 0 {
					if as, isAs := fd.Body.List[0].(*ast.AssignStmt); isAs && len(as.Lhs) == 1 && len(as.Rhs) == 1 {
						if sel, isSel := as.Lhs[0].(*ast.SelectorExpr); isSel && sel.Sel.Name == "written" {
							if id, isId := as.Rhs[0].(*ast.Ident); isId && id.Name == "true" {
								ok = true
							}
						}
					}
				}
				if !ok {
					probs = append(probs, fmt.Sprintf("responseCapture.%s reaches the wrapped ResponseWriter without first recording the write (written = true): a hook whose output goes through it is not seen as having written the response (%s)", fd.Name.Name, w.pos(fd.Pos())))
				}
			}
		}
		if !found["Write"] || !found["WriteHeader"] {
			probs = append(probs, "responseCapture does not declare both Write and WriteHeader in the extracted server: the rule would be vacuous")
		}
		return []OblResult{structResult("C10.capture.complete", "every method the emitted responseCapture declares besides Write and WriteHeader (both under contract: they set written / wroteHeader) that uses the wrapped writer starts with `written = true`: whichever optional writer interface net/http, io or a hook probes for, a body written through the capture is recorded, so the hook's response is never followed by a second body", uniq(probs))}
	}
}
