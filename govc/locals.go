package main

// Renamed locals: contracts (loop invariants, at-call clauses) may mention local variables of the function under
// verification. A rename of such a local is a harmless edit; to keep it from unbinding the contract, every local a
// unit declares is recorded (spec/locals.json: declaration ordinal in source order and type, taken on the tree the
// contracts were written against). A name that no longer resolves is looked up there and bound to the local with the
// same ordinal and type. Rebinding cannot make a wrong program verify: invariants and clauses are proved, never
// assumed, whatever they are bound to.

import (
	"bytes"
	"go/printer"
	"go/token"
	"encoding/json"
	"fmt"
	"go/ast"
	"go/types"
	"os"
	"path/filepath"
	"sort"
	"sync"
)

type localRec struct {
	Ord  int    `json:"ord"`
	Type string `json:"type"`
}

var localsSnapshot map[string]map[string][]localRec
var localsOnce sync.Once

func loadLocalsSnapshot() map[string]map[string][]localRec {
	localsOnce.Do(func() {
		data, err := os.ReadFile(filepath.Join(verifDir(), "spec", "locals.json"))
		if err != nil {
			return
		}
		json.Unmarshal(data, &localsSnapshot)
	})
	return localsSnapshot
}

// localOrdinals numbers the variables a function body declares, in source order.
func localOrdinals(info *types.Info, body ast.Node) (map[types.Object]int, []*types.Var) {
	ord := map[types.Object]int{}
	var list []*types.Var
	if body == nil {
		return ord, nil
	}
	ast.Inspect(body, func(n ast.Node) bool {
		id, ok := n.(*ast.Ident)
		if !ok {
			return true
		}
		if v, ok := info.Defs[id].(*types.Var); ok && !v.IsField() {
			if _, seen := ord[v]; !seen {
				ord[v] = len(list)
				list = append(list, v)
			}
		}
		return true
	})
	return ord, list
}

func typeKey(t types.Type) string {
	return types.TypeString(t, func(p *types.Package) string { return p.Path() })
}

// reboundLocal: the current value of the local that the snapshot knows under a name the code no longer has.
func (ex *Exec) reboundLocal(p *Path, name string) (Value, bool) {
	snap := loadLocalsSnapshot()
	if snap == nil || ex.localOrd == nil {
		return Value{}, false
	}
	recs := snap[ex.funcKey][name]
	var best types.Object
	for _, r := range recs {
		for o := range p.vars {
			if n, ok := ex.localOrd[o]; ok && n == r.Ord && typeKey(o.Type()) == r.Type {
				if best == nil || o.Pos() > best.Pos() {
					best = o
				}
			}
		}
	}
	if best == nil {
		return Value{}, false
	}
	ex.note("contract name %q no longer exists in %s: bound to the local %q (same declaration ordinal and type in spec/locals.json)", name, ex.funcKey, best.Name())
	return p.vars[best], true
}

// loopSignature: what a loop ranges over / tests, as source text (used to recognise loops that were merely reordered).
func loopSignature(fset *token.FileSet, n ast.Node) string {
	var e ast.Node
	switch l := n.(type) {
	case *ast.RangeStmt:
		e = l.X
	case *ast.ForStmt:
		if l.Cond == nil {
			return "for"
		}
		e = l.Cond
	}
	var b bytes.Buffer
	printer.Fprint(&b, fset, e)
	return b.String()
}

var loopsOnce sync.Once
var loopsSnapshot map[string][]string

func loadLoopsSnapshot() map[string][]string {
	loopsOnce.Do(func() {
		data, err := os.ReadFile(filepath.Join(verifDir(), "spec", "loops.json"))
		if err != nil {
			return
		}
		json.Unmarshal(data, &loopsSnapshot)
	})
	return loopsSnapshot
}

// remapLoopOrdinals: if the unit's loops are exactly the recorded ones in another order (every signature unique), each
// loop keeps the ordinal it had when the contract was written, so `loop N invariant` and `_iN` still mean the same loop.
func (ex *Exec) remapLoopOrdinals(body ast.Node) {
	snap := loadLoopsSnapshot()
	want := snap[ex.funcKey]
	if len(want) == 0 || len(want) != len(ex.loopOrdinals) {
		return
	}
	cur := make([]string, len(want))
	nodes := make([]ast.Node, len(want))
	for n, ord := range ex.loopOrdinals {
		if ord < 1 || ord > len(want) {
			return
		}
		cur[ord-1] = loopSignature(ex.w.Fset, n)
		nodes[ord-1] = n
	}
	same := true
	for i := range want {
		if want[i] != cur[i] {
			same = false
		}
	}
	if same {
		return
	}
	pos := map[string]int{}
	for i, s := range want {
		if _, dup := pos[s]; dup {
			return
		}
		pos[s] = i
	}
	seen := map[string]bool{}
	for _, s := range cur {
		if _, ok := pos[s]; !ok || seen[s] {
			return
		}
		seen[s] = true
	}
	for i, s := range cur {
		ex.loopOrdinals[nodes[i]] = pos[s] + 1
	}
	ex.note("the loops of %s were reordered: invariants follow the loops they were written for (spec/loops.json)", ex.funcKey)
}

func init() {
	debugCmds["snapshot-locals"] = func(args []string) int {
		w := loadAll()
		if err := w.LoadEmitted(); err != nil {
			fmt.Println("emitted:", err)
			return 1
		}
		out := map[string]map[string][]localRec{}
		loopsOut := map[string][]string{}
		var keys []string
		for k := range w.Contracts {
			keys = append(keys, k)
		}
		sort.Strings(keys)
		for _, k := range keys {
			c := w.Contracts[k]
			var fi *FuncInfo
			if c.Emitted {
				fi = w.LookupEmitted(trimEmitted(c.Key))
			} else {
				fi = w.LookupFunc(k)
			}
			if fi == nil || fi.Decl.Body == nil {
				continue
			}
			if len(c.Loops) > 0 {
				var sigs []string
				ast.Inspect(fi.Decl.Body, func(n ast.Node) bool {
					switch n.(type) {
					case *ast.RangeStmt, *ast.ForStmt:
						sigs = append(sigs, loopSignature(w.Fset, n))
					}
					return true
				})
				loopsOut[c.Key] = sigs
			}
			_, list := localOrdinals(fi.Pkg.TypesInfo, fi.Decl.Body)
			if len(list) == 0 {
				continue
			}
			m := map[string][]localRec{}
			for i, v := range list {
				if v.Name() == "_" {
					continue
				}
				m[v.Name()] = append(m[v.Name()], localRec{i, typeKey(v.Type())})
			}
			out[c.Key] = m
		}
		data, _ := json.MarshalIndent(out, "", " ")
		p := filepath.Join(verifDir(), "spec", "locals.json")
		if err := os.WriteFile(p, data, 0o644); err != nil {
			fmt.Println(err)
			return 1
		}
		ldata, _ := json.MarshalIndent(loopsOut, "", " ")
		os.WriteFile(filepath.Join(verifDir(), "spec", "loops.json"), ldata, 0o644)
		fmt.Println("wrote", p, "units:", len(out), "loop signatures:", len(loopsOut))
		return 0
	}
}

func trimEmitted(k string) string {
	if len(k) > 8 && k[:8] == "emitted." {
		return k[8:]
	}
	return k
}
