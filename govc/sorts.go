package main

// Go type -> SMT sort mapping. One Go type maps to exactly one SMT sort.

import (
	"fmt"
	"go/types"
	"strings"
)

// Value is a symbolic value: an SMT term and its Go type.
type Value struct {
	T  string
	Ty types.Type
}

func isNamedFrom(t types.Type, pkgSuffix, name string) bool {
	if p, ok := t.(*types.Pointer); ok {
		t = p.Elem()
	}
	n, ok := t.(*types.Named)
	if !ok {
		return false
	}
	if n.Obj().Name() != name {
		return false
	}
	return n.Obj().Pkg() != nil && strings.HasSuffix(n.Obj().Pkg().Path(), pkgSuffix)
}

// SortOf returns the SMT sort for a Go type, declaring datatypes on demand.
func (c *Ctx) SortOf(t types.Type) string {
	switch tt := t.(type) {
	case *types.Alias:
		return c.SortOf(types.Unalias(tt))
	case *types.Named:
		u := tt.Underlying()
		switch ut := u.(type) {
		case *types.Struct:
			return c.structSort(tt, ut)
		case *types.Interface:
			return "Iface"
		}
		return c.SortOf(u)
	case *types.Basic:
		info := tt.Info()
		switch {
		case info&types.IsBoolean != 0:
			return "Bool"
		case info&types.IsInteger != 0:
			return "Int"
		case info&types.IsFloat != 0:
			return "Real"
		case info&types.IsString != 0:
			return "String"
		case tt.Kind() == types.UntypedNil:
			return "Ref"
		case tt.Kind() == types.UnsafePointer:
			return "Ref"
		}
		return "Int"
	case *types.Pointer, *types.Signature, *types.Chan:
		return "Ref"
	case *types.Interface:
		return "Iface"
	case *types.TypeParam:
		return "Iface"
	case *types.Slice:
		return c.sliceSort(tt.Elem())
	case *types.Array:
		return c.sliceSort(tt.Elem())
	case *types.Map:
		return c.mapSort(tt.Key(), tt.Elem())
	case *types.Struct:
		return c.structSort(nil, tt)
	case *types.Tuple:
		return "Int" // never used as a first-class value
	}
	panic(fmt.Sprintf("SortOf: unsupported type %T %s", t, t))
}

func sortToken(s string) string {
	s = strings.Trim(s, "|")
	r := strings.NewReplacer("(", "<", ")", ">", " ", "_")
	return r.Replace(s)
}

func (c *Ctx) sliceSort(elem types.Type) string {
	es := c.SortOf(elem)
	name := "|Slice:" + sortToken(es) + "|"
	if !c.sortSeen[name] {
		c.sortSeen[name] = true
		k := sortToken(es)
		c.sortDecls = append(c.sortDecls, fmt.Sprintf(
			"(declare-datatypes ((%s 0)) (((|mk_slice:%s| (|sarr:%s| (Array Int %s)) (|slen:%s| Int)))))", name, k, k, es, k))
	}
	return name
}

func (c *Ctx) mapSort(key, elem types.Type) string {
	ks, es := c.SortOf(key), c.SortOf(elem)
	k := sortToken(ks) + "," + sortToken(es)
	name := "|Map:" + k + "|"
	if !c.sortSeen[name] {
		c.sortSeen[name] = true
		c.sortDecls = append(c.sortDecls, fmt.Sprintf(
			"(declare-datatypes ((%s 0)) (((|mk_map:%s| (|mdom:%s| (Array %s Bool)) (|mval:%s| (Array %s %s)) (|mnil:%s| Bool)))))",
			name, k, k, ks, k, ks, es, k))
	}
	return name
}

func structKey(n *types.Named, st *types.Struct) string {
	if n != nil {
		o := n.Obj()
		if n.TypeArgs() != nil && n.TypeArgs().Len() > 0 {
			// instantiated generic struct: the type arguments are part of the identity
			var args []string
			for i := 0; i < n.TypeArgs().Len(); i++ {
				args = append(args, sortToken(types.TypeString(n.TypeArgs().At(i), func(p *types.Package) string { return p.Name() })))
			}
			pk := ""
			if o.Pkg() != nil {
				pk = o.Pkg().Name() + "."
			}
			return pk + o.Name() + "<" + strings.Join(args, ",") + ">"
		}
		if o.Pkg() != nil {
			if strings.Contains(o.Pkg().Path(), "internal/") && !strings.HasPrefix(o.Pkg().Path(), modPath) {
				return o.Pkg().Path() + "." + o.Name()
			}
			return o.Pkg().Name() + "." + o.Name()
		}
		return o.Name()
	}
	return "anon{" + sortToken(st.String()) + "}"
}

func (c *Ctx) structSort(n *types.Named, st *types.Struct) string {
	key := structKey(n, st)
	name := "|S:" + key + "|"
	if c.sortSeen[name] {
		return name
	}
	c.sortSeen[name] = true
	// declare field sorts first
	var fields []string
	for i := 0; i < st.NumFields(); i++ {
		f := st.Field(i)
		fs := c.SortOf(f.Type())
		fields = append(fields, fmt.Sprintf("(|%s.%s| %s)", key, f.Name(), fs))
	}
	if len(fields) == 0 {
		c.sortDecls = append(c.sortDecls, fmt.Sprintf("(declare-datatypes ((%s 0)) (((|mk:%s|))))", name, key))
	} else {
		c.sortDecls = append(c.sortDecls, fmt.Sprintf("(declare-datatypes ((%s 0)) (((|mk:%s| %s))))", name, key, strings.Join(fields, " ")))
	}
	return name
}

// helpers over slice values

func (c *Ctx) sliceParts(t types.Type) (mk, arr, ln string) {
	var elem types.Type
	switch tt := t.Underlying().(type) {
	case *types.Slice:
		elem = tt.Elem()
	case *types.Array:
		elem = tt.Elem()
	default:
		panic("sliceParts: not a slice: " + t.String())
	}
	c.sliceSort(elem)
	k := sortToken(c.SortOf(elem))
	return "|mk_slice:" + k + "|", "|sarr:" + k + "|", "|slen:" + k + "|"
}

func (c *Ctx) sliceLen(v Value) string {
	_, _, ln := c.sliceParts(v.Ty)
	return app(ln, v.T)
}

func (c *Ctx) sliceAt(v Value, idx string) string {
	_, arr, _ := c.sliceParts(v.Ty)
	return "(select " + app(arr, v.T) + " " + idx + ")"
}

func (c *Ctx) mapParts(t types.Type) (mk, dom, val, isnil string) {
	m := t.Underlying().(*types.Map)
	c.mapSort(m.Key(), m.Elem())
	k := sortToken(c.SortOf(m.Key())) + "," + sortToken(c.SortOf(m.Elem()))
	return "|mk_map:" + k + "|", "|mdom:" + k + "|", "|mval:" + k + "|", "|mnil:" + k + "|"
}

func elemType(t types.Type) types.Type {
	switch tt := t.Underlying().(type) {
	case *types.Slice:
		return tt.Elem()
	case *types.Array:
		return tt.Elem()
	case *types.Map:
		return tt.Elem()
	case *types.Pointer:
		return tt.Elem()
	}
	panic("elemType: " + t.String())
}

// Zero returns the zero value term of a type.
func (c *Ctx) Zero(t types.Type) string {
	s := c.SortOf(t)
	switch s {
	case "Bool":
		return "false"
	case "Int":
		return "0"
	case "Real":
		return "0.0"
	case "String":
		return `""`
	case "Ref":
		return "null"
	case "Iface":
		return "nil_iface"
	}
	switch tt := t.Underlying().(type) {
	case *types.Slice:
		mk, _, _ := c.sliceParts(t)
		return app(mk, c.constArray("Int", c.SortOf(tt.Elem()), c.Zero(tt.Elem())), "0")
	case *types.Array:
		mk, _, _ := c.sliceParts(t)
		return app(mk, c.constArray("Int", c.SortOf(tt.Elem()), c.Zero(tt.Elem())), fmt.Sprint(tt.Len()))
	case *types.Map:
		mk, _, _, _ := c.mapParts(t)
		return app(mk, c.constArray(c.SortOf(tt.Key()), "Bool", "false"), c.constArray(c.SortOf(tt.Key()), c.SortOf(tt.Elem()), c.Zero(tt.Elem())), "true")
	case *types.Struct:
		var n *types.Named
		if nn, ok := types.Unalias(t).(*types.Named); ok {
			n = nn
		}
		key := structKey(n, tt)
		var args []string
		for i := 0; i < tt.NumFields(); i++ {
			args = append(args, c.Zero(tt.Field(i).Type()))
		}
		return app("|mk:"+key+"|", args...)
	}
	panic("Zero: unsupported " + t.String())
}

// constArray: a constant array. cvc5 only accepts constant arrays of *values*; for element sorts
// without literals (Ref, datatypes) an uninterpreted array constant is used instead -- cells outside
// the length / domain of a slice or map are never read, so their content is irrelevant.
func (c *Ctx) constArray(ks, vs, v string) string {
	if vs == "Bool" || vs == "Int" || vs == "Real" || vs == "String" {
		return fmt.Sprintf("((as const (Array %s %s)) %s)", ks, vs, v)
	}
	return c.Const("emptyarr:"+sortToken(ks)+">"+sortToken(vs), fmt.Sprintf("(Array %s %s)", ks, vs))
}

// typeInvariant returns facts that hold for every value of the type (lengths non-negative,
// unsigned non-negative, fixed-width ranges). Mathematical integers with ranges assumed.
func (c *Ctx) typeInvariant(v Value) string {
	switch tt := v.Ty.Underlying().(type) {
	case *types.Basic:
		switch tt.Kind() {
		case types.Uint, types.Uint64, types.Uintptr:
			return "(and (>= " + v.T + " 0) (<= " + v.T + " 18446744073709551615))"
		case types.Uint32:
			return "(and (>= " + v.T + " 0) (<= " + v.T + " 4294967295))"
		case types.Uint16:
			return "(and (>= " + v.T + " 0) (<= " + v.T + " 65535))"
		case types.Uint8:
			return "(and (>= " + v.T + " 0) (<= " + v.T + " 255))"
		case types.Int32:
			return "(and (>= " + v.T + " (- 2147483648)) (<= " + v.T + " 2147483647))"
		case types.Int, types.Int64:
			return "(and (>= " + v.T + " (- 9223372036854775808)) (<= " + v.T + " 9223372036854775807))"
		case types.Int16:
			return "(and (>= " + v.T + " (- 32768)) (<= " + v.T + " 32767))"
		case types.Int8:
			return "(and (>= " + v.T + " (- 128)) (<= " + v.T + " 127))"
		case types.Float32:
			// values of type float32 are float32-representable reals
			return app(c.Fun("isF32", []string{"Real"}, "Bool"), v.T)
		}
	case *types.Slice:
		return "(>= " + c.sliceLen(v) + " 0)"
	case *types.Array:
		return "(= " + c.sliceLen(v) + " " + fmt.Sprint(tt.Len()) + ")"
	}
	return "true"
}

// structFieldSel returns the selector function name for a field of a struct value sort.
func (c *Ctx) structFieldSel(t types.Type, field string) (sel string, ft types.Type, ok bool) {
	st, isStruct := t.Underlying().(*types.Struct)
	if !isStruct {
		return "", nil, false
	}
	var n *types.Named
	if nn, isN := types.Unalias(t).(*types.Named); isN {
		n = nn
	}
	c.SortOf(t)
	key := structKey(n, st)
	for i := 0; i < st.NumFields(); i++ {
		if st.Field(i).Name() == field {
			return "|" + key + "." + field + "|", st.Field(i).Type(), true
		}
	}
	return "", nil, false
}

func (c *Ctx) structMk(t types.Type) (mk string, st *types.Struct) {
	st = t.Underlying().(*types.Struct)
	var n *types.Named
	if nn, isN := types.Unalias(t).(*types.Named); isN {
		n = nn
	}
	c.SortOf(t)
	return "|mk:" + structKey(n, st) + "|", st
}
