package main

// World: loaded packages of the repository under verification, function index, contracts, specs.

import (
	"fmt"
	"go/ast"
	"go/token"
	"go/types"
	"os"
	"path/filepath"
	"sort"
	"strings"
	"sync"

	"golang.org/x/tools/go/packages"
)

type FuncInfo struct {
	Obj  *types.Func
	Decl *ast.FuncDecl
	Pkg  *packages.Package
}

type World struct {
	Repo      string
	Fset      *token.FileSet
	Pkgs      []*packages.Package
	ByPath    map[string]*packages.Package // import path -> package (incl. deps)
	ByName    map[string]*types.Package    // short name used in contracts/specs -> package
	Funcs     map[string]*FuncInfo         // types.Func.FullName() -> info (repo + extracted packages)
	Contracts map[string]*Contract         // FullName -> contract
	Specs     map[string]*SpecFunc         // spec.<name>
	Axioms    []*SpecAxiom
	Lemmas    map[string]*Lemma
	LemmaOrd  []string
	RepoPaths map[string]bool // package paths that belong to the repository (or extracted code)
	written   map[string]bool // struct fields assigned somewhere after allocation (modref.go); nil = not yet computed
	funcWrites  map[string]*funcWrites
	escapedKeys map[string]types.Type
	directWritten map[string]bool // fields some repository statement assigns by name (no reflection, no escape)
	writtenMu sync.Mutex
	EmittedPaths map[string]bool // package paths of extracted emitted code
	extTypes map[string]types.Type
	Emitted *packages.Package
	EmittedClient *packages.Package
	EmittedDir string
	emittedLoaded bool
	emittedErr error
}

const modPath = "github.com/SebastienMelki/sebuf"

func repoDir() string {
	if d := os.Getenv("VERIF_REPO"); d != "" {
		return d
	}
	return "/repo"
}

func verifDir() string {
	if d := os.Getenv("VERIF_DIR"); d != "" {
		return d
	}
	exe, err := os.Executable()
	if err == nil {
		d := filepath.Dir(filepath.Dir(exe))
		if _, err := os.Stat(filepath.Join(d, "properties.jsonl")); err == nil {
			return d
		}
	}
	return "/verif"
}

func LoadWorld(patterns ...string) (*World, error) {
	repo := repoDir()
	if len(patterns) == 0 {
		patterns = []string{"./internal/...", "./http", "./cmd/..."}
	}
	fset := token.NewFileSet()
	cfg := &packages.Config{
		Mode: packages.NeedName | packages.NeedSyntax | packages.NeedTypes | packages.NeedTypesInfo |
			packages.NeedImports | packages.NeedDeps | packages.NeedFiles | packages.NeedCompiledGoFiles,
		Dir:  repo,
		Fset: fset,
		Env:  append(os.Environ(), "GOFLAGS=-mod=mod", "GOPROXY=off"),
	}
	pkgs, err := packages.Load(cfg, patterns...)
	if err != nil {
		return nil, err
	}
	w := &World{Repo: repo, Fset: fset, Pkgs: pkgs, ByPath: map[string]*packages.Package{}, ByName: map[string]*types.Package{},
		Funcs: map[string]*FuncInfo{}, Contracts: map[string]*Contract{}, Specs: map[string]*SpecFunc{}, Lemmas: map[string]*Lemma{},
		RepoPaths: map[string]bool{}, EmittedPaths: map[string]bool{}}
	var errs []string
	packages.Visit(pkgs, nil, func(p *packages.Package) {
		w.ByPath[p.PkgPath] = p
		if strings.HasPrefix(p.PkgPath, modPath) {
			for _, e := range p.Errors {
				errs = append(errs, e.Error())
			}
		}
	})
	if len(errs) > 0 {
		return nil, fmt.Errorf("package errors: %s", strings.Join(errs, "; "))
	}
	for _, p := range pkgs {
		w.AddPackage(p)
	}
	// also index repo packages that came in only as dependencies (e.g. sebuf/http)
	for path, p := range w.ByPath {
		if strings.HasPrefix(path, modPath) && !w.RepoPaths[path] && len(p.Syntax) > 0 {
			w.AddPackage(p)
		}
	}
	w.bindNames()
	w.extOnce()
	return w, nil
}

// AddPackage indexes the functions of a package with syntax.
func (w *World) AddPackage(p *packages.Package) {
	w.RepoPaths[p.PkgPath] = true
	w.ByPath[p.PkgPath] = p
	for _, f := range p.Syntax {
		for _, d := range f.Decls {
			fd, ok := d.(*ast.FuncDecl)
			if !ok {
				continue
			}
			obj, _ := p.TypesInfo.Defs[fd.Name].(*types.Func)
			if obj == nil {
				continue
			}
			w.Funcs[obj.FullName()] = &FuncInfo{Obj: obj, Decl: fd, Pkg: p}
		}
	}
}

// bindNames fixes the short package names usable in contracts and spec files.
func (w *World) bindNames() {
	alias := map[string]string{
		"annotations":  modPath + "/internal/annotations",
		"httpgen":      modPath + "/internal/httpgen",
		"clientgen":    modPath + "/internal/clientgen",
		"tsclientgen":  modPath + "/internal/tsclientgen",
		"tsservergen":  modPath + "/internal/tsservergen",
		"tscommon":     modPath + "/internal/tscommon",
		"openapiv3":    modPath + "/internal/openapiv3",
		"sebufhttp":    modPath + "/http",
		"protogen":     "google.golang.org/protobuf/compiler/protogen",
		"protoreflect": "google.golang.org/protobuf/reflect/protoreflect",
		"descriptorpb": "google.golang.org/protobuf/types/descriptorpb",
		"proto":        "google.golang.org/protobuf/proto",
		"protojson":    "google.golang.org/protobuf/encoding/protojson",
		"nethttp":      "net/http",
		"strings":      "strings",
		"strconv":      "strconv",
		"fmt":          "fmt",
		"validate":     "buf.build/gen/go/bufbuild/protovalidate/protocolbuffers/go/buf/validate",
		"base":         "github.com/pb33f/libopenapi/datamodel/high/base",
		"v3":           "github.com/pb33f/libopenapi/datamodel/high/v3",
		"yaml":         "go.yaml.in/yaml/v4",
		"json":         "encoding/json",
		"k8syaml":      "sigs.k8s.io/yaml",
		"url":          "net/url",
		"main":         modPath + "/cmd/protoc-gen-openapiv3", // the only plugin main with logic of its own
		"pluginpb":     "google.golang.org/protobuf/types/pluginpb",
		"time":         "time",
		"timestamppb":  "google.golang.org/protobuf/types/known/timestamppb",
		"base64":       "encoding/base64",
		"hex":          "encoding/hex",
		"utf8":         "unicode/utf8",
		"context":      "context",
	}
	for name, path := range alias {
		if p, ok := w.ByPath[path]; ok && p.Types != nil {
			w.ByName[name] = p.Types
		}
	}
}

func (w *World) FuncByName(full string) *FuncInfo { return w.Funcs[full] }

// LookupFunc resolves "pkg.Func" or "pkg.Type.Method" (short package names) to a FuncInfo.
func (w *World) LookupFunc(short string) *FuncInfo {
	parts := strings.Split(short, ".")
	if len(parts) < 2 {
		return nil
	}
	pkg := w.ByName[parts[0]]
	if pkg == nil {
		return nil
	}
	if len(parts) == 2 {
		if f, ok := pkg.Scope().Lookup(parts[1]).(*types.Func); ok {
			return w.Funcs[f.FullName()]
		}
		return nil
	}
	tn, ok := pkg.Scope().Lookup(parts[1]).(*types.TypeName)
	if !ok {
		return nil
	}
	for _, t := range []types.Type{tn.Type(), types.NewPointer(tn.Type())} {
		obj, _, _ := types.LookupFieldOrMethod(t, true, pkg, parts[2])
		if f, ok := obj.(*types.Func); ok {
			return w.Funcs[f.FullName()]
		}
	}
	return nil
}

func (w *World) IsRepoFunc(f *types.Func) bool {
	return f.Pkg() != nil && w.RepoPaths[f.Pkg().Path()]
}

func (w *World) sortedRepoPkgs() []string {
	var out []string
	for p := range w.ByPath {
		if w.RepoPaths[p] {
			out = append(out, p)
		}
	}
	sort.Strings(out)
	return out
}

func (w *World) sortedFuncNames() []string {
	var ks []string
	for k := range w.Funcs {
		ks = append(ks, k)
	}
	sort.Strings(ks)
	return ks
}

func (w *World) pos(p token.Pos) string {
	if !p.IsValid() {
		return "-"
	}
	ps := w.Fset.Position(p)
	rel := ps.Filename
	if r, err := filepath.Rel(w.Repo, ps.Filename); err == nil && !strings.HasPrefix(r, "..") {
		rel = r
	}
	return fmt.Sprintf("%s:%d", rel, ps.Line)
}
