package main

// Contract-mode evaluation: clause expressions (CExpr), name resolution, spec functions, builtins.

import (
	"regexp"
	"fmt"
	"go/ast"
	"go/token"
	"go/types"
	"sort"
	"strings"
)

func (ex *Exec) lookupNameC(p *Path, name string) (Value, bool) {
	if v, ok := p.names[name]; ok {
		return v, true
	}
	// locals and parameters of the function under verification, by name (latest declaration wins): current values
	var best types.Object
	own := func(o types.Object) bool {
		// only variables of the unit under verification: a callee that was inlined leaves its locals behind in p.vars
		if ex.localOrd == nil || ex.fi == nil || ex.fi.Decl == nil {
			return true
		}
		if _, ok := ex.localOrd[o]; ok {
			return true
		}
		return o.Pos() >= ex.fi.Decl.Pos() && o.Pos() <= ex.fi.Decl.End()
	}
	for o := range p.vars {
		if o.Name() == name && own(o) {
			if best == nil || o.Pos() > best.Pos() {
				best = o
			}
		}
	}
	for o := range p.cells {
		if o.Name() == name && own(o) && (best == nil || o.Pos() > best.Pos()) {
			best = o
		}
	}
	if best == nil && !p.inOld {
		// a parameter the code has renamed: the contract's name still denotes it, with its current value
		if v := ex.paramAlias[name]; v != nil {
			if _, ok := p.vars[v]; ok {
				best = v
			} else if _, ok := p.cells[v]; ok {
				best = v
			}
		}
	}
	if best != nil {
		if r, ok := p.cells[best]; ok {
			// the local's address was taken: its current value is in its heap cell
			return ex.heapRead(p, "deref:"+sortToken(ex.c.SortOf(best.Type())), best.Type(), r), true
		}
		return p.vars[best], true
	}
	if v, ok := p.entry[name]; ok {
		return v, true
	}
	if v, ok := ex.reboundLocal(p, name); ok {
		return v, true
	}
	return Value{}, false
}

func (ex *Exec) evalIdentC(p *Path, id *ast.Ident) Value {
	if strings.HasPrefix(id.Name, "sub__") {
		for i := len(ex.subsStack) - 1; i >= 0; i-- {
			if ce, ok := ex.subsStack[i][id.Name]; ok {
				return Value{ex.evalClause(p, ce, false), types.Typ[types.Bool]}
			}
		}
	}
	if v, ok := ex.lookupNameC(p, id.Name); ok {
		return v
	}
	if ex.pkg != nil {
		if obj := ex.pkg.Scope().Lookup(id.Name); obj != nil {
			return ex.objValue(p, obj, id.Pos())
		}
	}
	if loopIndexNameRe.MatchString(id.Name) && ex.evaluatingAtCall {
		// an at-call clause is evaluated at every call of the callee it names; a loop index it mentions is only bound
		// inside that loop - elsewhere it reads as -1 ("not in that loop"), so that a clause can say `in_loop ==> ...`
		return Value{"(- 1)", types.Typ[types.Int]}
	}
	ex.unsupp(id.Pos(), "contract: unknown name %q", id.Name)
	return Value{}
}

var loopIndexNameRe = regexp.MustCompile(`^_i\d*$`)


// evalClause evaluates a clause expression to a Bool term.
func (ex *Exec) evalClause(p *Path, ce *CExpr, assume bool) string {
	ex.contractMode++
	saveObl := ex.oblCalls
	if !ex.lemmaMode {
		ex.oblCalls = false
	}
	defer func() { ex.contractMode--; ex.oblCalls = saveObl }()
	return ex.evalCE(p, ce).T
}

func (ex *Exec) evalClauseValue(p *Path, ce *CExpr) Value {
	ex.contractMode++
	saveObl := ex.oblCalls
	if !ex.lemmaMode {
		ex.oblCalls = false
	}
	defer func() { ex.contractMode--; ex.oblCalls = saveObl }()
	return ex.evalCE(p, ce)
}

func (ex *Exec) evalCE(p *Path, ce *CExpr) Value {
	boolT := types.Typ[types.Bool]
	switch ce.Kind {
	case "go":
		ex.subsStack = append(ex.subsStack, ce.Subs)
		defer func() { ex.subsStack = ex.subsStack[:len(ex.subsStack)-1] }()
		return ex.eval(p, ce.Go)
	case "imp":
		l := ex.evalCE(p, ce.L)
		ex.guards = append(ex.guards, l.T)
		r := ex.evalCE(p, ce.R)
		ex.guards = ex.guards[:len(ex.guards)-1]
		return Value{implies(l.T, r.T), boolT}
	case "iff":
		l := ex.evalCE(p, ce.L)
		r := ex.evalCE(p, ce.R)
		return Value{eq(l.T, r.T), boolT}
	case "forall", "exists":
		saved := map[string]*Value{}
		var binders []string
		var invs []string
		for _, b := range ce.Vars {
			t, err := ex.w.ResolveType(b.Type, ex.pkg)
			if err != nil {
				ex.unsupp(token.NoPos, "quantifier binder %s: %v", b.Name, err)
			}
			if old, ok := p.names[b.Name]; ok {
				o := old
				saved[b.Name] = &o
			} else {
				saved[b.Name] = nil
			}
			ex.qvarCounter++
			vn := fmt.Sprintf("|%s?%d|", b.Name, ex.qvarCounter)
			p.names[b.Name] = Value{vn, t}
			binders = append(binders, "("+vn+" "+ex.c.SortOf(t)+")")
			if _, isSlice := t.Underlying().(*types.Slice); isSlice {
				invs = append(invs, ex.c.typeInvariant(Value{vn, t}))
			}
			if b, ok := t.Underlying().(*types.Basic); ok && b.Kind() == types.Float32 {
				invs = append(invs, ex.c.typeInvariant(Value{vn, t}))
			}
		}
		outer := ex.quantFacts
		var facts []string
		ex.quantFacts = &facts
		saveGuards := ex.guards
		ex.guards = nil
		body := ex.evalCE(p, ce.Body)
		var trig string
		if len(ce.Trig) > 0 {
			var ts []string
			for _, t := range ce.Trig {
				ts = append(ts, ex.evalCE(p, t).T)
			}
			trig = " :pattern (" + strings.Join(ts, " ") + ")"
		}
		ex.guards = saveGuards
		ex.quantFacts = outer
		for n, o := range saved {
			if o == nil {
				delete(p.names, n)
			} else {
				p.names[n] = *o
			}
		}
		bs := "(" + strings.Join(binders, " ") + ")"
		for _, f := range facts {
			ex.assumeFact(p, "(forall "+bs+" "+f+")")
		}
		b := body.T
		if ce.Kind == "forall" {
			b = implies(and(invs...), b)
		} else {
			b = and(append(invs, b)...)
		}
		if trig != "" {
			b = "(! " + b + trig + ")"
		}
		return Value{"(" + ce.Kind + " " + bs + " " + b + ")", boolT}
	}
	ex.unsupp(token.NoPos, "clause kind %s", ce.Kind)
	return Value{}
}

// ---------------------------------------------------------------------------------------

func (ex *Exec) evalCallC(p *Path, call *ast.CallExpr, multi bool) []Value {
	fun := call.Fun
	if pe, ok := fun.(*ast.ParenExpr); ok {
		fun = pe.X
	}
	switch f := fun.(type) {
	case *ast.Ident:
		if vs, ok := ex.contractBuiltin(p, f.Name, call); ok {
			return vs
		}
		if _, shadow := ex.lookupNameC(p, f.Name); !shadow {
			if tn, ok := types.Universe.Lookup(f.Name).(*types.TypeName); ok {
				v := ex.eval(p, call.Args[0])
				return []Value{ex.convert(p, v, tn.Type(), call.Pos())}
			}
			if ex.pkg != nil {
				switch o := ex.pkg.Scope().Lookup(f.Name).(type) {
				case *types.TypeName:
					v := ex.eval(p, call.Args[0])
					return []Value{ex.convert(p, v, o.Type(), call.Pos())}
				case *types.Func:
					args := ex.evalArgsC(p, call, o.Type().(*types.Signature))
					return ex.callFunc(p, o, nil, args, call)
				}
			}
		}
		// emitted package functions are addressed by bare name from emitted contracts
		ex.unsupp(call.Pos(), "contract: unknown function %s", f.Name)
	case *ast.SelectorExpr:
		if id, ok := f.X.(*ast.Ident); ok {
			if id.Name == "spec" {
				return []Value{ex.callSpec(p, f.Sel.Name, call)}
			}
			if _, shadow := ex.lookupNameC(p, id.Name); !shadow {
				if pkg := ex.w.ByName[id.Name]; pkg != nil {
					switch o := pkg.Scope().Lookup(f.Sel.Name).(type) {
					case *types.TypeName:
						v := ex.eval(p, call.Args[0])
						return []Value{ex.convert(p, v, o.Type(), call.Pos())}
					case *types.Func:
						args := ex.evalArgsC(p, call, o.Type().(*types.Signature))
						return ex.callFunc(p, o, nil, args, call)
					}
					ex.unsupp(call.Pos(), "contract: unknown %s.%s", id.Name, f.Sel.Name)
				}
			}
		}
		base := ex.eval(p, f.X)
		pkg := pkgOfType(base.Ty)
		if pkg == nil {
			pkg = ex.pkg
		}
		obj, index, _ := types.LookupFieldOrMethod(base.Ty, true, pkg, f.Sel.Name)
		fn, ok := obj.(*types.Func)
		if !ok {
			ex.unsupp(call.Pos(), "contract: no method %s on %s", f.Sel.Name, base.Ty)
		}
		recv := base
		for _, i := range index[:len(index)-1] {
			recv = ex.fieldByIndex(p, recv, i, call.Pos())
		}
		args := ex.evalArgsC(p, call, fn.Type().(*types.Signature))
		return ex.callFunc(p, fn, &recv, args, call)
	case *ast.StarExpr, *ast.ArrayType:
		t, err := ex.w.ResolveType(f, ex.pkg)
		if err != nil {
			ex.unsupp(call.Pos(), "%v", err)
		}
		v := ex.eval(p, call.Args[0])
		return []Value{ex.convert(p, v, t, call.Pos())}
	}
	ex.unsupp(call.Pos(), "contract: call form %T", fun)
	return nil
}

func (ex *Exec) evalArgsC(p *Path, call *ast.CallExpr, sig *types.Signature) []Value {
	var vals []Value
	for _, a := range call.Args {
		vals = append(vals, ex.eval(p, a))
	}
	return ex.packArgs(p, sig, vals, call.Ellipsis.IsValid(), call.Pos())
}

func (ex *Exec) packArgs(p *Path, sig *types.Signature, vals []Value, ellipsis bool, pos token.Pos) []Value {
	np := sig.Params().Len()
	var args []Value
	for i, v := range vals {
		if sig.Variadic() && i >= np-1 {
			if ellipsis {
				args = append(args, v)
			} else {
				et := sig.Params().At(np - 1).Type().(*types.Slice).Elem()
				args = append(args, ex.convert(p, v, et, pos))
			}
			continue
		}
		if i < np {
			v = ex.convert(p, v, sig.Params().At(i).Type(), pos)
		}
		args = append(args, v)
	}
	ex.lastVariadic = nil
	if sig.Variadic() && !ellipsis {
		fixed := np - 1
		if len(args) >= fixed {
			st := sig.Params().At(np - 1).Type()
			tail := args[fixed:]
			mk, _, _ := ex.c.sliceParts(st)
			et := elemType(st)
			arr := ex.c.constArray("Int", ex.c.SortOf(et), ex.c.Zero(et))
			for i, t := range tail {
				arr = "(store " + arr + " " + fmt.Sprint(i) + " " + t.T + ")"
			}
			packed := Value{app(mk, arr, fmt.Sprint(len(tail))), st}
			ex.lastVariadic = append([]Value(nil), tail...)
			args = append(append([]Value{}, args[:fixed]...), packed)
		}
	}
	return args
}

var boundVarRe = regexp.MustCompile(`\|[^|]*\?\d+\|`)

// callSpec expands a spec function.
func (ex *Exec) callSpec(p *Path, name string, call *ast.CallExpr) Value {
	sf := ex.w.Specs[name]
	if sf == nil {
		ex.unsupp(call.Pos(), "unknown spec function spec.%s", name)
	}
	if len(call.Args) != len(sf.Params) {
		ex.unsupp(call.Pos(), "spec.%s: expected %d arguments", name, len(sf.Params))
	}
	var args []Value
	var ptypes []types.Type
	for i, a := range call.Args {
		t, err := ex.w.ResolveType(sf.Params[i].Type, nil)
		if err != nil {
			ex.unsupp(call.Pos(), "spec.%s: %v", name, err)
		}
		v := ex.convert(p, ex.eval(p, a), t, call.Pos())
		args = append(args, v)
		ptypes = append(ptypes, t)
	}
	rt, err := ex.w.ResolveType(sf.Result, nil)
	if err != nil {
		ex.unsupp(call.Pos(), "spec.%s: %v", name, err)
	}
	if sf.Trusted {
		ex.c.Trust("spec:" + name + " (" + sf.File + ")")
	}
	if sf.Body == nil || sf.Rec {
		var sorts, terms []string
		for _, a := range args {
			sorts = append(sorts, ex.c.SortOf(a.Ty))
			terms = append(terms, a.T)
		}
		f := ex.c.Fun("spec:"+name, sorts, ex.c.SortOf(rt))
		if sf.Rec && (!sf.Hidden || (ex.contract != nil && ex.contract.Reveal[name]) || ex.revealAll[name]) {
			ex.defineRec(sf, f, ptypes, rt)
		}
		return Value{app(f, terms...), rt}
	}
	// macro expansion
	saveNames, saveEntry, savePkg := p.names, p.entry, ex.pkg
	p.names = map[string]Value{}
	p.entry = map[string]Value{}
	for i, b := range sf.Params {
		// a large closed argument is named once instead of being copied at every use in the body (nested spec
		// functions otherwise grow exponentially); arguments that mention a bound variable cannot be named outside
		if len(args[i].T) > 160 && !boundVarRe.MatchString(args[i].T) {
			c := ex.c.Fresh("sa:"+b.Name, ex.c.SortOf(args[i].Ty))
			p.Assume(eq(c, args[i].T))
			args[i] = Value{c, args[i].Ty}
		}
		p.names[b.Name] = args[i]
	}
	ex.pkg = nil
	saveVars := p.vars
	p.vars = map[types.Object]Value{}
	v := ex.evalCE(p, sf.Body)
	p.vars = saveVars
	p.names, p.entry, ex.pkg = saveNames, saveEntry, savePkg
	return ex.convert(p, v, rt, call.Pos())
}


// defineRec emits the defining axiom of a recursive spec function (over the immutable heap only).
func (ex *Exec) defineRec(sf *SpecFunc, f string, ptypes []types.Type, rt types.Type) {
	key := "rec:" + sf.Name
	if ex.c.axiomSeen[key] || ex.recDefining[key] {
		return
	}
	ex.recDefining[key] = true
	defer delete(ex.recDefining, key)
	q := NewPath()
	var binders, terms []string
	var invs []string
	for i, b := range sf.Params {
		ex.qvarCounter++
		vn := fmt.Sprintf("|%s?%d|", b.Name, ex.qvarCounter)
		q.names[b.Name] = Value{vn, ptypes[i]}
		binders = append(binders, "("+vn+" "+ex.c.SortOf(ptypes[i])+")")
		terms = append(terms, vn)
		if inv := ex.c.typeInvariant(Value{vn, ptypes[i]}); inv != "true" {
			invs = append(invs, inv)
		}
	}
	outer := ex.quantFacts
	var facts []string
	ex.quantFacts = &facts
	saveGuards, savePkg := ex.guards, ex.pkg
	ex.guards = nil
	ex.pkg = nil
	ex.noBirth++
	body := ex.evalCE(q, sf.Body)
	ex.noBirth--
	ex.guards, ex.pkg = saveGuards, savePkg
	ex.quantFacts = outer
	bs := "(" + strings.Join(binders, " ") + ")"
	def := "(= " + app(f, terms...) + " " + body.T + ")"
	ax := "(forall " + bs + " (! " + implies(and(invs...), def) + " :pattern (" + app(f, terms...) + ")))"
	ex.c.Axiom(key, ax)
	// flattened (prenex) intro/elim forms: easier to instantiate than the nested definition
	if sf.Body.Kind == "exists" || sf.Body.Kind == "forall" {
		inner := strings.TrimPrefix(body.T, "("+sf.Body.Kind+" ")
		ib := firstArg(inner)
		rest := strings.TrimSpace(inner[len(ib):])
		rest = strings.TrimSuffix(rest, ")")
		if strings.HasPrefix(ib, "(") && !strings.HasPrefix(rest, "(!") {
			allB := "(" + strings.Join(binders, " ") + " " + strings.TrimSuffix(strings.TrimPrefix(ib, "("), ")") + ")"
			var flat string
			if sf.Body.Kind == "exists" {
				flat = "(forall " + allB + " " + implies(and(append(invs, rest)...), app(f, terms...)) + ")"
			} else {
				flat = "(forall " + allB + " " + implies(and(append(invs, app(f, terms...))...), rest) + ")"
			}
			ex.c.Axiom(key+".flat", flat)
		}
	}
	for i, fct := range facts {
		ex.c.Axiom(fmt.Sprintf("%s.fact%d", key, i), "(forall "+bs+" "+fct+")")
	}
	for _, a := range q.pc {
		_ = a
	}
}

// contractBuiltin implements the built-in pure functions of the contract language.
func (ex *Exec) contractBuiltin(p *Path, name string, call *ast.CallExpr) ([]Value, bool) {
	boolT, strT, intT := types.Typ[types.Bool], types.Typ[types.String], types.Typ[types.Int]
	arg := func(i int) Value { return ex.eval(p, call.Args[i]) }
	one := func(v Value) ([]Value, bool) { return []Value{v}, true }
	if vs, ok := ex.ghostBuiltin(p, name, call); ok {
		return vs, true
	}
	switch name {
	case "len":
		return one(ex.lenOf(arg(0), call.Pos()))
	case "old":
		save := p.inOld
		p.inOld = true
		saveNames := p.names
		if p.entry != nil {
			// parameter names refer to entry values inside old()
			n := map[string]Value{}
			for k, v := range p.names {
				n[k] = v
			}
			for k, v := range p.entry {
				n[k] = v
			}
			p.names = n
		}
		v := arg(0)
		p.names = saveNames
		p.inOld = save
		return one(v)
	case "ite":
		c, a, b := arg(0), arg(1), arg(2)
		if isUntypedNil(a) {
			a = ex.convert(p, a, b.Ty, call.Pos())
		}
		if isUntypedNil(b) {
			b = ex.convert(p, b, a.Ty, call.Pos())
		}
		return one(Value{ite(c.T, a.T, b.T), a.Ty})
	case "hasPrefix":
		return one(Value{"(str.prefixof " + arg(1).T + " " + arg(0).T + ")", boolT})
	case "hasSuffix":
		return one(Value{"(str.suffixof " + arg(1).T + " " + arg(0).T + ")", boolT})
	case "contains":
		return one(Value{"(str.contains " + arg(0).T + " " + arg(1).T + ")", boolT})
	case "trimPrefix":
		return one(Value{trimPrefixT(arg(0).T, arg(1).T), strT})
	case "trimSuffix":
		return one(Value{trimSuffixT(arg(0).T, arg(1).T), strT})
	case "indexOf":
		return one(Value{"(str.indexof " + arg(0).T + " " + arg(1).T + " 0)", intT})
	case "substr":
		return one(Value{"(str.substr " + arg(0).T + " " + arg(1).T + " " + arg(2).T + ")", strT})
	case "lower":
		return one(Value{app(ex.c.Fun("obs:strings.ToLower/String", []string{"String"}, "String"), arg(0).T), strT})
	case "upper":
		return one(Value{app(ex.c.Fun("obs:strings.ToUpper/String", []string{"String"}, "String"), arg(0).T), strT})
	case "member":
		s, v := arg(0), arg(1)
		ex.qvarCounter++
		k := fmt.Sprintf("|k?%d|", ex.qvarCounter)
		return one(Value{"(exists ((" + k + " Int)) (and (>= " + k + " 0) (< " + k + " " + ex.c.sliceLen(s) + ") (= " + ex.c.sliceAt(s, k) + " " + v.T + ")))", boolT})
	case "inDom":
		m, k := arg(0), arg(1)
		_, dom, _, _ := ex.c.mapParts(m.Ty)
		return one(Value{"(select " + app(dom, m.T) + " " + k.T + ")", boolT})
	case "isType":
		// isType(x, T): dynamic type test
		t, err := ex.w.ResolveType(call.Args[1], ex.pkg)
		if err != nil {
			ex.unsupp(call.Pos(), "%v", err)
		}
		return one(Value{ex.typeTest(p, arg(0), t), boolT})
	case "asType":
		t, err := ex.w.ResolveType(call.Args[1], ex.pkg)
		if err != nil {
			ex.unsupp(call.Pos(), "%v", err)
		}
		return one(ex.assertedValue(arg(0), t))
	case "jsonDecodes", "jsonDecoded":
		// jsonDecodes(b, T): would json.Unmarshal(b, &t) with t of type T succeed; jsonDecoded(b, T): what it stores then
		t, err := ex.w.ResolveType(call.Args[1], ex.pkg)
		if err != nil {
			ex.unsupp(call.Pos(), "%v", err)
		}
		okT, decT := ex.jsonDecodeTerms(arg(0).T, t)
		if name == "jsonDecodes" {
			return one(Value{okT, boolT})
		}
		return one(Value{decT, t})
	case "isFresh":
		// isFresh(x): the object was allocated during this call of the unit (allocation clock: entry = 0)
		v := arg(0)
		ref := v.T
		if ex.c.SortOf(v.Ty) == "Iface" {
			ref = "(iref " + v.T + ")"
		}
		return one(Value{"(>= (" + ex.birthFun() + " " + ref + ") 0)", boolT})
	case "errmsg":
		return one(Value{ex.errMsg(arg(0)), strT})
	case "isNil":
		return one(Value{ex.isNilTerm(arg(0)), boolT})
	case "strOfInt":
		return one(Value{ex.fmtInt(arg(0).T), strT})
	case "toReal":
		v := arg(0)
		if ex.c.SortOf(v.Ty) == "Real" {
			return one(v)
		}
		return one(Value{"(to_real " + v.T + ")", types.Typ[types.Float64]})
	case "deref":
		ptr := arg(0)
		et := elemType(ptr.Ty)
		return one(ex.heapRead(p, "deref:"+sortToken(ex.c.SortOf(et)), et, ptr.T))
	case "mapSet":
		mm, k, v := arg(0), arg(1), arg(2)
		mt := mm.Ty.Underlying().(*types.Map)
		mk, dom, val, _ := ex.c.mapParts(mm.Ty)
		kk := ex.convert(p, k, mt.Key(), call.Pos())
		vv := ex.convert(p, v, mt.Elem(), call.Pos())
		return one(Value{app(mk, "(store "+app(dom, mm.T)+" "+kk.T+" true)", "(store "+app(val, mm.T)+" "+kk.T+" "+vv.T+")", "false"), mm.Ty})
	case "mapDel":
		// mapDel(m, k): the map after delete(m, k) (same term shape as the builtin's model)
		mm, k := arg(0), arg(1)
		mt := mm.Ty.Underlying().(*types.Map)
		mk, dom, val, isnil := ex.c.mapParts(mm.Ty)
		kk := ex.convert(p, k, mt.Key(), call.Pos())
		return one(Value{app(mk, "(store "+app(dom, mm.T)+" "+kk.T+" false)", app(val, mm.T), app(isnil, mm.T)), mm.Ty})
	case "charAt":
		return one(Value{"(str.to_code (str.at " + arg(0).T + " " + arg(1).T + "))", intT})
	case "result0", "result1", "result2":
		vals := ex.evalMulti(p, call.Args[0])
		idx := int(name[len(name)-1] - '0')
		if idx >= len(vals) {
			ex.unsupp(call.Pos(), "%s: call has %d results", name, len(vals))
		}
		return one(vals[idx])
	case "strLess":
		return one(Value{"(str.< " + arg(0).T + " " + arg(1).T + ")", boolT})
	case "strLenCP":
		return one(Value{"(str.len " + arg(0).T + ")", intT})
	}
	return nil, false
}

func trimPrefixT(s, pre string) string {
	return ite("(str.prefixof "+pre+" "+s+")", "(str.substr "+s+" (str.len "+pre+") (- (str.len "+s+") (str.len "+pre+")))", s)
}

func trimSuffixT(s, suf string) string {
	return ite("(str.suffixof "+suf+" "+s+")", "(str.substr "+s+" 0 (- (str.len "+s+") (str.len "+suf+")))", s)
}

func (ex *Exec) errMsg(v Value) string {
	f := ex.c.Fun("errmsg", []string{"Iface"}, "String")
	return app(f, v.T)
}

func (ex *Exec) fmtInt(t string) string {
	ex.c.Trust("fmt: %d/%v of an integer is str.from_int for non-negative values, \"-\"+digits otherwise")
	return ite("(>= "+t+" 0)", "(str.from_int "+t+")", "(str.++ \"-\" (str.from_int (- "+t+")))")
}

func sortedNames(m map[string]bool) []string {
	ks := []string{}
	for k := range m {
		ks = append(ks, k)
	}
	sort.Strings(ks)
	return ks
}
