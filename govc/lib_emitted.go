package main

// Trusted models of the library calls made by the emitted runtime (net/http, context, errors.As, io).

import (
	"go/token"
	"fmt"
	"go/ast"
	"go/types"
)

// pureLibrary: effect-free library functions outside the observer packages.
var pureLibrary = map[string]bool{
	"(net/url.Values).Set":                 false, // writes the url.Values map only
	"(net/url.Values).Add":                 false,
	"github.com/pb33f/libopenapi/orderedmap.New": false, // constructor: fresh object, modelled heap untouched
	"github.com/pb33f/libopenapi/datamodel/high/base.CreateSchemaProxy":    false, // wraps the schema in a new proxy object (one composite literal)
	"github.com/pb33f/libopenapi/datamodel/high/base.CreateSchemaProxyRef": false,
	"encoding/json.Marshal":                true, // a function of the value (maps are marshalled with sorted keys)
	"strconv.FormatInt":                    true,
	"strconv.FormatUint":                   true,
	"go.yaml.in/yaml/v4.Marshal":           true, // rendering is a function of the document (the document is not modified)
	"sigs.k8s.io/yaml.YAMLToJSON":          true,
	"(net/http.Header).Get":                true,
	"(net/http.Header).Values":             true,
	"(*net/http.Request).PathValue":        true,
	"(*net/http.Request).Context":          true,
	"(*net/http.Request).WithContext":      true,
	"(*net/url.URL).Query":                 true,
	"(net/url.Values).Get":                 true,
	"(net/url.Values).Encode":              true,
	"net/url.PathEscape":                   true,
	"net/url.QueryEscape":                  true,
	"context.WithValue":                    true,
	"(context.Context).Value":              true,
	"(net/http.ResponseWriter).Header":     true,
	"io.NopCloser":                         true,
	"bytes.NewReader":                      true,
	"net/http.StatusText":                  true,
	"(*net/http.Client).Do":                false,
	"net/http.NewRequestWithContext":       false,
	"net/http.Error":                       false,
	"io.ReadAll":                           false,
	"(net/http.Header).Set":                false,
	"(io.Closer).Close":                    false,
	"(io.ReadCloser).Close":                false,
	"net/http.NewServeMux":                 true,
	"unicode/utf8.ValidString":             true,
	"(*math/rand.Rand).Intn":               false,
	"math/rand.Intn":                       false,
	"net/http.CanonicalHeaderKey":          true,
	"(*bytes.Reader).Len":                  true,
	"time.Now":                             false,
	"(time.Time).Format":                   true,
	"(time.Time).Unix":                     true,
	"(time.Time).UnixMilli":                true,
	"(*net/http.Response).Header":          true,
	"(*net/http.Request).Header":           true,
	"(*net/http.Request).URL":              true,
	"(net/http.HandlerFunc).ServeHTTP":     false,
	"(*net/http.ServeMux).Handle":          false,
	"(net/http.Handler).ServeHTTP":         false,
	"(net/http.ResponseWriter).Write":      false,
	"(net/http.ResponseWriter).WriteHeader": false,
}

func init() {
	boolT := types.Typ[types.Bool]
	libModels["errors.As"] = func(ex *Exec, p *Path, _ *Value, a []Value, call *ast.CallExpr) []Value {
		// errors.As(err, &target): target's static type decides what is looked for in the chain
		ex.c.Trust("errors.As: finds the first error in the chain assignable to the target type; an error whose dynamic type is the target type is found and assigned as is")
		if len(call.Args) != 2 {
			ex.unsupp(call.Pos(), "errors.As arity")
		}
		u, ok := call.Args[1].(*ast.UnaryExpr)
		if !ok {
			ex.unsupp(call.Pos(), "errors.As target must be &variable")
		}
		tv := ex.eval(p, u.X)
		tid := fmt.Sprint(ex.c.TID(tv.Ty))
		okF := ex.c.Fun("errors.As#ok", []string{"Iface", "Int"}, "Bool")
		valF := ex.c.Fun("errors.As#val", []string{"Iface", "Int"}, ex.c.SortOf(tv.Ty))
		okT := app(okF, a[0].T, tid)
		valT := app(valF, a[0].T, tid)
		// direct hit: dynamic type equals the target type
		ex.assumeFact(p, implies("(= (ityp "+a[0].T+") "+tid+")", and(okT, eq(valT, ex.assertedValue(a[0], tv.Ty).T))))
		ex.assumeFact(p, implies("(= (ityp "+a[0].T+") 0)", not(okT)))
		if ex.c.SortOf(tv.Ty) == "Ref" {
			ex.assumeFact(p, implies(okT, not(eq(valT, "null"))))
		}
		ex.assignTo(p, u.X, Value{ite(okT, valT, tv.T), tv.Ty})
		return []Value{{okT, boolT}}
	}
	libWritesHeap["errors.As"] = false
	libModels["encoding/json.Unmarshal"] = func(ex *Exec, p *Path, _ *Value, a []Value, call *ast.CallExpr) []Value {
		// json.Unmarshal(data, &local) with a pointer-free target: the call writes only the local; whether it succeeds and
		// what it stores on success are (uninterpreted) functions of the bytes and the target type. Anything else: as before.
		fn := ex.calleeOf(call)
		if len(call.Args) == 2 && !ex.inContract() {
			if u, ok := unparen(call.Args[1]).(*ast.UnaryExpr); ok && u.Op == token.AND {
				if id, isID := unparen(u.X).(*ast.Ident); isID {
					if obj, _ := ex.info.Uses[id].(*types.Var); obj != nil && jsonFlatTarget(obj.Type()) && (obj.Pkg() == nil || obj.Parent() != obj.Pkg().Scope()) {
						ex.c.Trust("encoding/json.Unmarshal into a pointer-free local: writes only that local; success and the decoded value are functions of the bytes and the target type (a non-nil map/slice target keeps unknown old entries)")
						old := ex.eval(p, id)
						okT, decT := ex.jsonDecodeTerms(a[0].T, obj.Type())
						errT := types.Universe.Lookup("error").Type()
						errV := Value{ex.c.Fresh("lib:json.Unmarshal", ex.c.SortOf(errT)), errT}
						p.Assume(ex.c.typeInvariant(errV))
						p.Assume(eq(ex.isNilTerm(errV), okT))
						dec := Value{decT, obj.Type()}
						ex.assumeFact(p, ex.c.typeInvariant(dec))
						unknown := Value{ex.c.Fresh("jsonw:"+id.Name, ex.c.SortOf(obj.Type())), obj.Type()}
						p.Assume(ex.c.typeInvariant(unknown))
						good := okT
						switch obj.Type().Underlying().(type) {
						case *types.Map, *types.Slice:
							good = and(okT, ex.isNilTerm(old))
						}
						ex.assignTo(p, id, Value{ite(good, dec.T, unknown.T), obj.Type()})
						return []Value{errV}
					}
				}
			}
		}
		if fn == nil {
			ex.unsupp(call.Pos(), "json.Unmarshal: callee")
		}
		ex.havocSliceArgs(p, call)
		return ex.havocCall(p, fn, true)
	}
	libWritesHeap["encoding/json.Unmarshal"] = true
	libModels["(*sync.Once).Do"] = func(ex *Exec, p *Path, recv *Value, a []Value, call *ast.CallExpr) []Value {
		ex.c.Trust("sync.Once.Do: runs the function at most once; package-level state it writes is unknown afterwards")
		ex.havocMutableHeap(p)
		return nil
	}
}

func (ex *Exec) isPureLibrary(full string) (pure bool, known bool) {
	v, ok := pureLibrary[full]
	return v, ok
}

// libraryPostFacts: documented postconditions of effectful library calls (trusted).
func (ex *Exec) libraryPostFacts(p *Path, full string, out []Value) {
	switch full {
	case "(*net/http.Client).Do":
		// "On success (err == nil) resp is non-nil and resp.Body is non-nil"
		ex.c.Trust("net/http: Client.Do returns a non-nil response with a non-nil Body when err == nil")
		if len(out) == 2 {
			p.Assume(implies(ex.isNilTerm(out[1]), not(ex.isNilTerm(out[0]))))
		}
	case "github.com/pb33f/libopenapi/datamodel/high/base.CreateSchemaProxy", "github.com/pb33f/libopenapi/datamodel/high/base.CreateSchemaProxyRef":
		ex.c.Trust("libopenapi base.CreateSchemaProxy / CreateSchemaProxyRef return a new non-nil proxy and modify nothing (each is one composite literal)")
		if len(out) == 1 && ex.c.SortOf(out[0].Ty) == "Ref" {
			p.Assume(not(ex.isNilTerm(out[0])))
			for _, a := range p.allocs {
				p.Assume("(not (= " + out[0].T + " " + a + "))")
			}
			p.allocs = append(p.allocs, out[0].T)
		}
	case "github.com/pb33f/libopenapi/orderedmap.New":
		// constructor: a fresh, non-nil ordered map
		ex.c.Trust("libopenapi orderedmap.New returns a new non-nil map")
		if len(out) == 1 && ex.c.SortOf(out[0].Ty) == "Ref" {
			p.Assume(not(ex.isNilTerm(out[0])))
			for _, a := range p.allocs {
				p.Assume("(not (= " + out[0].T + " " + a + "))")
			}
			p.allocs = append(p.allocs, out[0].T)
		}
	case "net/http.NewRequestWithContext":
		ex.c.Trust("net/http: NewRequestWithContext returns a non-nil request with a non-nil Header when err == nil")
		if len(out) == 2 {
			p.Assume(implies(ex.isNilTerm(out[1]), not(ex.isNilTerm(out[0]))))
		}
	}
}

// requestWellFormed: what net/http guarantees about the *http.Request handed to a handler.
func (ex *Exec) requestWellFormed(p *Path, v Value) {
	if !isNamedFrom(v.Ty, "net/http", "Request") {
		return
	}
	ex.c.Trust("net/http: the *http.Request passed to a handler is non-nil and has non-nil URL, Header and Body")
	p.Assume(not(ex.isNilTerm(v)))
	ptr := v.Ty.Underlying().(*types.Pointer)
	named := types.Unalias(ptr.Elem()).(*types.Named)
	st := named.Underlying().(*types.Struct)
	for i := 0; i < st.NumFields(); i++ {
		f := st.Field(i)
		if f.Name() == "URL" || f.Name() == "Body" {
			fv := ex.heapRead(p, ex.heapKey(named, f.Name()), f.Type(), v.T)
			p.Assume(not(ex.isNilTerm(fv)))
		}
	}
}


// jsonFlatTarget: types json.Unmarshal fills without following a pointer (scalars, strings, raw-message maps, slices of those).
func jsonFlatTarget(t types.Type) bool {
	switch u := t.Underlying().(type) {
	case *types.Basic:
		return u.Info()&(types.IsInteger|types.IsFloat|types.IsString|types.IsBoolean) != 0
	case *types.Slice:
		if b, ok := u.Elem().Underlying().(*types.Basic); ok {
			return b.Info()&(types.IsInteger|types.IsFloat|types.IsString|types.IsBoolean) != 0
		}
		if s, ok := u.Elem().Underlying().(*types.Slice); ok {
			b, isB := s.Elem().Underlying().(*types.Basic)
			return isB && b.Kind() == types.Uint8
		}
	case *types.Map:
		if kb, ok := u.Key().Underlying().(*types.Basic); !ok || kb.Kind() != types.String {
			return false
		}
		if s, ok := u.Elem().Underlying().(*types.Slice); ok {
			b, isB := s.Elem().Underlying().(*types.Basic)
			return isB && b.Kind() == types.Uint8
		}
	}
	return false
}

// jsonDecodeTerms: "these bytes decode into a T" and "the T they decode into" (read by the contract builtins
// jsonDecodes / jsonDecoded as well).
func (ex *Exec) jsonDecodeTerms(data string, t types.Type) (string, string) {
	bs := ex.c.SortOf(types.NewSlice(types.Typ[types.Uint8]))
	key := types.TypeString(t, nil)
	okF := ex.c.Fun("json.decodes:"+key, []string{bs}, "Bool")
	valF := ex.c.Fun("json.decoded:"+key, []string{bs}, ex.c.SortOf(t))
	return app(okF, data), app(valF, data)
}
