package main

// SMT-LIB plumbing: sort/function declaration tracking, query assembly, solver race.

import (
	"syscall"
	"runtime"
	"bytes"
	"context"
	"fmt"
	"go/types"
	"os"
	"os/exec"
	"path/filepath"
	"sort"
	"strings"
	"sync"
	"time"
)

// Ctx collects the declarations one verification unit (a function or a lemma) needs.
// Every query of the unit is emitted with the full declaration prefix.
type Ctx struct {
	sortDecls []string          // in dependency order
	sortSeen  map[string]bool   // sort name -> declared
	funDecls  []string          // declare-fun / declare-const, in order
	funSeen   map[string]string // name -> signature (for consistency)
	defs      []string          // define-fun (spec functions), in order
	defSeen   map[string]bool
	axioms    []string // global assertions (trusted axioms, pure-function axioms)
	axiomSeen map[string]bool
	axiomName []string
	tids      map[string]int // type string -> id
	fresh     int
	trusted   map[string]bool // names of trusted facts/models used
}

func NewCtx() *Ctx {
	c := &Ctx{sortSeen: map[string]bool{}, funSeen: map[string]string{}, defSeen: map[string]bool{},
		axiomSeen: map[string]bool{}, tids: map[string]int{}, trusted: map[string]bool{}}
	c.sortDecls = append(c.sortDecls,
		"(declare-sort Ref 0)",
		"(declare-datatypes ((Iface 0)) (((mk_iface (ityp Int) (iref Ref)))))",
	)
	c.sortSeen["Ref"] = true
	c.sortSeen["Iface"] = true
	c.funDecls = append(c.funDecls, "(declare-const null Ref)")
	c.funSeen["null"] = "Ref"
	c.defs = append(c.defs, "(define-fun nil_iface () Iface (mk_iface 0 null))")
	c.defSeen["nil_iface"] = true
	return c
}

func (c *Ctx) Trust(name string) { c.trusted[name] = true }

func (c *Ctx) TID(t types.Type) int {
	s := types.TypeString(t, nil)
	if id, ok := c.tids[s]; ok {
		return id
	}
	id := len(c.tids) + 1
	c.tids[s] = id
	return id
}

// TIDName assigns an id to a pseudo type that has no go/types representation here.
func (c *Ctx) TIDName(s string) int {
	if id, ok := c.tids[s]; ok {
		return id
	}
	id := len(c.tids) + 1
	c.tids[s] = id
	return id
}

func (c *Ctx) Fresh(prefix, sort string) string {
	c.fresh++
	name := fmt.Sprintf("|%s!%d|", strings.Trim(prefix, "|"), c.fresh)
	c.funDecls = append(c.funDecls, fmt.Sprintf("(declare-const %s %s)", name, sort))
	c.funSeen[name] = sort
	return name
}

// Const declares a named constant once.
func (c *Ctx) Const(name, sort string) string {
	q := quote(name)
	if s, ok := c.funSeen[q]; ok {
		if s != sort {
			panic(fmt.Sprintf("constant %s redeclared with sort %s (was %s)", q, sort, s))
		}
		return q
	}
	c.funSeen[q] = sort
	c.funDecls = append(c.funDecls, fmt.Sprintf("(declare-const %s %s)", q, sort))
	return q
}

// Fun declares an uninterpreted function once and returns its quoted name.
func (c *Ctx) Fun(name string, args []string, ret string) string {
	q := quote(name)
	sig := strings.Join(args, " ") + " -> " + ret
	if s, ok := c.funSeen[q]; ok {
		if s != sig {
			panic(fmt.Sprintf("function %s redeclared: %s vs %s", q, sig, s))
		}
		return q
	}
	c.funSeen[q] = sig
	c.funDecls = append(c.funDecls, fmt.Sprintf("(declare-fun %s (%s) %s)", q, strings.Join(args, " "), ret))
	return q
}

func (c *Ctx) Define(name, decl string) {
	if c.defSeen[name] {
		return
	}
	c.defSeen[name] = true
	c.defs = append(c.defs, decl)
}

func (c *Ctx) Axiom(name, formula string) {
	if c.axiomSeen[name] {
		return
	}
	c.axiomSeen[name] = true
	c.axioms = append(c.axioms, formula)
	c.axiomName = append(c.axiomName, name)
}

func quote(name string) string {
	if strings.HasPrefix(name, "|") {
		return name
	}
	simple := true
	for _, r := range name {
		if !(r >= 'a' && r <= 'z' || r >= 'A' && r <= 'Z' || r >= '0' && r <= '9' || r == '_' || r == '.' || r == '!' || r == '$') {
			simple = false
		}
	}
	if simple && name != "" && !(name[0] >= '0' && name[0] <= '9') {
		return name
	}
	return "|" + strings.ReplaceAll(strings.ReplaceAll(name, "|", "/"), "\\", "/") + "|"
}

func (c *Ctx) Prelude() string {
	var b strings.Builder
	for _, s := range c.sortDecls {
		b.WriteString(s)
		b.WriteByte('\n')
	}
	for _, s := range c.funDecls {
		b.WriteString(s)
		b.WriteByte('\n')
	}
	for _, s := range c.defs {
		b.WriteString(s)
		b.WriteByte('\n')
	}
	for i, s := range c.axioms {
		fmt.Fprintf(&b, "; axiom %s\n(assert %s)\n", c.axiomName[i], s)
	}
	return b.String()
}

func (c *Ctx) HasQuantAxioms() bool {
	for _, s := range c.axioms {
		if strings.Contains(s, "(forall ") || strings.Contains(s, "(exists ") {
			return true
		}
	}
	return false
}

// PreludeNoQuantAxioms is Prelude without quantified axioms (used for the weakened query).
func (c *Ctx) PreludeNoQuantAxioms() string {
	var b strings.Builder
	for _, s := range c.sortDecls {
		b.WriteString(s)
		b.WriteByte('\n')
	}
	for _, s := range c.funDecls {
		b.WriteString(s)
		b.WriteByte('\n')
	}
	for _, s := range c.defs {
		b.WriteString(s)
		b.WriteByte('\n')
	}
	for i, s := range c.axioms {
		if strings.Contains(s, "(forall ") || strings.Contains(s, "(exists ") {
			continue
		}
		fmt.Fprintf(&b, "; axiom %s\n(assert %s)\n", c.axiomName[i], s)
	}
	return b.String()
}

// ---------------------------------------------------------------------------------------
// term helpers

func and(ts ...string) string {
	var xs []string
	for _, t := range ts {
		if t == "true" || t == "" {
			continue
		}
		if t == "false" {
			return "false"
		}
		xs = append(xs, t)
	}
	switch len(xs) {
	case 0:
		return "true"
	case 1:
		return xs[0]
	}
	return "(and " + strings.Join(xs, " ") + ")"
}

func or(ts ...string) string {
	var xs []string
	for _, t := range ts {
		if t == "false" || t == "" {
			continue
		}
		if t == "true" {
			return "true"
		}
		xs = append(xs, t)
	}
	switch len(xs) {
	case 0:
		return "false"
	case 1:
		return xs[0]
	}
	return "(or " + strings.Join(xs, " ") + ")"
}

func not(t string) string {
	switch t {
	case "true":
		return "false"
	case "false":
		return "true"
	}
	if strings.HasPrefix(t, "(not ") && balancedInner(t[5:len(t)-1]) {
		return t[5 : len(t)-1]
	}
	return "(not " + t + ")"
}

func balancedInner(s string) bool {
	d := 0
	instr := false
	for i := 0; i < len(s); i++ {
		ch := s[i]
		if ch == '"' {
			instr = !instr
		}
		if instr {
			continue
		}
		if ch == '(' {
			d++
		}
		if ch == ')' {
			d--
			if d < 0 {
				return false
			}
			if d == 0 && i != len(s)-1 {
				return false
			}
		}
		if ch == ' ' && d == 0 {
			return false
		}
	}
	return d == 0
}

func implies(a, b string) string {
	if a == "true" {
		return b
	}
	if a == "false" || b == "true" {
		return "true"
	}
	return "(=> " + a + " " + b + ")"
}

func ite(c, a, b string) string {
	if c == "true" {
		return a
	}
	if c == "false" {
		return b
	}
	if a == b {
		return a
	}
	return "(ite " + c + " " + a + " " + b + ")"
}

func eq(a, b string) string {
	if a == b {
		return "true"
	}
	return "(= " + a + " " + b + ")"
}

func app(f string, args ...string) string {
	if len(args) == 0 {
		return f
	}
	return "(" + f + " " + strings.Join(args, " ") + ")"
}

func intLit(v int64) string {
	if v < 0 {
		return fmt.Sprintf("(- %d)", -v)
	}
	return fmt.Sprintf("%d", v)
}

func bigIntLit(s string) string {
	if strings.HasPrefix(s, "-") {
		return "(- " + s[1:] + ")"
	}
	return s
}

// strLit renders a Go string as an SMT-LIB 2.6 string literal (bytes >= 0x80 and
// control characters as \u{..} escapes; a double quote is doubled).
func strLit(s string) string {
	var b strings.Builder
	b.WriteByte('"')
	for i := 0; i < len(s); i++ {
		ch := s[i]
		switch {
		case ch == '"':
			b.WriteString(`""`)
		case ch == '\\':
			b.WriteString(`\u{5c}`)
		case ch < 0x20 || ch >= 0x7f:
			fmt.Fprintf(&b, `\u{%x}`, ch)
		default:
			b.WriteByte(ch)
		}
	}
	b.WriteByte('"')
	return b.String()
}

// ---------------------------------------------------------------------------------------
// solver race

type SolverResult struct {
	Status string // unsat | sat | unknown | timeout | error
	Solver string
	Ms     int64
	Model  string
	Raw    string
}

type solverSpec struct {
	name string
	argv []string
}

var solvers = []solverSpec{
	{"z3-new-5.1.0", []string{"z3-new", "-smt2"}},
	{"z3-4.8.12", []string{"z3", "-smt2"}},
	{"cvc5-1.0", []string{"cvc5", "--lang=smt2", "--strings-exp", "--produce-models"}},
}

var solverSem = make(chan struct{}, solverSlots())

func solverSlots() int {
	n := runtime.NumCPU() - 2
	if n < 3 {
		n = 3
	}
	return n
}

// loadScale: how much longer than nominal a solver may run, from the 1-minute load average per core (1 on an idle
// machine, up to 6 on a heavily loaded one).
func loadScale() float64 {
	data, err := os.ReadFile("/proc/loadavg")
	if err != nil {
		return 1
	}
	var l1 float64
	fmt.Sscan(string(data), &l1)
	f := l1 / float64(runtime.NumCPU())
	if f < 1 {
		return 1
	}
	if f > 6 {
		return 6
	}
	return f
}

var scratchDir string
var scratchOnce sync.Once

func scratch() string {
	scratchOnce.Do(func() {
		d, err := os.MkdirTemp("", "govc-")
		if err != nil {
			panic(err)
		}
		scratchDir = d
	})
	return scratchDir
}

func cleanupScratch() {
	if os.Getenv("GOVC_KEEP_SCRATCH") != "" && scratchDir != "" {
		fmt.Fprintln(os.Stderr, "scratch kept:", scratchDir)
		return
	}
	if scratchDir != "" {
		os.RemoveAll(scratchDir)
	}
}

var queryCounter int
var queryMu sync.Mutex

// Solve checks satisfiability of the given script body (prelude + asserts). wantModel adds (get-model).
func Solve(script string, timeout time.Duration, wantModel bool) SolverResult {
	queryMu.Lock()
	queryCounter++
	n := queryCounter
	queryMu.Unlock()
	file := filepath.Join(scratch(), fmt.Sprintf("q%06d.smt2", n))
	full := "(set-option :produce-models true)\n(set-logic ALL)\n" + script + "\n(check-sat)\n"
	if wantModel {
		full += "(get-model)\n"
	}
	if err := os.WriteFile(file, []byte(full), 0o644); err != nil {
		return SolverResult{Status: "error", Raw: err.Error()}
	}
	defer os.Remove(file)

	// the race: every solver gets the full time budget from the moment it actually starts (waiting for a free slot
	// does not count), and the budget grows with the machine's load so that a busy machine does not turn proofs into
	// timeouts
	timeout = time.Duration(float64(timeout) * loadScale())
	parent, cancel := context.WithCancel(context.Background())
	defer cancel()
	ch := make(chan SolverResult, len(solvers))
	start := time.Now()
	for _, s := range solvers {
		s := s
		go func() {
			solverSem <- struct{}{}
			defer func() { <-solverSem }()
			if parent.Err() != nil {
				ch <- SolverResult{Solver: s.name, Status: "timeout"}
				return
			}
			ctx, cancelOne := context.WithTimeout(parent, timeout)
			defer cancelOne()
			t0 := time.Now()
			argv := append(append([]string{}, s.argv[1:]...), file)
			cmd := exec.CommandContext(ctx, s.argv[0], argv...)
			// a solver must not outlive the check that started it (a killed check would otherwise leave solvers spinning)
			// (Pdeathsig is delivered when the creating OS thread exits: the goroutine stays on its thread until the solver ends)
			runtime.LockOSThread()
			defer runtime.UnlockOSThread()
			cmd.SysProcAttr = &syscall.SysProcAttr{Pdeathsig: syscall.SIGKILL}
			var out bytes.Buffer
			cmd.Stdout = &out
			cmd.Stderr = &out
			_ = cmd.Run()
			text := out.String()
			first := strings.TrimSpace(strings.SplitN(text, "\n", 2)[0])
			r := SolverResult{Solver: s.name, Ms: time.Since(t0).Milliseconds(), Raw: text}
			switch first {
			case "unsat":
				r.Status = "unsat"
			case "sat":
				r.Status = "sat"
				if i := strings.Index(text, "\n"); i >= 0 {
					r.Model = text[i+1:]
				}
			case "unknown":
				r.Status = "unknown"
			default:
				if ctx.Err() != nil {
					r.Status = "timeout"
				} else {
					r.Status = "error"
				}
			}
			ch <- r
		}()
	}
	var last SolverResult
	var errs []string
	for range solvers {
		r := <-ch
		if r.Status == "unsat" || r.Status == "sat" {
			cancel()
			r.Ms = time.Since(start).Milliseconds()
			return r
		}
		if r.Status == "error" {
			errs = append(errs, r.Solver+": "+firstLines(r.Raw, 3))
		}
		if last.Status == "" || r.Status == "unknown" || (last.Status == "error" && r.Status != "error") {
			last = r
		}
	}
	last.Ms = time.Since(start).Milliseconds()
	if len(errs) == len(solvers) {
		last.Status = "error"
		last.Raw = strings.Join(errs, "\n")
	}
	return last
}

func firstLines(s string, n int) string {
	lines := strings.Split(s, "\n")
	if len(lines) > n {
		lines = lines[:n]
	}
	return strings.Join(lines, " | ")
}

func sortedKeys[V any](m map[string]V) []string {
	ks := make([]string, 0, len(m))
	for k := range m {
		ks = append(ks, k)
	}
	sort.Strings(ks)
	return ks
}
