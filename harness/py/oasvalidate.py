#!/usr/bin/env python3-vt
"""Validate wire JSON bodies against the component schemas of an OpenAPI document (C06 replay oracle).

stdin: JSON {"openapi": <text of the JSON rendering>, "bodies": [{"schema": "<component name>", "label": "...", "json": "<body text>"}]}
stdout: JSON {"results": [{"label":..., "schema":..., "valid": bool, "errors": [...], "extra_properties": [...]}]}
JSON Schema 2020-12 (OpenAPI 3.1). Also reports properties present on the wire that the schema does not describe.
"""
import json, sys
from jsonschema import Draft202012Validator
from jsonschema.validators import RefResolver

def undescribed(doc, schema, value, path, out, depth=0):
    if depth > 20:
        return
    while isinstance(schema, dict) and "$ref" in schema:
        name = schema["$ref"].rsplit("/", 1)[-1]
        schema = doc.get("components", {}).get("schemas", {}).get(name, {})
    if not isinstance(schema, dict):
        return
    if isinstance(value, dict):
        props = schema.get("properties") or {}
        addl = schema.get("additionalProperties")
        for k, v in value.items():
            if k in props:
                undescribed(doc, props[k], v, path + "/" + k, out, depth + 1)
            elif isinstance(addl, dict):
                undescribed(doc, addl, v, path + "/" + k, out, depth + 1)
            elif not any(key in schema for key in ("oneOf", "allOf", "anyOf")) and addl is not True and props:
                out.append(path + "/" + k)
    elif isinstance(value, list) and isinstance(schema.get("items"), dict):
        for i, v in enumerate(value):
            undescribed(doc, schema["items"], v, path + "/%d" % i, out, depth + 1)

def main():
    inp = json.load(sys.stdin)
    doc = json.loads(inp["openapi"])
    resolver = RefResolver.from_schema(doc)
    results = []
    for b in inp["bodies"]:
        name = b["schema"]
        schema = doc.get("components", {}).get("schemas", {}).get(name)
        res = {"label": b.get("label", ""), "schema": name, "valid": True, "errors": [], "extra_properties": []}
        if schema is None:
            res["valid"] = False
            res["errors"].append("no component schema " + name)
            results.append(res)
            continue
        try:
            value = json.loads(b["json"])
        except Exception as e:
            res["valid"] = False
            res["errors"].append("body is not JSON: %s" % e)
            results.append(res)
            continue
        v = Draft202012Validator(schema, resolver=resolver)
        for err in sorted(v.iter_errors(value), key=lambda e: list(e.absolute_path)):
            res["valid"] = False
            res["errors"].append("/" + "/".join(str(p) for p in err.absolute_path) + ": " + err.message[:160])
        undescribed(doc, schema, value, "", res["extra_properties"])
        results.append(res)
    json.dump({"results": results}, sys.stdout)

main()
