package main

// Static write-set of the repository: which struct fields are ever assigned after allocation.
//
// A field that no function of the repository (or of the emitted packages) assigns, takes the address of, or
// exposes to a reflection-based writer is fixed once its object is built; such fields are kept in immutable
// heap arrays, so an abstracted call (`modifies *`, no contract, interface dispatch) cannot change them. This
// is a whole-program syntactic mod analysis: it over-approximates writers (any selector on the left of an
// assignment, under & or as the receiver of a pointer method counts; every field of a protobuf message type
// and of any struct whose pointer is visibly converted to an interface counts).

import (
	"go/ast"
	"go/token"
	"go/types"
	"strings"
)

func (w *World) WrittenFields() map[string]bool {
	w.writtenMu.Lock()
	defer w.writtenMu.Unlock()
	if w.written != nil {
		return w.written
	}
	out := map[string]bool{}
	markAll := func(t types.Type) {
		if p, ok := t.Underlying().(*types.Pointer); ok {
			t = p.Elem()
		}
		named, ok := types.Unalias(t).(*types.Named)
		if !ok {
			return
		}
		st, ok := named.Underlying().(*types.Struct)
		if !ok {
			return
		}
		for i := 0; i < st.NumFields(); i++ {
			out[heapKeyOf(named, st.Field(i).Name())] = true
		}
	}
	for path, pkg := range w.ByPath {
		if !w.RepoPaths[path] || pkg.TypesInfo == nil {
			continue
		}
		info := pkg.TypesInfo
		markSel := func(sel *ast.SelectorExpr) {
			s := info.Selections[sel]
			if s == nil || s.Kind() != types.FieldVal {
				return
			}
			t := s.Recv()
			idx := s.Index()
			for i, ix := range idx {
				if p, ok := t.Underlying().(*types.Pointer); ok {
					t = p.Elem()
				}
				st, ok := t.Underlying().(*types.Struct)
				if !ok || ix >= st.NumFields() {
					return
				}
				f := st.Field(ix)
				if named, ok := types.Unalias(t).(*types.Named); ok && (i == len(idx)-1 || true) {
					out[heapKeyOf(named, f.Name())] = true
				}
				t = f.Type()
			}
		}
		var markChain func(e ast.Expr)
		markChain = func(e ast.Expr) {
			for {
				switch x := e.(type) {
				case *ast.SelectorExpr:
					markSel(x)
					e = x.X
				case *ast.IndexExpr:
					e = x.X
				case *ast.StarExpr:
					// a write through a pointer to a basic type: that sort's deref cells are mutable
					if pt, ok := info.TypeOf(x.X).Underlying().(*types.Pointer); ok {
						if tok := basicSortToken(pt.Elem()); tok != "" {
							out["deref:"+tok] = true
						}
					}
					e = x.X
				case *ast.ParenExpr:
					e = x.X
				case *ast.SliceExpr:
					e = x.X
				default:
					return
				}
			}
		}
		isIface := func(t types.Type) bool {
			if t == nil {
				return false
			}
			_, ok := t.Underlying().(*types.Interface)
			return ok
		}
		escapes := func(e ast.Expr, to types.Type) {
			if !isIface(to) {
				return
			}
			t := info.TypeOf(e)
			if t == nil || isIface(t) {
				return
			}
			markAll(t)
		}
		for _, file := range pkg.Syntax {
			var resultTypes []*types.Tuple
			ast.Inspect(file, func(n ast.Node) bool {
				switch s := n.(type) {
				case *ast.FuncDecl:
					if obj, ok := info.Defs[s.Name].(*types.Func); ok {
						resultTypes = append(resultTypes, obj.Type().(*types.Signature).Results())
					}
				case *ast.AssignStmt:
					for i, l := range s.Lhs {
						markChain(l)
						if len(s.Lhs) == len(s.Rhs) {
							escapes(s.Rhs[i], info.TypeOf(l))
						}
					}
				case *ast.IncDecStmt:
					markChain(s.X)
				case *ast.RangeStmt:
					if s.Tok == token.ASSIGN {
						if s.Key != nil {
							markChain(s.Key)
						}
						if s.Value != nil {
							markChain(s.Value)
						}
					}
				case *ast.UnaryExpr:
					if s.Op == token.AND {
						markChain(s.X)
					}
				case *ast.ValueSpec:
					if s.Type != nil {
						for _, v := range s.Values {
							escapes(v, info.TypeOf(s.Type))
						}
					}
				case *ast.CompositeLit:
					// interface-typed fields and elements
					if t := info.TypeOf(s); t != nil {
						switch u := t.Underlying().(type) {
						case *types.Struct:
							for i, el := range s.Elts {
								if kv, ok := el.(*ast.KeyValueExpr); ok {
									if id, ok := kv.Key.(*ast.Ident); ok {
										for j := 0; j < u.NumFields(); j++ {
											if u.Field(j).Name() == id.Name {
												escapes(kv.Value, u.Field(j).Type())
											}
										}
									}
								} else if i < u.NumFields() {
									escapes(el, u.Field(i).Type())
								}
							}
						case *types.Slice:
							for _, el := range s.Elts {
								escapes(el, u.Elem())
							}
						case *types.Map:
							for _, el := range s.Elts {
								if kv, ok := el.(*ast.KeyValueExpr); ok {
									escapes(kv.Value, u.Elem())
								}
							}
						}
					}
				case *ast.CallExpr:
					tv, ok := info.Types[s.Fun]
					if ok && tv.IsType() {
						if len(s.Args) == 1 {
							escapes(s.Args[0], tv.Type)
						}
						return true
					}
					// pointer-receiver method on an addressable field value
					if sel, ok := s.Fun.(*ast.SelectorExpr); ok {
						if ms := info.Selections[sel]; ms != nil && ms.Kind() == types.MethodVal {
							if fn, ok := ms.Obj().(*types.Func); ok {
								if rv := fn.Type().(*types.Signature).Recv(); rv != nil {
									if _, ptrRecv := rv.Type().(*types.Pointer); ptrRecv {
										if rt := info.TypeOf(sel.X); rt != nil {
											if _, isPtr := rt.Underlying().(*types.Pointer); !isPtr {
												markChain(sel.X)
											}
										}
									}
								}
							}
						}
					}
					if sig, ok := info.TypeOf(s.Fun).(*types.Signature); ok {
						for i, a := range s.Args {
							var pt types.Type
							if sig.Variadic() && i >= sig.Params().Len()-1 {
								if sl, ok := sig.Params().At(sig.Params().Len() - 1).Type().(*types.Slice); ok && !s.Ellipsis.IsValid() {
									pt = sl.Elem()
								}
							} else if i < sig.Params().Len() {
								pt = sig.Params().At(i).Type()
							}
							escapes(a, pt)
						}
					}
				case *ast.ReturnStmt:
					if len(resultTypes) > 0 {
						rt := resultTypes[len(resultTypes)-1]
						if rt != nil && rt.Len() == len(s.Results) {
							for i, r := range s.Results {
								escapes(r, rt.At(i).Type())
							}
						}
					}
				case *ast.SendStmt:
					if ct, ok := info.TypeOf(s.Chan).Underlying().(*types.Chan); ok {
						escapes(s.Value, ct.Elem())
					}
				}
				return true
			})
		}
		// protobuf messages are written by reflection (decoders)
		scope := pkg.Types.Scope()
		for _, name := range scope.Names() {
			tn, ok := scope.Lookup(name).(*types.TypeName)
			if !ok {
				continue
			}
			named, ok := tn.Type().(*types.Named)
			if !ok {
				continue
			}
			for i := 0; i < named.NumMethods(); i++ {
				if named.Method(i).Name() == "ProtoReflect" {
					markAll(named)
				}
			}
		}
	}
	w.written = out
	return out
}

// immutableField: a field of a repository struct that nothing ever writes after allocation.
func (w *World) immutableField(key string) bool {
	return !w.WrittenFields()[strings.TrimPrefix(key, "~")]
}

func init() {
	debugCmds["written"] = func(args []string) int {
		w := loadAll()
		for _, a := range args {
			if a == "emitted" {
				w.LoadEmitted()
			}
		}
		var ks []string
		for k := range w.WrittenFields() {
			ks = append(ks, k)
		}
		ks = uniqSorted(ks)
		for _, k := range ks {
			println(k)
		}
		return 0
	}
}

// basicSortToken: the SMT sort of a basic Go type ("" for anything else).
func basicSortToken(t types.Type) string {
	b, ok := t.Underlying().(*types.Basic)
	if !ok {
		return ""
	}
	switch {
	case b.Info()&types.IsBoolean != 0:
		return "Bool"
	case b.Info()&types.IsInteger != 0:
		return "Int"
	case b.Info()&types.IsString != 0:
		return "String"
	case b.Info()&types.IsFloat != 0:
		return "Real"
	}
	return ""
}
