// Package protovalidate is an API-compatible stand-in for buf.build/go/protovalidate, which is not
// available offline. It is used only to type-check and (in replays) run emitted servers; it is never
// part of a proof. Validate accepts every message unless a hook is installed.
package protovalidate

import (
	"strings"

	"buf.build/gen/go/bufbuild/protovalidate/protocolbuffers/go/buf/validate"
	"google.golang.org/protobuf/proto"
)

type ValidatorOption interface{}
type ValidationOption interface{}

type Validator interface {
	Validate(msg proto.Message, options ...ValidationOption) error
}

type Violation struct {
	Proto *validate.Violation
}

type ValidationError struct {
	Violations []*Violation
}

func (e *ValidationError) Error() string {
	var parts []string
	for _, v := range e.Violations {
		if v != nil && v.Proto != nil {
			parts = append(parts, v.Proto.GetMessage())
		}
	}
	return "validation error: " + strings.Join(parts, "; ")
}

// Hook lets a replay harness decide the outcome of Validate.
var Hook func(msg proto.Message) error

type stub struct{}

func (stub) Validate(msg proto.Message, _ ...ValidationOption) error {
	if Hook != nil {
		return Hook(msg)
	}
	return nil
}

func New(_ ...ValidatorOption) (Validator, error) { return stub{}, nil }
