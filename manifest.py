#!/usr/bin/env python3
"""Regenerates MANIFEST.json from the table below (kept valid against /root/.vp/MANIFEST.schema.json)."""
import json, subprocess, sys

NA = {
 "C04": "round-trip equality over all values is entirely a statement about protojson/encoding/json/strconv/time/base64; once those are assumed no contract on repository code remains, and the codecs are schema-dependent emitted text (DESIGN.md section 5)",
 "C08": "needs the execution semantics of emitted TypeScript on a JS runtime; there is no TypeScript verifier here and a Go VC generator cannot give the emitted text a meaning (DESIGN.md section 5)",
}
PENDING = "not claimed yet: contracts for this property are still being written (DESIGN.md build order)"

CLAIMED = {
 "C12": dict(
   text="Deductive: every annotation validator is verified as an iff decision against the rule transcribed from the property (unwrap, nullable, empty_behavior, timestamp_format, bytes_encoding, flatten field rules, oneof discriminator rules, enum conflict, HTTP path/query/bodiless rules), each error message is proved to name the offender, and the wiring is proved by recursion over the nesting tree: Generate() of go-http and go-client returning nil implies every message at every depth of every generated file satisfies every rule (termination measures included). Run-level lemmas state the property per file; the imported-file class is a known finding; a bounded family replays every rule x placement on the real plugins.",
   design="4 (C12), appendix E.1",
   note="Trusted: govc, solvers, protobuf-go observers and descriptor well-formedness axioms (spec/trusted/descriptors.spec). Assumed contract: ValidateFlattenCollisions (iff to an opaque predicate). The two undocumented 'only one MarshalJSON feature' refusals are outside the proved converse. Acceptance of valid definitions by ts-client/ts-server/openapiv3 is only covered by the bounded family (thorough tier). protogen emits no files when the plugin returns an error (trusted).",
   technique="contract-based deductive verification: iff contracts per validator, recursive wiring contracts with loop invariants and decreases clauses, lemmas over contracts, z3/cvc5 race"),
 "C03": dict(
   text="Deductive: the route-deciding functions of all five generators are verified against contracts (VCs from their source, SMT-discharged), and the pairwise agreement of verb, path template, path variables and body/query placement is proved as lemmas over those contracts for a symbolic service/method; disagreement classes that exist today are split off as known findings and replayed against the real plugins.",
   design="4 (C03), 2.9",
   note="Trusted: govc, SMT solvers, protobuf-go observers (Options/GetExtension purity and dynamic types), string library models, assumed contracts ExtractPathParams (regexp) and camelToSnake (rune loop). Not proved here: that every emitter prints exactly the decided value (dataflow decision->gf.P), ServeMux/TypeScript/YAML syntax.",
   technique="contract-based deductive verification: weakest-precondition style VCs over go/ast+go/types against //@ contracts, lemmas over contracts, z3/cvc5 race"),
}

def main():
    props=[json.loads(l) for l in open('/verif/properties.jsonl')]
    checks=[]; na=[]
    for p in props:
        pid=p['id']
        if pid in CLAIMED:
            c=CLAIMED[pid]
            checks.append({
              "property_id": pid,
              "quick_cmd": f"bin/govc check {pid} --tier quick",
              "thorough_cmd": f"bin/govc check {pid} --tier thorough",
              "evidence_file": f"/verif/evidence/{pid}.json",
              "replay_cmd_template": "bin/govc replay {path}",
              "engine": "govc",
              "level_claimed": {"category": "proof", "text": c['text'], "design_ref": c['design']},
              "level_note": c['note'],
              "technique": c['technique'],
            })
        else:
            na.append({"property_id": pid, "reason": NA.get(pid, PENDING)})
    hooks=subprocess.run(['git','-C','/repo','log','--format=%H %s','--grep=^verif hook'],capture_output=True,text=True).stdout.strip().split('\n')
    m={"version":1,
       "setup_cmd":"./setup.sh",
       "hooks":{"guard":"verif",
                "enable":"contracts are comment-only Go files (zz_verif_contracts*.go) behind //go:build verif; govc reads them as text, `go build -tags verif` compiles them to nothing",
                "baseline_off_cmd":"cd /repo && go test -vet=off -count=1 ./...",
                "source_commits":[h.split()[0] for h in hooks if h],
                "add_only":True},
       "engines":[{"name":"govc","path":"/verif/govc","serves_properties":sorted(CLAIMED),
                   "kind_free_text":"home-made VC generator for Go (symbolic execution over go/ast+go/types against //@ contracts; lemmas over contracts; structural proof rules), SMT-LIB obligations raced on z3 4.8.12 / z3 5.1.0 / cvc5 1.0; counterexamples replayed by running the working-tree plugins on synthesised descriptors"}],
       "checks":checks,
       "notes":"See DESIGN.md. known_findings.json lists genuine defects by obligation name; evidence/ is rewritten by every run.",
       "not_applicable":na}
    json.dump(m,open('/verif/MANIFEST.json','w'),indent=1)
    print("claimed:",sorted(CLAIMED),"n/a:",len(na))

main()
