package main

// Bounded stand-in for annotations.ExtractPathParams, whose body (a regular expression) is outside the verifier's
// subset and whose contract is therefore assumed by every lemma about path variables. The real function is run,
// inside its own package through `go test -overlay` (nothing is written to the repository), on every string over
// the alphabet { '/', '{', '}', 'a', 'b' } up to length 8 and on a list of longer templates, and compared with
// an independent scanner for the documented syntax (a variable is '{', one or more characters other than '}', '}';
// matches are leftmost and do not overlap). Labelled bounded: it is never counted as proved.

import (
	"encoding/json"
	"fmt"
	"os"
	"path/filepath"
	"regexp"
	"strings"
)

const boundedExtractTest = `package annotations

import (
	"fmt"
	"reflect"
	"testing"
)

func refExtract(s string) []string {
	var out []string
	i := 0
	for i < len(s) {
		if s[i] != '{' {
			i++
			continue
		}
		j := i + 1
		for j < len(s) && s[j] != '}' {
			j++
		}
		if j < len(s) && j > i+1 {
			out = append(out, s[i+1:j])
			i = j + 1
		} else {
			i++
		}
	}
	return out
}

func TestGovcBoundedExtractPathParams(t *testing.T) {
	alphabet := []byte{'/', '{', '}', 'a', 'b'}
	n := 0
	bad := 0
	var rec func(prefix []byte, depth int)
	check := func(s string) {
		n++
		got, want := ExtractPathParams(s), refExtract(s)
		if len(got) == 0 && len(want) == 0 {
			return
		}
		if !reflect.DeepEqual(got, want) {
			bad++
			if bad <= 5 {
				fmt.Printf("BOUNDEDFAIL input=%q got=%q want=%q\n", s, got, want)
			}
		}
	}
	rec = func(prefix []byte, depth int) {
		check(string(prefix))
		if depth == 0 {
			return
		}
		for _, c := range alphabet {
			rec(append(prefix, c), depth-1)
		}
	}
	rec(nil, 8)
	// second alphabet: the punctuation that has a meaning in net/http patterns and in other routers' templates
	// ("{name...}", "{$}", "{a.b}", "{a-b}", "{ a }"): a variable is whatever stands between the braces, verbatim
	alphabet = []byte{'{', '}', 'a', '.', '$', '-', '_', ' '}
	rec(nil, 6)
	for _, s := range []string{"/users/{user_id}/posts/{post_id}", "{user_id}", "{org_id}/members/{member_id}", "/v{n}/users", "/a/{x}{y}/b", "/t/{tenant}/x/{id}", "/x/{id}/y/{id}", "/{a b}/{c-d}", "users/{id}/", "/{}/{a}", "/{{a}}", "/ü/{ñ}", "/files/{path...}", "/items/{$}", "/users/{user.id}", "/users/{ id }", "/v1/{name=projects/*}", "/u/{id:[0-9]+}", "/a/{x}/{$}"} {
		check(s)
	}
	fmt.Printf("BOUNDEDDONE strings=%d mismatches=%d\n", n, bad)
}
`

func runBoundedExtract() (strs int, fails []string, err error) {
	t, err := GetTools()
	if err != nil {
		return 0, nil, err
	}
	dir := filepath.Join(scratch(), "bounded-extract")
	os.MkdirAll(dir, 0o755)
	testFile := filepath.Join(dir, "zz_govc_bounded_test.go")
	if err := os.WriteFile(testFile, []byte(boundedExtractTest), 0o644); err != nil {
		return 0, nil, err
	}
	ov, _ := json.Marshal(map[string]any{"Replace": map[string]string{filepath.Join(t.Repo, "internal", "annotations", "zz_govc_bounded_test.go"): testFile}})
	ovFile := filepath.Join(dir, "overlay.json")
	os.WriteFile(ovFile, ov, 0o644)
	out, rerr := runCmd(t.Repo, nil, "go", "test", "-overlay", ovFile, "-v", "-vet=off", "-count=1", "-timeout", "60s", "-run", "TestGovcBoundedExtractPathParams", "./internal/annotations/")
	text := string(out)
	m := regexp.MustCompile(`BOUNDEDDONE strings=(\d+) mismatches=(\d+)`).FindStringSubmatch(text)
	if m == nil {
		if rerr != nil {
			text += "\n" + rerr.Error()
		}
		return 0, nil, fmt.Errorf("bounded run did not complete: %s", firstLines(text, 8))
	}
	fmt.Sscan(m[1], &strs)
	for _, l := range strings.Split(text, "\n") {
		if strings.HasPrefix(l, "BOUNDEDFAIL") {
			fails = append(fails, l)
		}
	}
	return strs, fails, nil
}

func init() {
	boundedChecks["extractpathparams"] = func(w *World, seed int64) map[string]any {
		n, fails, err := runBoundedExtract()
		out := map[string]any{"name": "extractpathparams", "bounded": true, "bound": "every string over {'/','{','}','a','b'} up to length 8 (488281 strings), every string over {'{','}','a','.','$','-','_',' '} up to length 6 (299593 strings) and 19 longer templates; real function vs independent scanner (a variable is the verbatim text between the braces); 60 s limit for the whole run (a hang is reported)", "strings": n}
		if err != nil {
			out["status"] = "error: " + err.Error()
			return out
		}
		var fl []map[string]any
		for _, f := range fails {
			fl = append(fl, map[string]any{"name": "annotations.ExtractPathParams.bounded", "case": f, "observed": f, "parameter": ""})
		}
		out["failures"] = fl
		out["status"] = "ran"
		return out
	}
	debugCmds["boundedextract"] = func(args []string) int {
		n, fails, err := runBoundedExtract()
		fmt.Println("strings:", n, "err:", err)
		for _, f := range fails {
			fmt.Println(f)
		}
		return 0
	}
}
