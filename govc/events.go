package main

// S2: event-trace obligations on the emitted runtime. Calls with observable effect are events; each
// event updates ghost cells (count, nil-ness of the first result, arguments) that contracts can read with
// count("f"), lastNil("f"), lastArg("f", i), and constrain with `at-call f requires <expr>` clauses.

import (
	"fmt"
	"go/ast"
	"go/token"
	"go/types"
	"strings"
)

func ghostKey(kind, name string) string { return "ghost:" + kind + ":" + name }

func (ex *Exec) ghostRead(p *Path, kind, name, sort string) string {
	return "(select " + ex.heapArr(p, ghostKey(kind, name), sort) + " null)"
}

func (ex *Exec) ghostWrite(p *Path, kind, name, sort, val string) {
	key := ghostKey(kind, name)
	p.heap[key] = "(store " + ex.heapArr(p, key, sort) + " null " + val + ")"
}

// havocGhost forgets all ghost cells (used at loop heads whose body contains events).
func (ex *Exec) havocGhost(p *Path) {
	for k := range p.heap {
		if strings.HasPrefix(k, "ghost:") {
			ex.c.fresh++
			// re-point the cell at a fresh array of the same sort
			sortOf := ex.c.funSeen[quote("H:"+k)]
			if sortOf == "" {
				sortOf = ex.sortOfHeapTerm(p.heap[k])
			}
			if sortOf == "" {
				panic(unsupported{"cannot havoc ghost cell " + k, token.NoPos})
			}
			p.heap[k] = ex.c.Fresh("H:"+k, sortOf)
		}
	}
	p.ghostGen++
}

func (ex *Exec) sortOfHeapTerm(t string) string {
	inner := t
	for strings.HasPrefix(inner, "(store ") || strings.HasPrefix(inner, "(ite ") {
		if strings.HasPrefix(inner, "(store ") {
			inner = firstArg(inner[len("(store "):])
		} else {
			rest := inner[len("(ite "):]
			c := firstArg(rest)
			inner = firstArg(strings.TrimSpace(rest[len(c):]))
		}
	}
	return ex.c.funSeen[inner]
}

// recordEvent updates the ghost cells of an event after the call was evaluated.
func (ex *Exec) recordEvent(p *Path, name string, args []Value, results []Value, pos token.Pos) {
	if !ex.traceEvents {
		return
	}
	cnt := ex.ghostRead(p, "cnt", name, "Int")
	ex.ghostWrite(p, "cnt", name, "Int", "(+ "+cnt+" 1)")
	// global sequence number: lets contracts order events
	seq := ex.ghostRead(p, "seq", "*", "Int")
	ex.ghostWrite(p, "seq", "*", "Int", "(+ "+seq+" 1)")
	ex.ghostWrite(p, "at", name, "Int", "(+ "+seq+" 1)")
	if len(results) > 0 {
		r := results[0]
		switch ex.c.SortOf(r.Ty) {
		case "Ref", "Iface":
			ex.ghostWrite(p, "nil", name, "Bool", ex.isNilTerm(r))
		}
		if len(results) > 1 {
			last := results[len(results)-1]
			if s := ex.c.SortOf(last.Ty); s == "Iface" || s == "Ref" {
				ex.ghostWrite(p, "errnil", name, "Bool", ex.isNilTerm(last))
			}
		} else if s := ex.c.SortOf(r.Ty); s == "Iface" || s == "Ref" {
			ex.ghostWrite(p, "errnil", name, "Bool", ex.isNilTerm(r))
		}
	}
	for i, a := range args {
		if a.Ty == nil {
			continue
		}
		ex.ghostWrite(p, fmt.Sprintf("arg%d", i), name, ex.c.SortOf(a.Ty), a.T)
	}
	p.events = append(p.events, Event{Name: name, Pos: pos})
}

// atCallObligations checks the `at-call <name> requires` clauses of the contract under verification.
func (ex *Exec) atCallObligations(p *Path, name string, args []Value, pos token.Pos) {
	if ex.contract == nil || len(ex.inlineStack) > 0 && !ex.inClosureOfUnit() {
		return
	}
	for i, ac := range ex.contract.AtCall {
		if ac.Callee != name {
			continue
		}
		saved := map[string]*Value{}
		for j, a := range args {
			k := fmt.Sprintf("arg%d", j)
			if old, ok := p.names[k]; ok {
				o := old
				saved[k] = &o
			} else {
				saved[k] = nil
			}
			p.names[k] = a
		}
		g := ex.evalClause(p, ac.Clause.E, false)
		for k, o := range saved {
			if o == nil {
				delete(p.names, k)
			} else {
				p.names[k] = *o
			}
		}
		nm := ac.Clause.Name
		if nm == "" {
			nm = fmt.Sprint(i)
		}
		ex.addObl(p, fmt.Sprintf("%s#at-call:%s[%s]", ex.funcKey, name, nm), "at-call", ac.Clause.Text, g, pos, "")
	}
}

func (ex *Exec) inClosureOfUnit() bool { return false }

// eventName decides whether a call is an event and under which name.
func (ex *Exec) eventName(fn *types.Func, call *ast.CallExpr) (string, bool) {
	if !ex.traceEvents {
		return "", false
	}
	if fn != nil {
		if ex.emittedPkg(fn) {
			return fn.Name(), true
		}
		if fn.Pkg() == nil {
			return "", false
		}
		switch fn.Pkg().Path() {
		case "net/http":
			switch fn.Name() {
			case "WriteHeader", "Write", "ServeHTTP", "Error", "Set", "Do", "NewRequestWithContext":
				return fn.Name(), true
			}
		case "io":
			if fn.Name() == "ReadAll" {
				return "ReadAll", true
			}
		case "google.golang.org/protobuf/encoding/protojson":
			return "protojson." + fn.Name(), true
		case "google.golang.org/protobuf/proto":
			if fn.Name() == "Marshal" || fn.Name() == "Unmarshal" {
				return "proto." + fn.Name(), true
			}
		case "google.golang.org/protobuf/reflect/protoreflect":
			switch fn.Name() {
			case "Set", "Mutable", "Append":
				return "reflect." + fn.Name(), true
			}
		case "encoding/json":
			return "json." + fn.Name(), true
		case "sync":
			return "sync." + fn.Name(), true
		}
		if fn.Name() == "MarshalJSON" || fn.Name() == "UnmarshalJSON" || fn.Name() == "Validate" {
			return fn.Name(), true
		}
	}
	return "", false
}

// ---------------------------------------------------------------------------------------
// contract builtins for ghost state

func (ex *Exec) ghostBuiltin(p *Path, name string, call *ast.CallExpr) ([]Value, bool) {
	strArg := func(i int) string {
		bl, ok := call.Args[i].(*ast.BasicLit)
		if !ok || bl.Kind != token.STRING {
			ex.unsupp(call.Pos(), "%s: argument %d must be a string literal", name, i)
		}
		return strings.Trim(bl.Value, "\"`")
	}
	switch name {
	case "count":
		return []Value{{ex.ghostRead(p, "cnt", strArg(0), "Int"), types.Typ[types.Int]}}, true
	case "at":
		// sequence number of the most recent occurrence (0 = never)
		return []Value{{ex.ghostRead(p, "at", strArg(0), "Int"), types.Typ[types.Int]}}, true
	case "lastNil":
		return []Value{{ex.ghostRead(p, "nil", strArg(0), "Bool"), types.Typ[types.Bool]}}, true
	case "lastErrNil":
		return []Value{{ex.ghostRead(p, "errnil", strArg(0), "Bool"), types.Typ[types.Bool]}}, true
	case "lastArgInt":
		return []Value{{ex.ghostRead(p, "arg"+strArg(1), strArg(0), "Int"), types.Typ[types.Int]}}, true
	case "lastArgString":
		return []Value{{ex.ghostRead(p, "arg"+strArg(1), strArg(0), "String"), types.Typ[types.String]}}, true
	case "lastArgIface":
		return []Value{{ex.ghostRead(p, "arg"+strArg(1), strArg(0), "Iface"), types.NewInterfaceType(nil, nil)}}, true
	case "lastArgRef":
		return []Value{{ex.ghostRead(p, "arg"+strArg(1), strArg(0), "Ref"), types.Typ[types.UnsafePointer]}}, true
	}
	return nil, false
}
