package main

// Trusted library models. Every model used is recorded in Ctx.trusted and reported in the evidence.

import (
	"fmt"
	"go/ast"
	"go/token"
	"go/types"
	"strings"

	"golang.org/x/tools/go/packages"
)

func init() {
	boolT, strT, intT := types.Typ[types.Bool], types.Typ[types.String], types.Typ[types.Int]
	_ = intT
	reg := func(name string, m libModel) { libModels[name] = m }
	reg("strings.HasPrefix", func(ex *Exec, p *Path, _ *Value, a []Value, _ *ast.CallExpr) []Value {
		ex.c.Trust("strings.HasPrefix = str.prefixof")
		return []Value{{"(str.prefixof " + a[1].T + " " + a[0].T + ")", boolT}}
	})
	reg("strings.HasSuffix", func(ex *Exec, p *Path, _ *Value, a []Value, _ *ast.CallExpr) []Value {
		ex.c.Trust("strings.HasSuffix = str.suffixof")
		return []Value{{"(str.suffixof " + a[1].T + " " + a[0].T + ")", boolT}}
	})
	reg("strings.Contains", func(ex *Exec, p *Path, _ *Value, a []Value, _ *ast.CallExpr) []Value {
		ex.c.Trust("strings.Contains = str.contains")
		return []Value{{"(str.contains " + a[0].T + " " + a[1].T + ")", boolT}}
	})
	reg("strings.TrimPrefix", func(ex *Exec, p *Path, _ *Value, a []Value, _ *ast.CallExpr) []Value {
		ex.c.Trust("strings.TrimPrefix: drops one leading occurrence")
		return []Value{{trimPrefixT(a[0].T, a[1].T), strT}}
	})
	reg("strings.TrimSuffix", func(ex *Exec, p *Path, _ *Value, a []Value, _ *ast.CallExpr) []Value {
		ex.c.Trust("strings.TrimSuffix: drops one trailing occurrence")
		return []Value{{trimSuffixT(a[0].T, a[1].T), strT}}
	})
	reg("strings.Index", func(ex *Exec, p *Path, _ *Value, a []Value, _ *ast.CallExpr) []Value {
		ex.c.Trust("strings.Index = str.indexof")
		return []Value{{"(str.indexof " + a[0].T + " " + a[1].T + " 0)", intT}}
	})
	reg("strings.ReplaceAll", func(ex *Exec, p *Path, _ *Value, a []Value, _ *ast.CallExpr) []Value {
		ex.c.Trust("strings.ReplaceAll = str.replace_all (non-empty pattern)")
		return []Value{{"(str.replace_all " + a[0].T + " " + a[1].T + " " + a[2].T + ")", strT}}
	})
	for _, n := range []string{"strings.ToLower", "strings.ToUpper"} {
		n := n
		reg(n, func(ex *Exec, p *Path, _ *Value, a []Value, _ *ast.CallExpr) []Value {
			ex.c.Trust(n + ": uninterpreted, length-preserving on ASCII")
			f := ex.c.Fun("obs:"+n+"/String", []string{"String"}, "String")
			r := app(f, a[0].T)
			ex.assumeFact(p, "(= (str.len "+r+") (str.len "+a[0].T+"))")
			return []Value{{r, strT}}
		})
	}
	reg("fmt.Sprintf", func(ex *Exec, p *Path, _ *Value, a []Value, call *ast.CallExpr) []Value {
		return []Value{{ex.sprintf(p, a[0], ex.lastVariadic, call), strT}}
	})
	reg("fmt.Errorf", func(ex *Exec, p *Path, _ *Value, a []Value, call *ast.CallExpr) []Value {
		msg := ex.sprintf(p, a[0], ex.lastVariadic, call)
		return []Value{ex.newError(p, msg, "fmt.Errorf")}
	})
	reg("errors.New", func(ex *Exec, p *Path, _ *Value, a []Value, call *ast.CallExpr) []Value {
		return []Value{ex.newError(p, a[0].T, "errors.New")}
	})
	reg("fmt.Sprint", func(ex *Exec, p *Path, _ *Value, a []Value, call *ast.CallExpr) []Value {
		var parts []string
		for _, v := range ex.lastVariadic {
			parts = append(parts, ex.fmtVerb(p, 'v', v))
		}
		ex.c.Trust("fmt.Sprint: concatenation of %v renderings (no separating spaces between string operands)")
		return []Value{{concatT(parts), strT}}
	})
	reg("(error).Error", func(ex *Exec, p *Path, recv *Value, a []Value, call *ast.CallExpr) []Value {
		return []Value{{ex.errMsg(*recv), strT}}
	})
	reg("google.golang.org/protobuf/proto.GetExtension", func(ex *Exec, p *Path, _ *Value, a []Value, call *ast.CallExpr) []Value {
		ex.c.Trust("proto.GetExtension: pure observer of (message, extension); result has the extension's registered Go type")
		f := ex.c.Fun("obs:proto.GetExtension", []string{"Iface", "Iface"}, "Iface")
		r := Value{app(f, a[0].T, a[1].T), types.NewInterfaceType(nil, nil)}
		if t := ex.w.extensionType(a[1].T); t != nil {
			ex.assumeFact(p, "(= (ityp "+r.T+") "+fmt.Sprint(ex.c.TID(t))+")")
			// absent extension => default value (no sebuf extension declares a non-zero default)
			has := app(ex.c.Fun("obs:proto.HasExtension", []string{"Iface", "Iface"}, "Bool"), a[0].T, a[1].T)
			ex.assumeFact(p, implies(not(has), eq(ex.assertedValue(r, t).T, ex.c.Zero(t))))
			ex.c.Trust("proto.GetExtension returns the zero value when proto.HasExtension is false (sebuf extensions declare no defaults)")
		}
		return []Value{r}
	})
	reg("google.golang.org/protobuf/proto.HasExtension", func(ex *Exec, p *Path, _ *Value, a []Value, call *ast.CallExpr) []Value {
		f := ex.c.Fun("obs:proto.HasExtension", []string{"Iface", "Iface"}, "Bool")
		return []Value{{app(f, a[0].T, a[1].T), boolT}}
	})
	reg("(google.golang.org/protobuf/reflect/protoreflect.Descriptor).Options", func(ex *Exec, p *Path, recv *Value, a []Value, call *ast.CallExpr) []Value {
		ex.c.Trust("Descriptor.Options(): pure observer; dynamic type is the descriptor kind's *descriptorpb.XOptions")
		f := ex.c.Fun("obs:Descriptor.Options", []string{"Iface"}, "Iface")
		r := Value{app(f, recv.T), types.NewInterfaceType(nil, nil)}
		if n, ok := types.Unalias(recv.Ty).(*types.Named); ok {
			optName := strings.TrimSuffix(n.Obj().Name(), "Descriptor") + "Options"
			if dp := ex.w.ByName["descriptorpb"]; dp != nil {
				if tn, ok := dp.Scope().Lookup(optName).(*types.TypeName); ok {
					ex.assumeFact(p, "(= (ityp "+r.T+") "+fmt.Sprint(ex.c.TID(types.NewPointer(tn.Type())))+")")
				}
			}
		}
		return []Value{r}
	})
	reg("sort.Strings", func(ex *Exec, p *Path, _ *Value, a []Value, call *ast.CallExpr) []Value {
		ex.c.Trust("sort.Strings: result is the argument's elements in non-decreasing order (same length, same membership)")
		s := a[0]
		ss := ex.c.SortOf(s.Ty)
		f := ex.c.Fun("sort.Strings", []string{ss}, ss)
		r := Value{app(f, s.T), s.Ty}
		_, arr, ln := ex.c.sliceParts(s.Ty)
		ex.c.Axiom("sort.Strings", fmt.Sprintf(
			"(forall ((s %[1]s)) (! (and (= (%[3]s (%[2]s s)) (%[3]s s))"+
				" (forall ((i Int) (j Int)) (=> (and (<= 0 i) (< i j) (< j (%[3]s s))) (str.<= (select (%[4]s (%[2]s s)) i) (select (%[4]s (%[2]s s)) j))))"+
				" (forall ((i Int)) (=> (and (<= 0 i) (< i (%[3]s s))) (exists ((j Int)) (and (<= 0 j) (< j (%[3]s s)) (= (select (%[4]s (%[2]s s)) i) (select (%[4]s s) j))))))"+
				" (forall ((j Int)) (=> (and (<= 0 j) (< j (%[3]s s))) (exists ((i Int)) (and (<= 0 i) (< i (%[3]s s)) (= (select (%[4]s (%[2]s s)) i) (select (%[4]s s) j))))))"+
				") :pattern ((%[2]s s))))", ss, f, ln, arr))
		if call != nil && len(call.Args) == 1 && !ex.inContract() {
			ex.assignTo(p, call.Args[0], r)
		}
		return nil
	})
	libWritesHeap["sort.Strings"] = false
	// rand.Intn(n): some index below n
	for _, full := range []string{"math/rand.Intn", "math/rand/v2.IntN"} {
		reg(full, func(ex *Exec, p *Path, _ *Value, a []Value, call *ast.CallExpr) []Value {
			ex.c.Trust("math/rand.Intn(n) returns a value in [0, n) (n > 0)")
			r := Value{ex.c.Fresh("rand", "Int"), types.Typ[types.Int]}
			p.Assume("(and (>= " + r.T + " 0) (< " + r.T + " " + a[0].T + "))")
			return []Value{r}
		})
		libWritesHeap[full] = false
	}
	// proto.Bool / proto.String / proto.Int32 ...: a fresh cell holding the argument
	for _, n := range []string{"Bool", "String", "Int32", "Int64", "Uint32", "Uint64", "Float32", "Float64"} {
		full := "google.golang.org/protobuf/proto." + n
		reg(full, func(ex *Exec, p *Path, _ *Value, a []Value, call *ast.CallExpr) []Value {
			if ex.inContract() || ex.quantFacts != nil {
				ex.unsupp(token.NoPos, "proto.%s in a specification expression", n)
			}
			r := ex.alloc(p, "cell")
			ex.heapWrite(p, "deref:"+sortToken(ex.c.SortOf(a[0].Ty)), a[0].Ty, r, a[0].T)
			return []Value{{r, types.NewPointer(a[0].Ty)}}
		})
		libWritesHeap[full] = false
	}
}

func concatT(parts []string) string {
	var xs []string
	for _, p := range parts {
		if p != `""` {
			xs = append(xs, p)
		}
	}
	switch len(xs) {
	case 0:
		return `""`
	case 1:
		return xs[0]
	}
	return "(str.++ " + strings.Join(xs, " ") + ")"
}

func (ex *Exec) newError(p *Path, msg string, kind string) Value {
	errT := types.Universe.Lookup("error").Type()
	r := ex.c.Fresh("err", "Iface")
	p.Assume("(= (ityp " + r + ") " + fmt.Sprint(ex.c.TIDName("<"+kind+" error>")) + ")")
	p.Assume("(= " + ex.errMsg(Value{r, errT}) + " " + msg + ")")
	ex.c.Trust(kind + ": returns a non-nil error whose Error() is the formatted text")
	return Value{r, errT}
}

// smtStringLiteral decodes an SMT string literal term back to a Go string.
func smtStringLiteral(t string) (string, bool) {
	if len(t) < 2 || t[0] != '"' || t[len(t)-1] != '"' {
		return "", false
	}
	body := t[1 : len(t)-1]
	var b strings.Builder
	for i := 0; i < len(body); i++ {
		if body[i] == '"' {
			if i+1 < len(body) && body[i+1] == '"' {
				b.WriteByte('"')
				i++
				continue
			}
			return "", false
		}
		if strings.HasPrefix(body[i:], `\u{`) {
			j := strings.IndexByte(body[i:], '}')
			var code int
			fmt.Sscanf(body[i+3:i+j], "%x", &code)
			b.WriteByte(byte(code))
			i += j
			continue
		}
		b.WriteByte(body[i])
	}
	return b.String(), true
}

func (ex *Exec) sprintf(p *Path, format Value, args []Value, call *ast.CallExpr) string {
	f, ok := smtStringLiteral(format.T)
	pos := token.NoPos
	if call != nil {
		pos = call.Pos()
	}
	if !ok {
		ex.unsupp(pos, "fmt: non-constant format string")
	}
	ex.c.Trust("fmt.Sprintf/Errorf: literal text and %s/%v/%d/%w/%t of strings, integers, booleans and errors as concatenation; other verbs uninterpreted")
	var parts []string
	argi := 0
	lit := strings.Builder{}
	for i := 0; i < len(f); i++ {
		if f[i] != '%' {
			lit.WriteByte(f[i])
			continue
		}
		i++
		if i >= len(f) {
			break
		}
		if f[i] == '%' {
			lit.WriteByte('%')
			continue
		}
		// flags/width are not modelled: treat the whole directive as uninterpreted if present
		j := i
		for j < len(f) && strings.ContainsRune("+-# 0123456789.", rune(f[j])) {
			j++
		}
		verb := f[j]
		if lit.Len() > 0 {
			parts = append(parts, strLit(lit.String()))
			lit.Reset()
		}
		if argi >= len(args) {
			parts = append(parts, strLit("%!"+string(verb)+"(MISSING)"))
			i = j
			continue
		}
		a := args[argi]
		argi++
		if j != i {
			fn := ex.c.Fun("fmt:"+f[i-1:j+1]+":"+sortToken(ex.c.SortOf(a.Ty)), []string{ex.c.SortOf(a.Ty)}, "String")
			parts = append(parts, app(fn, a.T))
		} else {
			parts = append(parts, ex.fmtVerb(p, verb, a))
		}
		i = j
	}
	if lit.Len() > 0 {
		parts = append(parts, strLit(lit.String()))
	}
	return concatT(parts)
}

func (ex *Exec) fmtVerb(p *Path, verb byte, a Value) string {
	s := ex.c.SortOf(a.Ty)
	// values boxed into `any` by the variadic call: unbox statically when the boxing is visible
	if s == "Iface" && strings.HasPrefix(a.T, "(mk_iface ") {
		inner, ity := unboxTerm(a.T)
		if inner != "" && (ity == "String" || ity == "Int" || ity == "Bool") {
			switch ity {
			case "String":
				if verb == 's' || verb == 'v' {
					return inner
				}
				if verb == 'q' {
					return app(ex.c.Fun("fmt:q", []string{"String"}, "String"), inner)
				}
			case "Int":
				if verb == 'd' || verb == 'v' {
					return ex.fmtInt(inner)
				}
			case "Bool":
				if verb == 't' || verb == 'v' {
					return ite(inner, `"true"`, `"false"`)
				}
			}
			fn := ex.c.Fun("fmt:"+string(verb)+":"+ity, []string{ity}, "String")
			return app(fn, inner)
		}
		if inner != "" {
			// a boxed composite: render through an uninterpreted function of the payload
			srt := ""
			for k, v := range ex.c.funSeen {
				if k == quote("box:"+ity) {
					srt = strings.SplitN(v, " -> ", 2)[0]
				}
			}
			if srt != "" {
				fn := ex.c.Fun("fmt:"+string(verb)+":"+ity, []string{srt}, "String")
				return app(fn, inner)
			}
		}
	}
	switch s {
	case "String":
		if verb == 's' || verb == 'v' {
			return a.T
		}
		if verb == 'q' {
			return app(ex.c.Fun("fmt:q", []string{"String"}, "String"), a.T)
		}
	case "Int":
		if verb == 'd' || verb == 'v' {
			return ex.fmtInt(a.T)
		}
	case "Bool":
		if verb == 't' || verb == 'v' {
			return ite(a.T, `"true"`, `"false"`)
		}
	case "Iface":
		if verb == 'v' || verb == 's' || verb == 'w' {
			// error values print their message; other dynamic types are uninterpreted but consistent
			return app(ex.c.Fun("fmt:v:Iface", []string{"Iface"}, "String"), a.T)
		}
	}
	fn := ex.c.Fun("fmt:"+string(verb)+":"+sortToken(s), []string{s}, "String")
	return app(fn, a.T)
}

// unboxTerm recognises (mk_iface tid (|box:S| x)) produced by box() and returns the payload and its sort.
func unboxTerm(t string) (string, string) {
	if !strings.HasPrefix(t, "(mk_iface ") {
		return "", ""
	}
	rest := strings.TrimPrefix(t, "(mk_iface ")
	tid := firstArg(rest)
	rest = strings.TrimLeft(rest[len(tid):], " ")
	payload := firstArg(rest)
	if !strings.HasPrefix(payload, "(|box:") && !strings.HasPrefix(payload, "(box:") {
		return "", ""
	}
	inner := strings.TrimPrefix(payload, "(")
	fn := firstArg(inner)
	arg := firstArg(strings.TrimLeft(inner[len(fn):], " "))
	sortTok := strings.TrimPrefix(strings.Trim(fn, "|"), "box:")
	return arg, sortTok
}

// extensionType maps an extension descriptor global (term |global:http.E_Config|) to the Go type of its values,
// read mechanically from the generated extension table of the repository's http package.
func (w *World) extensionType(term string) types.Type {
	w.extOnce()
	i := strings.Index(term, "|global:")
	if i < 0 {
		return nil
	}
	name := term[i+len("|global:"):]
	if j := strings.IndexByte(name, '|'); j >= 0 {
		name = name[:j]
	}
	if i := strings.LastIndex(name, "."); i >= 0 {
		name = name[i+1:]
	}
	return w.extTypes[name]
}

func (w *World) extOnce() {
	if w.extTypes != nil {
		return
	}
	w.extTypes = map[string]types.Type{}
	for _, path := range []string{modPath + "/http", "buf.build/gen/go/bufbuild/protovalidate/protocolbuffers/go/buf/validate"} {
		if pkg := w.ByPath[path]; pkg != nil {
			w.scanExtensions(pkg)
		}
	}
}

func (w *World) scanExtensions(pkg *packages.Package) {
	if len(pkg.Syntax) == 0 {
		return
	}
	// 1. the extension table literal: []protoimpl.ExtensionInfo{ {ExtensionType: (*T)(nil), ...}, ... }
	tables := map[string][]types.Type{}
	for _, f := range pkg.Syntax {
		ast.Inspect(f, func(n ast.Node) bool {
			vs, ok := n.(*ast.ValueSpec)
			if !ok || len(vs.Names) != 1 || len(vs.Values) != 1 {
				return true
			}
			cl, ok := vs.Values[0].(*ast.CompositeLit)
			if !ok || !strings.HasSuffix(vs.Names[0].Name, "_extTypes") {
				return true
			}
			var ts []types.Type
			for _, el := range cl.Elts {
				ecl, ok := el.(*ast.CompositeLit)
				if !ok {
					continue
				}
				var et types.Type
				for _, kv := range ecl.Elts {
					k, ok := kv.(*ast.KeyValueExpr)
					if !ok {
						continue
					}
					if id, ok := k.Key.(*ast.Ident); ok && id.Name == "ExtensionType" {
						t := pkg.TypesInfo.TypeOf(k.Value)
						if ptr, ok := t.(*types.Pointer); ok {
							// message extensions yield *T, scalar/enum extensions yield T
							if _, isStruct := ptr.Elem().Underlying().(*types.Struct); isStruct {
								et = ptr
							} else {
								et = ptr.Elem()
							}
						}
					}
				}
				ts = append(ts, et)
			}
			tables[vs.Names[0].Name] = ts
			return true
		})
	}
	// 2. E_X = &table[i]
	for _, f := range pkg.Syntax {
		ast.Inspect(f, func(n ast.Node) bool {
			vs, ok := n.(*ast.ValueSpec)
			if !ok {
				return true
			}
			for i, nm := range vs.Names {
				if !strings.HasPrefix(nm.Name, "E_") || i >= len(vs.Values) {
					continue
				}
				u, ok := vs.Values[i].(*ast.UnaryExpr)
				if !ok {
					continue
				}
				ix, ok := u.X.(*ast.IndexExpr)
				if !ok {
					continue
				}
				tid, ok := ix.X.(*ast.Ident)
				if !ok {
					continue
				}
				if tv, ok := pkg.TypesInfo.Types[ix.Index]; ok && tv.Value != nil {
					var idx int
					fmt.Sscan(tv.Value.ExactString(), &idx)
					if ts := tables[tid.Name]; idx < len(ts) && ts[idx] != nil {
						w.extTypes[nm.Name] = ts[idx]
					}
				}
			}
			return true
		})
	}
}
