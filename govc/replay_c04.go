package main

// Bounded stand-in for C04 (never counted as proved): the emitted Go codecs of one message per annotation kind are
// built for both Go plugins and run on a value matrix: encode, decode into a fresh message, compare with the value
// (up to the documented losses); and decode the documented canonical form written by hand (what a TS client or an
// OpenAPI consumer would send).

import (
	"fmt"
	"os"
	"path/filepath"
	"regexp"
	"sort"
	"strings"
)

func c04Schema(goPkg string) *Schema {
	f := protoFile("r/v1/r.proto", "r.v1", goPkg+";rv1")
	ts := ".google.protobuf.Timestamp"
	num := func(m M) M { return withOpt(m, "sebuf.http.int64_encoding", "INT64_ENCODING_NUMBER") }
	addEnum(f, M{"name": "Color", "value": []any{
		M{"name": "COLOR_UNSPECIFIED", "number": 0},
		M{"name": "COLOR_RED", "number": 1, "options": M{"[sebuf.http.enum_value]": "red"}},
		M{"name": "COLOR_BLUE", "number": 2, "options": M{"[sebuf.http.enum_value]": "blue"}}}})
	addEnum(f, M{"name": "Size", "value": []any{M{"name": "SIZE_UNSPECIFIED", "number": 0}, M{"name": "SIZE_S", "number": 1}, M{"name": "SIZE_L", "number": 2}}})
	addMessage(f, message("Leaf", field("s", "string"), field("n", "int32")))
	addMessage(f, message("Other", field("t", "string"), field("big", "int64")))
	ints := message("Ints", num(field("a", "int64")), num(field("b", "uint64")), num(field("c", "sint64")), num(field("d", "fixed64")),
		num(field("e", "sfixed64")), num(repeated(field("f", "int64"))), field("s", "int64"), field("label", "string"))
	// (a NUMBER-encoded proto3-optional field does not compile: C13 known finding, not repeated here)
	addMessage(f, ints)
	addMessage(f, message("Stamps",
		withOpt(msgField("secs", ts), "sebuf.http.timestamp_format", "TIMESTAMP_FORMAT_UNIX_SECONDS"),
		withOpt(msgField("millis", ts), "sebuf.http.timestamp_format", "TIMESTAMP_FORMAT_UNIX_MILLIS"),
		withOpt(msgField("day", ts), "sebuf.http.timestamp_format", "TIMESTAMP_FORMAT_DATE"),
		withOpt(msgField("rfc", ts), "sebuf.http.timestamp_format", "TIMESTAMP_FORMAT_RFC3339"),
		msgField("plain", ts), field("label", "string")))
	addMessage(f, message("Blobs",
		withOpt(field("std_raw", "bytes"), "sebuf.http.bytes_encoding", "BYTES_ENCODING_BASE64_RAW"),
		withOpt(field("url", "bytes"), "sebuf.http.bytes_encoding", "BYTES_ENCODING_BASE64URL"),
		withOpt(field("url_raw", "bytes"), "sebuf.http.bytes_encoding", "BYTES_ENCODING_BASE64URL_RAW"),
		withOpt(field("hex", "bytes"), "sebuf.http.bytes_encoding", "BYTES_ENCODING_HEX"),
		withOpt(field("std", "bytes"), "sebuf.http.bytes_encoding", "BYTES_ENCODING_BASE64"),
		field("plain", "bytes"), field("label", "string")))
	nulls := message("Nulls", optionalField(withOpt(field("nick", "string"), "sebuf.http.nullable", true), 0),
		optionalField(withOpt(field("age", "int32"), "sebuf.http.nullable", true), 1),
		optionalField(withOpt(field("ok", "bool"), "sebuf.http.nullable", true), 2), field("label", "string"))
	nulls["oneof_decl"] = []any{M{"name": "_nick"}, M{"name": "_age"}, M{"name": "_ok"}}
	addMessage(f, nulls)
	addMessage(f, message("Empties",
		withOpt(msgField("keep", ".r.v1.Leaf"), "sebuf.http.empty_behavior", "EMPTY_BEHAVIOR_PRESERVE"),
		withOpt(msgField("nul", ".r.v1.Leaf"), "sebuf.http.empty_behavior", "EMPTY_BEHAVIOR_NULL"),
		withOpt(msgField("omit", ".r.v1.Leaf"), "sebuf.http.empty_behavior", "EMPTY_BEHAVIOR_OMIT"),
		msgField("plain", ".r.v1.Leaf"), field("label", "string")))
	addMessage(f, message("Paint", enumField("color", ".r.v1.Color"), withOpt(enumField("size", ".r.v1.Size"), "sebuf.http.enum_encoding", "ENUM_ENCODING_NUMBER"), field("label", "string")))
	addMessage(f, message("Flat", field("id", "string"),
		withOpt(withOpt(msgField("inner", ".r.v1.Leaf"), "sebuf.http.flatten", true), "sebuf.http.flatten_prefix", "in_"),
		withOpt(msgField("bare", ".r.v1.Other"), "sebuf.http.flatten", true)))
	// a flattened child with a field whose JSON name is the flattened field's own JSON name
	addMessage(f, message("Email", field("email", "string"), field("verified", "bool")))
	addMessage(f, message("Contact", field("name", "string"), withOpt(msgField("email", ".r.v1.Email"), "sebuf.http.flatten", true)))
	mkChoice := func(name string, flatten bool) M {
		m := message(name, field("id", "string"),
			M{"name": "leaf", "type": "TYPE_MESSAGE", "type_name": ".r.v1.Leaf", "label": "LABEL_OPTIONAL", "json_name": "leaf", "oneof_index": 0},
			M{"name": "other", "type": "TYPE_MESSAGE", "type_name": ".r.v1.Other", "label": "LABEL_OPTIONAL", "json_name": "other", "oneof_index": 0, "options": M{"[sebuf.http.oneof_value]": "alt"}})
		fs := m["field"].([]any)
		for i, x := range fs {
			x.(M)["number"] = i + 1
		}
		cfg := M{"discriminator": "type"}
		if flatten {
			cfg["flatten"] = true
		}
		m["oneof_decl"] = []any{M{"name": "pick", "options": M{"[sebuf.http.oneof_config]": cfg}}}
		return m
	}
	addMessage(f, mkChoice("Choice", false))
	addMessage(f, mkChoice("ChoiceFlat", true))
	addMessage(f, message("LeafList", withOpt(repeated(msgField("items", ".r.v1.Leaf")), "sebuf.http.unwrap", true)))
	byKey := message("Groups", field("label", "string"))
	addMapField("r.v1", byKey, "by_key", msgField("value", ".r.v1.LeafList"), 2)
	addMessage(f, byKey)
	root := message("RootMap")
	addMapField("r.v1", root, "entries", msgField("value", ".r.v1.Leaf"), 1)
	rf := root["field"].([]any)
	withOpt(rf[len(rf)-1].(M), "sebuf.http.unwrap", true)
	addMessage(f, root)
	addMessage(f, message("Req", field("id", "string")))
	addService(f, service("R", method("Get", ".r.v1.Req", ".r.v1.Leaf")))
	return &Schema{Files: []map[string]any{f}, Generate: []string{"r/v1/r.proto"}}
}

const c04TestSrc = `package rv1

import (
	"encoding/json"
	"fmt"
	"math"
	"testing"
	"time"

	"google.golang.org/protobuf/encoding/protojson"
	"google.golang.org/protobuf/proto"
	"google.golang.org/protobuf/types/known/timestamppb"
)

// what the emitted server and client do with a message: its own codec when it has one, protojson otherwise
func enc(m proto.Message) ([]byte, error) {
	if jm, ok := m.(json.Marshaler); ok {
		return jm.MarshalJSON()
	}
	return protojson.Marshal(m)
}

func dec(b []byte, m proto.Message) error {
	if ju, ok := m.(json.Unmarshaler); ok {
		return ju.UnmarshalJSON(b)
	}
	return protojson.Unmarshal(b, m)
}

type rtCase struct {
	construct, name string
	in, want        proto.Message
	fresh           func() proto.Message
}

type canonCase struct {
	construct, name, json string
	want                  proto.Message
	fresh                 func() proto.Message
}

func fail(kind, construct, name, detail string) {
	fmt.Printf("C04FAIL kind=%s construct=%s case=%s detail=%s\n", kind, construct, name, detail)
}

func tsAt(sec int64, nanos int64) *timestamppb.Timestamp { return timestamppb.New(time.Unix(sec, nanos).UTC()) }

func TestC04Family(t *testing.T) {
	var rts []rtCase
	var canons []canonCase
	add := func(construct, name string, in, want proto.Message, fresh func() proto.Message) {
		rts = append(rts, rtCase{construct, name, in, want, fresh})
	}
	same := func(construct, name string, in proto.Message, fresh func() proto.Message) { add(construct, name, in, in, fresh) }
	canon := func(construct, name, js string, want proto.Message, fresh func() proto.Message) {
		canons = append(canons, canonCase{construct, name, js, want, fresh})
	}

	// ---- int64_encoding = NUMBER ----
	fi := func() proto.Message { return &Ints{} }
	for i, v := range []int64{0, 1, -1, 1 << 53, 1<<53 + 1, -(1<<53 + 1), math.MaxInt64, math.MinInt64} {
		same("int64-number", fmt.Sprintf("signed#%d", i), &Ints{A: v, C: v, E: v, F: []int64{v, 0, -v}, S: v, Label: "l"}, fi)
	}
	for i, v := range []uint64{0, 1, 1<<53 + 1, math.MaxInt64, math.MaxUint64} {
		same("int64-number", fmt.Sprintf("unsigned#%d", i), &Ints{B: v, D: v}, fi)
	}
	same("int64-number", "empty", &Ints{}, fi)
	canon("int64-number", "numbers", ` + "`" + `{"a":9007199254740993,"b":18446744073709551615,"c":-5,"d":7,"e":-7,"f":[1,2,9007199254740993],"s":"12","label":"x"}` + "`" + `,
		&Ints{A: 9007199254740993, B: math.MaxUint64, C: -5, D: 7, E: -7, F: []int64{1, 2, 9007199254740993}, S: 12, Label: "x"}, fi)

	// ---- timestamp_format ----
	fs := func() proto.Message { return &Stamps{} }
	day := func(sec int64) *timestamppb.Timestamp { return tsAt(sec-((sec%86400)+86400)%86400, 0) }
	ms := func(sec, nanos int64) *timestamppb.Timestamp { return tsAt(sec, nanos-nanos%1000000) }
	for i, c := range [][2]int64{{0, 0}, {1700000000, 0}, {1700000000, 123456789}, {-1, 0}, {-86401, 500000000}, {253402300799, 999000000}, {1, 999999999}} {
		sec, nanos := c[0], c[1]
		x := tsAt(sec, nanos)
		add("timestamp", fmt.Sprintf("all#%d", i), &Stamps{Secs: x, Millis: x, Day: x, Rfc: x, Plain: x, Label: "l"},
			&Stamps{Secs: tsAt(sec, 0), Millis: ms(sec, nanos), Day: day(sec), Rfc: x, Plain: x, Label: "l"}, fs)
	}
	same("timestamp", "unset", &Stamps{Label: "l"}, fs)
	canon("timestamp", "documented-forms", ` + "`" + `{"secs":1700000000,"millis":1700000000123,"day":"2023-11-14","rfc":"2023-11-14T22:13:20Z","plain":"2023-11-14T22:13:20.5Z"}` + "`" + `,
		&Stamps{Secs: tsAt(1700000000, 0), Millis: tsAt(1700000000, 123000000), Day: tsAt(1699920000, 0), Rfc: tsAt(1700000000, 0), Plain: tsAt(1700000000, 500000000)}, fs)

	// ---- bytes_encoding ----
	fb := func() proto.Message { return &Blobs{} }
	for i, b := range [][]byte{nil, {0}, {0xfb}, {0xfb, 0xff}, {0xfb, 0xff, 0xfe}, {0xde, 0xad, 0xbe, 0xef}, []byte("any carnal pleas")} {
		same("bytes", fmt.Sprintf("all#%d", i), &Blobs{StdRaw: b, Url: b, UrlRaw: b, Hex: b, Std: b, Plain: b, Label: "l"}, fb)
	}
	canon("bytes", "documented-forms", ` + "`" + `{"stdRaw":"+/8","url":"-_8=","urlRaw":"-_8","hex":"fbff","std":"+/8=","plain":"+/8="}` + "`" + `,
		&Blobs{StdRaw: []byte{0xfb, 0xff}, Url: []byte{0xfb, 0xff}, UrlRaw: []byte{0xfb, 0xff}, Hex: []byte{0xfb, 0xff}, Std: []byte{0xfb, 0xff}, Plain: []byte{0xfb, 0xff}}, fb)
	canon("bytes", "uppercase-hex", ` + "`" + `{"hex":"FBFF"}` + "`" + `, &Blobs{Hex: []byte{0xfb, 0xff}}, fb)

	// ---- nullable ----
	fn := func() proto.Message { return &Nulls{} }
	same("nullable", "unset", &Nulls{Label: "l"}, fn)
	same("nullable", "set", &Nulls{Nick: proto.String("n"), Age: proto.Int32(-3), Ok: proto.Bool(true)}, fn)
	same("nullable", "set-to-zero", &Nulls{Nick: proto.String(""), Age: proto.Int32(0), Ok: proto.Bool(false)}, fn)
	same("nullable", "text-null", &Nulls{Nick: proto.String("null")}, fn)
	canon("nullable", "explicit-null", ` + "`" + `{"nick":null,"age":null,"ok":null,"label":"x"}` + "`" + `, &Nulls{Label: "x"}, fn)
	canon("nullable", "absent", ` + "`" + `{"label":"x"}` + "`" + `, &Nulls{Label: "x"}, fn)

	// ---- empty_behavior (documented loss: presence of an empty message under NULL / OMIT) ----
	fe := func() proto.Message { return &Empties{} }
	same("empty-behavior", "unset", &Empties{Label: "l"}, fe)
	same("empty-behavior", "non-empty", &Empties{Keep: &Leaf{S: "a"}, Nul: &Leaf{N: 1}, Omit: &Leaf{S: "b"}, Plain: &Leaf{N: 2}}, fe)
	rts = append(rts, rtCase{"empty-behavior", "empty", &Empties{Keep: &Leaf{}, Nul: &Leaf{}, Omit: &Leaf{}, Plain: &Leaf{}}, nil, fe})
	canon("empty-behavior", "null-means-empty", ` + "`" + `{"nul":null,"keep":{}}` + "`" + `, nil, fe)

	// ---- enum custom values / number encoding (round trip only; the canonical forms are a C05 known finding) ----
	fp := func() proto.Message { return &Paint{} }
	for _, c := range []Color{Color_COLOR_UNSPECIFIED, Color_COLOR_RED, Color_COLOR_BLUE} {
		for _, s := range []Size{Size_SIZE_UNSPECIFIED, Size_SIZE_L} {
			same("enum", fmt.Sprintf("%v-%v", c, s), &Paint{Color: c, Size: s, Label: "l"}, fp)
		}
	}
	canon("enum", "number-form", ` + "`" + `{"size":2}` + "`" + `, &Paint{Size: Size_SIZE_L}, fp)
	canon("enum", "custom-value", ` + "`" + `{"color":"red"}` + "`" + `, &Paint{Color: Color_COLOR_RED}, fp)

	// ---- flatten ----
	ff := func() proto.Message { return &Flat{} }
	same("flatten", "all-set", &Flat{Id: "i", Inner: &Leaf{S: "a", N: 3}, Bare: &Other{T: "t", Big: 1<<53 + 1}}, ff)
	same("flatten", "one-set", &Flat{Id: "i", Bare: &Other{T: "t"}}, ff)
	same("flatten", "none-set", &Flat{Id: "i"}, ff)
	canon("flatten", "promoted", ` + "`" + `{"id":"i","in_s":"a","in_n":3,"t":"t","big":"9007199254740993"}` + "`" + `, &Flat{Id: "i", Inner: &Leaf{S: "a", N: 3}, Bare: &Other{T: "t", Big: 1<<53 + 1}}, ff)

	fct := func() proto.Message { return &Contact{} }
	same("flatten", "child-key-equals-field-name", &Contact{Name: "Ann", Email: &Email{Email: "ann@example.com", Verified: true}}, fct)
	same("flatten", "child-key-equals-field-name-partial", &Contact{Name: "Ann", Email: &Email{Email: "ann@example.com"}}, fct)
	canon("flatten", "child-key-equals-field-name", ` + "`" + `{"name":"Ann","email":"ann@example.com","verified":true}` + "`" + `, &Contact{Name: "Ann", Email: &Email{Email: "ann@example.com", Verified: true}}, fct)

	// ---- oneof discriminator ----
	fc := func() proto.Message { return &Choice{} }
	same("oneof", "leaf", &Choice{Id: "i", Pick: &Choice_Leaf{Leaf: &Leaf{S: "a", N: 1}}}, fc)
	same("oneof", "other-custom-value", &Choice{Id: "i", Pick: &Choice_Other{Other: &Other{T: "t", Big: 5}}}, fc)
	same("oneof", "empty-variant", &Choice{Id: "i", Pick: &Choice_Leaf{Leaf: &Leaf{}}}, fc)
	same("oneof", "unset", &Choice{Id: "i"}, fc)
	canon("oneof", "nested", ` + "`" + `{"id":"i","type":"alt","other":{"t":"t","big":"5"}}` + "`" + `, &Choice{Id: "i", Pick: &Choice_Other{Other: &Other{T: "t", Big: 5}}}, fc)
	fcf := func() proto.Message { return &ChoiceFlat{} }
	same("oneof-flatten", "leaf", &ChoiceFlat{Id: "i", Pick: &ChoiceFlat_Leaf{Leaf: &Leaf{S: "a", N: 1}}}, fcf)
	same("oneof-flatten", "other-custom-value", &ChoiceFlat{Id: "i", Pick: &ChoiceFlat_Other{Other: &Other{T: "t", Big: 5}}}, fcf)
	same("oneof-flatten", "empty-variant", &ChoiceFlat{Id: "i", Pick: &ChoiceFlat_Leaf{Leaf: &Leaf{}}}, fcf)
	same("oneof-flatten", "unset", &ChoiceFlat{Id: "i"}, fcf)
	canon("oneof-flatten", "promoted", ` + "`" + `{"id":"i","type":"alt","t":"t","big":"5"}` + "`" + `, &ChoiceFlat{Id: "i", Pick: &ChoiceFlat_Other{Other: &Other{T: "t", Big: 5}}}, fcf)

	// ---- unwrap ----
	fl := func() proto.Message { return &LeafList{} }
	same("unwrap-root-list", "two", &LeafList{Items: []*Leaf{{S: "a"}, {N: 2}}}, fl)
	same("unwrap-root-list", "none", &LeafList{}, fl)
	canon("unwrap-root-list", "array", ` + "`" + `[{"s":"a"},{"n":2}]` + "`" + `, &LeafList{Items: []*Leaf{{S: "a"}, {N: 2}}}, fl)
	fg := func() proto.Message { return &Groups{} }
	same("unwrap-map-value", "two", &Groups{Label: "l", ByKey: map[string]*LeafList{"x": {Items: []*Leaf{{S: "a"}}}, "y": {Items: []*Leaf{{N: 1}, {N: 2}}}}}, fg)
	same("unwrap-map-value", "empty-list", &Groups{ByKey: map[string]*LeafList{"x": {}}}, fg)
	same("unwrap-map-value", "none", &Groups{Label: "l"}, fg)
	canon("unwrap-map-value", "arrays", ` + "`" + `{"label":"l","byKey":{"x":[{"s":"a"}]}}` + "`" + `, &Groups{Label: "l", ByKey: map[string]*LeafList{"x": {Items: []*Leaf{{S: "a"}}}}}, fg)
	fr := func() proto.Message { return &RootMap{} }
	same("unwrap-root-map", "two", &RootMap{Entries: map[string]*Leaf{"x": {S: "a"}, "y": {N: 2}}}, fr)
	same("unwrap-root-map", "none", &RootMap{}, fr)
	canon("unwrap-root-map", "object", ` + "`" + `{"x":{"s":"a"}}` + "`" + `, &RootMap{Entries: map[string]*Leaf{"x": {S: "a"}}}, fr)

	emptyOK := func(got proto.Message) bool {
		e := got.(*Empties)
		okLeaf := func(l *Leaf) bool { return l == nil || proto.Size(l) == 0 }
		return e.Keep != nil && proto.Size(e.Keep) == 0 && okLeaf(e.Nul) && okLeaf(e.Omit) && e.Plain != nil && proto.Size(e.Plain) == 0
	}
	n := 0
	for _, c := range rts {
		n++
		func() {
			defer func() {
				if r := recover(); r != nil {
					fail("roundtrip", c.construct, c.name, fmt.Sprintf("panic:%v", r))
				}
			}()
			b, err := enc(c.in)
			if err != nil {
				fail("roundtrip", c.construct, c.name, "encode:"+err.Error())
				return
			}
			got := c.fresh()
			if err := dec(b, got); err != nil {
				fail("roundtrip", c.construct, c.name, fmt.Sprintf("decode-of-own-output:%v json=%s", err, b))
				return
			}
			if c.want == nil {
				if !emptyOK(got) {
					fail("roundtrip", c.construct, c.name, fmt.Sprintf("json=%s got=%v", b, got))
				}
				return
			}
			if !proto.Equal(c.want, got) {
				fail("roundtrip", c.construct, c.name, fmt.Sprintf("json=%s got=%v want=%v", b, got, c.want))
			}
		}()
	}
	for _, c := range canons {
		n++
		func() {
			defer func() {
				if r := recover(); r != nil {
					fail("canonical", c.construct, c.name, fmt.Sprintf("panic:%v", r))
				}
			}()
			got := c.fresh()
			if err := dec([]byte(c.json), got); err != nil {
				fail("canonical", c.construct, c.name, fmt.Sprintf("decode:%v json=%s", err, c.json))
				return
			}
			if c.want == nil {
				e := got.(*Empties)
				if e.Nul == nil || proto.Size(e.Nul) != 0 || e.Keep == nil {
					fail("canonical", c.construct, c.name, fmt.Sprintf("json=%s got=%v", c.json, got))
				}
				return
			}
			if !proto.Equal(c.want, got) {
				fail("canonical", c.construct, c.name, fmt.Sprintf("json=%s got=%v want=%v", c.json, got, c.want))
			}
		}()
	}
	fmt.Printf("C04CASES %d\n", n)
}
`

type c04Fail struct{ Plugin, Kind, Construct, Case, Line string }

// runC04Family builds the schema with each Go plugin and runs the matrix on the emitted codecs.
func runC04Family() (fails []c04Fail, cases int, err error) {
	re := regexp.MustCompile(`(?m)^C04FAIL kind=(\S+) construct=(\S+) case=(\S+) detail=.*$`)
	reN := regexp.MustCompile(`(?m)^C04CASES (\d+)$`)
	for _, pl := range []string{"protoc-gen-go-http", "protoc-gen-go-client"} {
		pkgDir, _, e := EmitPackage(c04Schema("example.com/r/v1"), "c04-"+strings.TrimPrefix(pl, "protoc-gen-"), []string{pl}, nil)
		if e != nil {
			return nil, 0, e
		}
		os.WriteFile(filepath.Join(pkgDir, "zz_c04_test.go"), []byte(c04TestSrc), 0o644)
		out, rerr := runCmd(pkgDir, nil, "go", "test", "-v", "-vet=off", "-count=1", "-timeout", "120s", "-run", "TestC04Family", ".")
		text := string(out)
		if rerr != nil {
			text += "\n" + rerr.Error()
		}
		for _, m := range re.FindAllStringSubmatch(text, -1) {
			fails = append(fails, c04Fail{pl, m[1], m[2], m[3], m[0]})
		}
		m := reN.FindStringSubmatch(text)
		if m == nil {
			return nil, 0, fmt.Errorf("%s: the package does not build or the test crashed: %s", pl, firstLines(text, 14))
		}
		var k int
		fmt.Sscan(m[1], &k)
		cases += k
	}
	sort.Slice(fails, func(i, j int) bool {
		a, b := fails[i], fails[j]
		return a.Construct+a.Kind+a.Case+a.Plugin < b.Construct+b.Kind+b.Case+b.Plugin
	})
	return fails, cases, nil
}

func init() {
	debugCmds["c04family"] = func(args []string) int {
		fails, n, err := runC04Family()
		if err != nil {
			fmt.Println("error:", err)
			return 1
		}
		for _, f := range fails {
			fmt.Println(f.Plugin, f.Line)
		}
		fmt.Println(len(fails), "failures in", n, "cases")
		return 0
	}
}

// c04Class groups a deviation by root cause, so that a known finding names a cause and not a single value.
func c04Class(f c04Fail) string {
	switch {
	case strings.HasPrefix(f.Construct, "unwrap") && f.Plugin == "protoc-gen-go-client":
		return "client-without-unwrap-codec@" + f.Construct
	case (f.Construct == "flatten" || strings.HasPrefix(f.Construct, "oneof")) && strings.Contains(f.Line, "cannot unmarshal string into Go struct field"):
		return "child-through-encoding-json@" + f.Construct
	case f.Construct == "enum" && f.Case == "custom-value":
		return "canonical-enum-custom-value@enum"
	}
	return f.Kind + "@" + f.Construct + ":" + f.Case
}

func init() {
	const bound = "one message per codec annotation (int64 NUMBER x5 kinds + repeated, timestamp x4 formats, bytes x5 encodings, nullable x3 types, empty_behavior x3, enum custom/number, flatten with and without prefix, oneof discriminator nested and flattened, unwrap root list / map value / root map), 7-9 boundary values each plus one hand-written canonical document per construct, for the output of go-http and of go-client"
	boundedChecks["c04-roundtrip"] = func(w *World, seed int64) map[string]any {
		out := map[string]any{"name": "c04-roundtrip", "bounded": true, "bound": bound}
		fails, n, err := runC04Family()
		if err != nil {
			out["status"] = "error: " + err.Error()
			return out
		}
		by := map[string][]c04Fail{}
		for _, f := range fails {
			by[c04Class(f)] = append(by[c04Class(f)], f)
		}
		var ks []string
		for k := range by {
			ks = append(ks, k)
		}
		sort.Strings(ks)
		var fl []map[string]any
		for _, k := range ks {
			var cs []string
			for _, f := range by[k] {
				cs = append(cs, strings.TrimPrefix(f.Plugin, "protoc-gen-")+"/"+f.Kind+"/"+f.Case)
			}
			fl = append(fl, map[string]any{"name": "C04.family." + k, "case": strings.Join(cs, ", "), "observed": firstLines(by[k][0].Line, 1), "parameter": ""})
		}
		out["failures"] = fl
		out["cases"] = n
		out["status"] = "ran"
		return out
	}
	replayers["c04-roundtrip"] = func(w *World, v violation) map[string]any {
		fails, _, err := runC04Family()
		res := map[string]any{}
		if err != nil {
			res["confirmed"] = true
			res["reason"] = err.Error()
			return res
		}
		kf, _ := loadKnownFindings()
		known := map[string]bool{}
		for _, k := range kf {
			if k.Property == "C04" && k.Status == "known" {
				known[strings.TrimPrefix(k.Obligation, "C04.family.")] = true
			}
		}
		var fresh []string
		for _, f := range fails {
			if !known[c04Class(f)] {
				fresh = append(fresh, f.Plugin+" "+f.Line)
			}
		}
		res["confirmed"] = len(fresh) > 0
		if len(fresh) > 8 {
			fresh = fresh[:8]
		}
		res["deviations_not_listed_as_known"] = fresh
		if len(fresh) == 0 {
			res["reason"] = "apart from the recorded known findings every value of the matrix survives the emitted encoder and decoder, and every canonical document decodes to the expected message"
		}
		return res
	}
}
