package main

// S3: structural proof rules (no SMT).

func runStructural(w *World, rule string) []OblResult {
	if f, ok := structuralRules[rule]; ok {
		return f(w)
	}
	return []OblResult{{Name: "structural:" + rule, Kind: "structural", Status: "unknown", Raw: "unknown structural rule"}}
}

var structuralRules = map[string]func(w *World) []OblResult{}

func runBounded(w *World, name string, seed int64) map[string]any {
	if f, ok := boundedChecks[name]; ok {
		return f(w, seed)
	}
	return map[string]any{"name": name, "bounded": true, "status": "not-implemented"}
}

var boundedChecks = map[string]func(w *World, seed int64) map[string]any{}
